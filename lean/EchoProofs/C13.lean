import EchoModel.C13
/-!
# C13 — theorems about the BasicAuth / KeyAuth model

Every statement quantifies over *every* validator `V`, *every* decoder `dec` (so nothing depends
on the Lean implementation of base64), every list of header values / located values and every
configuration.
-/
namespace C13

theorem splitColon_spec : ∀ (s u p : Str), splitColon s = some (u, p) → s = u ++ ':' :: p ∧ ':' ∉ u
  | [], u, p, h => by simp [splitColon] at h
  | c :: r, u, p, h => by
    unfold splitColon at h
    split at h
    · rename_i hc
      simp at h; obtain ⟨rfl, rfl⟩ := h; simp [hc]
    · rename_i hc
      split at h
      · simp at h
      · rename_i u' p' heq
        simp at h; obtain ⟨rfl, rfl⟩ := h
        have ih := splitColon_spec r u' p' heq
        refine ⟨by simp [ih.1.symm], ?_⟩
        simp only [List.mem_cons, not_or]
        exact ⟨fun e => hc e.symm, ih.2⟩

theorem splitColon_complete : ∀ (u p : Str), ':' ∉ u → splitColon (u ++ ':' :: p) = some (u, p)
  | [], p, _ => by simp [splitColon]
  | c :: u, p, h => by
    simp only [List.mem_cons, not_or] at h
    have ih := splitColon_complete u p h.2
    have hc : ¬ c = ':' := fun e => h.1 e.symm
    simp [splitColon, hc, ih]

theorem splitColon_none : ∀ (s : Str), splitColon s = none → ':' ∉ s
  | [], _ => by simp
  | c :: r, h => by
    unfold splitColon at h
    split at h
    · simp at h
    · rename_i hc
      split at h
      · rename_i heq
        have := splitColon_none r heq
        simp only [List.mem_cons, not_or]
        exact ⟨fun e => hc e.symm, this⟩
      · simp at h
theorem basicLit_length : basicLit.length = 5 := by decide

/-- the scheme guard of BasicAuth: more than six bytes, the first five are "basic" in any casing -/
def Guard (auth : Str) : Prop := 6 < auth.length ∧ eqFold (auth.take 5) basicLit = true

instance (auth : Str) : Decidable (Guard auth) := by unfold Guard; infer_instance

/-- panic-free description of `basicAuth` -/
def basicSpec (V : Str → Str → Outcome) (dec : Str → Option Str) (hdrs : List Str) : BObs :=
  let auth := hdrs.headD []
  if Guard auth then
    match dec (auth.drop 6) with
    | none => ⟨false, 400, false, []⟩
    | some cred =>
      match splitColon cred with
      | none => unauthorized []
      | some (u, p) =>
        match V u p with
        | .err e => ⟨false, e.status, false, [(u, p)]⟩
        | .yes => ⟨true, 200, false, [(u, p)]⟩
        | .no => unauthorized [(u, p)]
  else unauthorized []

theorem basicAuth_eq_spec (V : Str → Str → Outcome) (dec : Str → Option Str) (hdrs : List Str) :
    basicAuth V dec hdrs = some (basicSpec V dec hdrs) := by
  unfold basicAuth basicSpec Guard
  simp only [basicLit_length]
  generalize hdrs.headD [] = auth
  by_cases hl : 6 < auth.length
  · have h5 : 5 ≤ auth.length := by omega
    have h6 : 6 ≤ auth.length := by omega
    simp only [sliceTo?, sliceFrom?, h5, h6, hl, if_true, true_and, show (5:Nat) + 1 = 6 from rfl]
    by_cases hf : eqFold (List.take 5 auth) basicLit = true
    · simp only [hf, if_true]
      cases hd : dec (List.drop 6 auth) with
      | none => simp
      | some cred =>
        dsimp only
        cases hs : splitColon cred with
        | none => rfl
        | some up =>
          obtain ⟨u, p⟩ := up
          dsimp only
          cases hv : V u p <;> rfl
    · simp only [hf]; simp
  · simp only [hl]; simp

/-- **C13_basic_decision** — the complete decision table of BasicAuth: which requests reach the
    handler, with which validator call, and what every other request is answered with. -/
theorem C13_basic_decision (V : Str → Str → Outcome) (dec : Str → Option Str) (hdrs : List Str) :
    ∃ o, basicAuth V dec hdrs = some o ∧
    ((¬ Guard (hdrs.headD []) ∧ o = unauthorized [])
    ∨ (Guard (hdrs.headD []) ∧ dec ((hdrs.headD []).drop 6) = none ∧ o = ⟨false, 400, false, []⟩)
    ∨ (Guard (hdrs.headD []) ∧ ∃ cred, dec ((hdrs.headD []).drop 6) = some cred ∧ ':' ∉ cred ∧
        o = unauthorized [])
    ∨ (Guard (hdrs.headD []) ∧ ∃ u p, dec ((hdrs.headD []).drop 6) = some (u ++ ':' :: p) ∧ ':' ∉ u ∧
        ((V u p = .yes ∧ o = ⟨true, 200, false, [(u, p)]⟩)
         ∨ (V u p = .no ∧ o = unauthorized [(u, p)])
         ∨ (∃ e, V u p = .err e ∧ o = ⟨false, e.status, false, [(u, p)]⟩)))) := by
  refine ⟨_, basicAuth_eq_spec V dec hdrs, ?_⟩
  unfold basicSpec
  generalize hdrs.headD [] = auth
  by_cases hg : Guard auth
  · simp only [hg, if_true, not_true_eq_false, false_and, true_and, false_or]
    cases hd : dec (List.drop 6 auth) with
    | none => left; simp
    | some cred =>
      right
      dsimp only
      cases hs : splitColon cred with
      | none => left; exact ⟨cred, rfl, splitColon_none cred hs, rfl⟩
      | some up =>
        obtain ⟨u, p⟩ := up
        right
        obtain ⟨hc, hu⟩ := splitColon_spec cred u p hs
        refine ⟨u, p, by rw [hc], hu, ?_⟩
        dsimp only
        cases hv : V u p with
        | yes => left; exact ⟨rfl, rfl⟩
        | no => right; left; exact ⟨rfl, rfl⟩
        | err e => right; right; exact ⟨e, rfl, rfl⟩
  · left; simp [hg]

theorem splitColon_unique {u p u' p' : Str} (hu : ':' ∉ u) (hu' : ':' ∉ u')
    (h : u ++ ':' :: p = u' ++ ':' :: p') : u = u' ∧ p = p' := by
  have h1 := splitColon_complete u p hu
  have h2 := splitColon_complete u' p' hu'
  rw [h] at h1
  rw [h1] at h2
  simpa using h2

/-- **C13_no_panic (Basic)** — no list of Authorization values makes BasicAuth panic. -/
theorem C13_basic_no_panic (V : Str → Str → Outcome) (dec : Str → Option Str) (hdrs : List Str) :
    basicAuth V dec hdrs ≠ none := by
  rw [basicAuth_eq_spec]; simp

/-- **C13_basic_sound** — the handler ran ⇒ the first Authorization value passes the scheme
    guard, the text after its sixth byte decodes to `u:p` with no colon in `u`, the validator was
    called exactly once, with `(u, p)`, and said yes. -/
theorem C13_basic_sound (V : Str → Str → Outcome) (dec : Str → Option Str) (hdrs : List Str) (o : BObs)
    (h : basicAuth V dec hdrs = some o) (hr : o.ran = true) :
    ∃ auth u p, hdrs.head? = some auth ∧ Guard auth ∧ dec (auth.drop 6) = some (u ++ ':' :: p) ∧
      ':' ∉ u ∧ V u p = .yes ∧ o.calls = [(u, p)] ∧ o.status = 200 := by
  obtain ⟨o', ho', hcase⟩ := C13_basic_decision V dec hdrs
  rw [h] at ho'; cases ho'
  rcases hcase with ⟨_, rfl⟩ | ⟨_, _, rfl⟩ | ⟨_, _, _, _, rfl⟩ | ⟨hg, u, p, hd, hu, hv⟩
  · simp [unauthorized] at hr
  · simp at hr
  · simp [unauthorized] at hr
  · rcases hv with ⟨hv, rfl⟩ | ⟨_, rfl⟩ | ⟨e, _, rfl⟩
    · cases hdrs with
      | nil => simp [Guard] at hg
      | cons a r => exact ⟨a, u, p, rfl, hg, hd, hu, hv, rfl, rfl⟩
    · simp [unauthorized] at hr
    · simp at hr

/-- **C13_basic_complete** — well-formed credentials the validator accepts always reach the
    handler: scheme "basic" in any casing, one separator byte, a text that decodes to `u:p`. -/
theorem C13_basic_complete (V : Str → Str → Outcome) (dec : Str → Option Str)
    (sch enc u p : Str) (sep : Char) (rest : List Str)
    (hsch : sch.length = 5) (hfold : eqFold sch basicLit = true) (henc : enc ≠ [])
    (hdec : dec enc = some (u ++ ':' :: p)) (hu : ':' ∉ u) (hV : V u p = .yes) :
    basicAuth V dec ((sch ++ sep :: enc) :: rest) = some ⟨true, 200, false, [(u, p)]⟩ := by
  have htake : (sch ++ sep :: enc).take 5 = sch := by
    rw [← hsch]; simp
  have hdrop : (sch ++ sep :: enc).drop 6 = enc := by
    rw [show (6 : Nat) = sch.length + 1 by omega, ← List.drop_drop]; simp
  have hg : Guard (sch ++ sep :: enc) := by
    refine ⟨?_, by rw [htake]; exact hfold⟩
    have : 0 < enc.length := List.length_pos_iff.mpr henc
    simp; omega
  obtain ⟨o, ho, hcase⟩ := C13_basic_decision V dec ((sch ++ sep :: enc) :: rest)
  rw [ho]
  simp only [List.headD_cons, hdrop, hdec] at hcase
  rcases hcase with ⟨hng, _⟩ | ⟨_, hn, _⟩ | ⟨_, cred, hc, hnc, _⟩ | ⟨_, u', p', hd', hu', hv'⟩
  · exact absurd hg hng
  · simp at hn
  · simp only [Option.some.injEq] at hc
    subst hc
    simp at hnc
  · simp only [Option.some.injEq] at hd'
    obtain ⟨rfl, rfl⟩ := splitColon_unique hu hu' hd'
    rcases hv' with ⟨_, rfl⟩ | ⟨hno, _⟩ | ⟨e, he, _⟩
    · rfl
    · rw [hV] at hno; cases hno
    · rw [hV] at he; cases he

/-- **C13_basic_calls_literal** — the validator is only ever called with credentials literally
    derived from the request (decoded text of the first header value split at its first colon). -/
theorem C13_basic_calls_literal (V : Str → Str → Outcome) (dec : Str → Option Str) (hdrs : List Str)
    (o : BObs) (h : basicAuth V dec hdrs = some o) :
    ∀ c ∈ o.calls, ∃ auth, hdrs.head? = some auth ∧ Guard auth ∧
      dec (auth.drop 6) = some (c.1 ++ ':' :: c.2) ∧ ':' ∉ c.1 := by
  obtain ⟨o', ho', hcase⟩ := C13_basic_decision V dec hdrs
  rw [h] at ho'; cases ho'
  intro c hc
  rcases hcase with ⟨_, rfl⟩ | ⟨_, _, rfl⟩ | ⟨_, _, _, _, rfl⟩ | ⟨hg, u, p, hd, hu, hv⟩
  · simp [unauthorized] at hc
  · simp at hc
  · simp [unauthorized] at hc
  · have hcalls : o.calls = [(u, p)] := by
      rcases hv with ⟨_, rfl⟩ | ⟨_, rfl⟩ | ⟨e, _, rfl⟩ <;> rfl
    rw [hcalls] at hc
    simp only [List.mem_singleton] at hc
    subst hc
    cases hdrs with
    | nil => simp [Guard] at hg
    | cons a r => exact ⟨a, rfl, hg, hd, hu⟩

/-- **C13_basic_rejections** — a request that does not reach the handler is answered 401 with
    `WWW-Authenticate` (missing / foreign scheme / no colon / validator said no), 400 (text is
    not base64; validator not called) or with the validator's own error. -/
theorem C13_basic_rejections (V : Str → Str → Outcome) (dec : Str → Option Str) (hdrs : List Str)
    (o : BObs) (h : basicAuth V dec hdrs = some o) (hr : o.ran = false) :
    (o.status = 401 ∧ o.www = true) ∨ (o.status = 400 ∧ o.calls = []) ∨
    (∃ u p e, V u p = .err e ∧ o.calls = [(u, p)] ∧ o.status = e.status) := by
  obtain ⟨o', ho', hcase⟩ := C13_basic_decision V dec hdrs
  rw [h] at ho'; cases ho'
  rcases hcase with ⟨_, rfl⟩ | ⟨_, _, rfl⟩ | ⟨_, _, _, _, rfl⟩ | ⟨hg, u, p, hd, hu, hv⟩
  · left; simp [unauthorized]
  · right; left; simp
  · left; simp [unauthorized]
  · rcases hv with ⟨_, rfl⟩ | ⟨_, rfl⟩ | ⟨e, he, rfl⟩
    · simp at hr
    · left; simp [unauthorized]
    · right; right; exact ⟨u, p, e, he, rfl, rfl⟩

/-- never reaches the handler: missing header, validator answered no or failed -/
theorem C13_basic_never (V : Str → Str → Outcome) (dec : Str → Option Str) (hdrs : List Str) (o : BObs)
    (h : basicAuth V dec hdrs = some o)
    (hno : ∀ u p, dec ((hdrs.headD []).drop 6) = some (u ++ ':' :: p) → ':' ∉ u → V u p ≠ .yes) :
    o.ran = false := by
  cases hr : o.ran with
  | false => rfl
  | true =>
    obtain ⟨auth, u, p, hh, _, hd, hu, hv, _⟩ := C13_basic_sound V dec hdrs o h hr
    cases hdrs with
    | nil => simp at hh
    | cons a r =>
      simp only [List.head?_cons, Option.some.injEq] at hh
      subst hh
      exact absurd hv (hno u p hd hu)


/-! ## KeyAuth -/

/-- the shape shared by the header / cookie / param extractor loops: append the key of every
    element that has one; `break` after an append at index ≥ 19 -/
def limLoop {α} (f : α → Option Str) : Nat → List α → List Str
  | _, [] => []
  | i, x :: xs =>
    match f x with
    | some k => if i ≥ extractorLimit - 1 then [k] else k :: limLoop f (i + 1) xs
    | none => limLoop f (i + 1) xs

theorem limLoop_sound {α} (f : α → Option Str) : ∀ (xs : List α) (i : Nat) (k : Str),
    k ∈ limLoop f i xs → ∃ x ∈ xs, f x = some k
  | [], _, _, h => by simp [limLoop] at h
  | x :: xs, i, k, h => by
    unfold limLoop at h
    split at h
    · rename_i k' hk
      split at h
      · simp only [List.mem_singleton] at h; subst h; exact ⟨x, by simp, hk⟩
      · simp only [List.mem_cons] at h
        rcases h with rfl | h
        · exact ⟨x, by simp, hk⟩
        · obtain ⟨y, hy, hf⟩ := limLoop_sound f xs (i + 1) k h
          exact ⟨y, by simp [hy], hf⟩
    · obtain ⟨y, hy, hf⟩ := limLoop_sound f xs (i + 1) k h
      exact ⟨y, by simp [hy], hf⟩

/-- everything among the first 20 elements is extracted -/
theorem limLoop_complete {α} (f : α → Option Str) : ∀ (xs : List α) (i j : Nat) (x : α) (k : Str),
    xs[j]? = some x → f x = some k → i + j < extractorLimit → k ∈ limLoop f i xs
  | [], _, _, _, _, h, _, _ => by simp at h
  | y :: xs, i, 0, x, k, h, hf, _ => by
    simp only [List.getElem?_cons_zero, Option.some.injEq] at h
    subst h
    unfold limLoop
    rw [hf]
    dsimp only
    split <;> simp
  | y :: xs, i, j + 1, x, k, h, hf, hlt => by
    simp only [List.getElem?_cons_succ] at h
    have ih := limLoop_complete f xs (i + 1) j x k h hf (by omega)
    unfold limLoop
    have hi : ¬ i ≥ extractorLimit - 1 := by simp [extractorLimit] at *; omega
    split
    · simp only [hi, if_false, List.mem_cons]; exact Or.inr ih
    · exact ih

/-- key carried by one header value -/
def hdrKey (pre v : Str) : Option Str :=
  if pre.length = 0 then some v
  else if v.length > pre.length ∧ eqFold (v.take pre.length) pre = true then some (v.drop pre.length)
  else none

theorem hdrLoop_eq (pre : Str) : ∀ (vs : List Str) (i : Nat),
    hdrLoop pre i vs = some (limLoop (hdrKey pre) i vs)
  | [], i => by simp [hdrLoop, limLoop]
  | v :: vs, i => by
    have ih := hdrLoop_eq pre vs (i + 1)
    unfold hdrLoop limLoop
    rw [ih]
    by_cases hp : pre.length = 0
    · have hk : hdrKey pre v = some v := by simp [hdrKey, hp]
      rw [hk]; simp only [hp, if_true]; split <;> rfl
    · by_cases hl : v.length > pre.length
      · have h1 : pre.length ≤ v.length := by omega
        by_cases hf : eqFold (List.take pre.length v) pre = true
        · have hk : hdrKey pre v = some (v.drop pre.length) := by simp [hdrKey, hp, hl, hf]
          rw [hk]; simp only [hp, hl, sliceTo?, sliceFrom?, h1, hf, if_true, if_false]; split <;> rfl
        · have hk : hdrKey pre v = none := by simp [hdrKey, hp, hf]
          rw [hk]; simp only [hp, hl, sliceTo?, sliceFrom?, h1, hf, if_true, if_false]; simp
      · have hk : hdrKey pre v = none := by simp [hdrKey, hp, hl]
        rw [hk]; simp only [hp, hl, if_false]

def cookieKey (name : Str) (c : Str × Str) : Option Str := if name = c.1 then some c.2 else none

theorem cookieLoop_eq (name : Str) : ∀ (cs : List (Str × Str)) (i : Nat),
    cookieLoop name i cs = limLoop (cookieKey name) i cs
  | [], i => by simp [cookieLoop, limLoop]
  | (n, v) :: cs, i => by
    have ih := cookieLoop_eq name cs (i + 1)
    unfold cookieLoop limLoop
    rw [ih]
    by_cases hn : name = n
    · have hk : cookieKey name (n, v) = some v := by simp [cookieKey, hn]
      rw [hk]; simp only [hn, if_true]
    · have hk : cookieKey name (n, v) = none := by simp [cookieKey, hn]
      rw [hk]; simp only [hn, if_false]

theorem capValues_eq (vs : List Str) : capValues vs = some (vs.take extractorLimit) := by
  unfold capValues
  by_cases h : vs.length > extractorLimit - 1
  · have : extractorLimit ≤ vs.length := by simp [extractorLimit] at *; omega
    simp [h, this]
  · have : vs.length ≤ extractorLimit := by simp [extractorLimit] at *; omega
    simp [h, List.take_of_length_le this]


/-- the key one located `(name, value)` pair carries for a source: the value itself, for header
    sources with the (case-insensitively matching) cut prefix removed, for cookie / param sources
    only under the configured name -/
def keyOf (s : Src) (nv : Str × Str) : Option Str :=
  match s.kind with
  | .header => hdrKey s.pre nv.2
  | .query => some nv.2
  | .form => some nv.2
  | .cookie => cookieKey s.name nv
  | .param => cookieKey s.name nv

/-- all keys an extractor returns -/
def keysOf (s : Src) (d : List (Str × Str)) : List Str :=
  match s.kind with
  | .header => limLoop (hdrKey s.pre) 0 (d.map (·.2))
  | .query => (d.map (·.2)).take extractorLimit
  | .form => (d.map (·.2)).take extractorLimit
  | .cookie => limLoop (cookieKey s.name) 0 d
  | .param => limLoop (cookieKey s.name) 0 d

theorem extract_spec (s : Src) (d : List (Str × Str)) :
    (∃ e, extract s d = .fail e ∧ keysOf s d = []) ∨
    (extract s d = .keys (keysOf s d) ∧ keysOf s d ≠ []) := by
  unfold extract keysOf
  cases hk : s.kind <;> dsimp only
  · -- header
    cases d with
    | nil => left; exact ⟨.headerMissing, by simp, by simp [limLoop]⟩
    | cons a r =>
      have h0 : ¬ (List.map (fun x => x.snd) (a :: r)).length = 0 := by simp
      simp only [h0, if_false, hdrLoop_eq]
      cases hl : limLoop (hdrKey s.pre) 0 (List.map (fun x => x.snd) (a :: r)) with
      | nil =>
        left; dsimp only
        by_cases hp : s.pre.length > 0
        · exact ⟨.headerInvalid, by simp [hp], rfl⟩
        · exact ⟨.headerMissing, by simp [hp], rfl⟩
      | cons k ks => right; exact ⟨rfl, by simp⟩
  · -- query
    cases d with
    | nil => left; exact ⟨.queryMissing, by simp, by simp⟩
    | cons a r =>
      right
      have h0 : ¬ (List.map (fun x => x.snd) (a :: r)).length = 0 := by simp
      simp only [h0, if_false, capValues_eq]
      exact ⟨trivial, by simp [extractorLimit]⟩
  · -- form
    cases d with
    | nil => left; exact ⟨.formMissing, by simp, by simp⟩
    | cons a r =>
      right
      have h0 : ¬ (List.map (fun x => x.snd) (a :: r)).length = 0 := by simp
      simp only [h0, if_false, capValues_eq]
      exact ⟨trivial, by simp [extractorLimit]⟩
  · -- cookie
    cases d with
    | nil => left; exact ⟨.cookieMissing, by simp, by simp [limLoop]⟩
    | cons a r =>
      have h0 : ¬ (a :: r).length = 0 := by simp
      simp only [h0, if_false, cookieLoop_eq]
      cases hl : limLoop (cookieKey s.name) 0 (a :: r) with
      | nil => left; exact ⟨.cookieMissing, rfl, rfl⟩
      | cons k ks => right; exact ⟨rfl, by simp⟩
  · -- param
    simp only [cookieLoop_eq]
    cases hl : limLoop (cookieKey s.name) 0 d with
    | nil => left; exact ⟨.paramMissing, rfl, rfl⟩
    | cons k ks => right; exact ⟨rfl, by simp⟩

/-- every extracted key is carried by a value located at the source -/
theorem keysOf_sound (s : Src) (d : List (Str × Str)) (k : Str) (h : k ∈ keysOf s d) :
    ∃ nv ∈ d, keyOf s nv = some k := by
  unfold keysOf at h
  unfold keyOf
  cases hk : s.kind <;> rw [hk] at h <;> dsimp only at h ⊢
  · obtain ⟨v, hv, hf⟩ := limLoop_sound _ _ _ _ h
    obtain ⟨nv, hnv, rfl⟩ := List.mem_map.mp hv
    exact ⟨nv, hnv, hf⟩
  · obtain ⟨nv, hnv, rfl⟩ := List.mem_map.mp (List.mem_of_mem_take h)
    exact ⟨nv, hnv, rfl⟩
  · obtain ⟨nv, hnv, rfl⟩ := List.mem_map.mp (List.mem_of_mem_take h)
    exact ⟨nv, hnv, rfl⟩
  · exact limLoop_sound _ _ _ _ h
  · exact limLoop_sound _ _ _ _ h

/-- every key carried by one of the first 20 located values is extracted -/
theorem keysOf_complete (s : Src) (d : List (Str × Str)) (j : Nat) (nv : Str × Str) (k : Str)
    (hj : d[j]? = some nv) (hlt : j < extractorLimit) (hk : keyOf s nv = some k) : k ∈ keysOf s d := by
  unfold keysOf
  unfold keyOf at hk
  cases hkind : s.kind <;> rw [hkind] at hk <;> dsimp only at hk ⊢
  · exact limLoop_complete _ _ 0 j nv.2 k (by simp [hj]) hk (by omega)
  · simp only [Option.some.injEq] at hk; subst hk
    rw [List.mem_iff_getElem?]
    exact ⟨j, by simp [hlt, hj]⟩
  · simp only [Option.some.injEq] at hk; subst hk
    rw [List.mem_iff_getElem?]
    exact ⟨j, by simp [hlt, hj]⟩
  · exact limLoop_complete _ _ 0 j nv k hj hk (by omega)
  · exact limLoop_complete _ _ 0 j nv k hj hk (by omega)


theorem valKeys_spec (V : Str → Outcome) : ∀ (ks : List Str) (lv : Option VErr),
    (∀ k ∈ (valKeys V ks lv).2.1, k ∈ ks) ∧
    ((valKeys V ks lv).1 = true → ∃ k, (valKeys V ks lv).2.1.getLast? = some k ∧ V k = .yes) ∧
    ((valKeys V ks lv).1 = false →
        (valKeys V ks lv).2.1 = ks ∧ (∀ k ∈ ks, V k ≠ .yes) ∧
        ((valKeys V ks lv).2.2 = none → lv = none ∧ ks = []) ∧
        (∀ c, (valKeys V ks lv).2.2 = some (.verr (.http c)) →
            lv = some (.verr (.http c)) ∨ ∃ k ∈ ks, V k = .err (.http c)))
  | [], lv => by simp [valKeys]
  | k :: ks, lv => by
    unfold valKeys
    cases hv : V k with
    | yes => simp [hv]
    | no =>
      dsimp only
      obtain ⟨h1, h2, h3⟩ := valKeys_spec V ks (some .invalid)
      refine ⟨?_, ?_, ?_⟩
      · intro x hx
        simp only [List.mem_cons] at hx ⊢
        rcases hx with rfl | hx
        · exact Or.inl rfl
        · exact Or.inr (h1 x hx)
      · intro ha
        obtain ⟨x, hx, hvx⟩ := h2 ha
        refine ⟨x, ?_, hvx⟩
        cases hc : (valKeys V ks (some VErr.invalid)).2.1 with
        | nil => rw [hc] at hx; simp at hx
        | cons a r => rw [hc] at hx; simpa [List.getLast?_cons_cons] using hx
      · intro ha
        obtain ⟨e1, e2, e3, e4⟩ := h3 ha
        refine ⟨by rw [e1], ?_, ?_, ?_⟩
        · intro x hx
          simp only [List.mem_cons] at hx
          rcases hx with rfl | hx
          · rw [hv]; simp
          · exact e2 x hx
        · intro hn; have := (e3 hn).1; simp at this
        · intro c hc
          rcases e4 c hc with h | ⟨x, hx, hvx⟩
          · simp at h
          · exact Or.inr ⟨x, by simp [hx], hvx⟩
    | err e =>
      dsimp only
      obtain ⟨h1, h2, h3⟩ := valKeys_spec V ks (some (.verr e))
      refine ⟨?_, ?_, ?_⟩
      · intro x hx
        simp only [List.mem_cons] at hx ⊢
        rcases hx with rfl | hx
        · exact Or.inl rfl
        · exact Or.inr (h1 x hx)
      · intro ha
        obtain ⟨x, hx, hvx⟩ := h2 ha
        refine ⟨x, ?_, hvx⟩
        cases hc : (valKeys V ks (some (VErr.verr e))).2.1 with
        | nil => rw [hc] at hx; simp at hx
        | cons a r => rw [hc] at hx; simpa [List.getLast?_cons_cons] using hx
      · intro ha
        obtain ⟨e1, e2, e3, e4⟩ := h3 ha
        refine ⟨by rw [e1], ?_, ?_, ?_⟩
        · intro x hx
          simp only [List.mem_cons] at hx
          rcases hx with rfl | hx
          · rw [hv]; simp
          · exact e2 x hx
        · intro hn; have := (e3 hn).1; simp at this
        · intro c hc
          rcases e4 c hc with h | ⟨x, hx, hvx⟩
          · simp only [Option.some.injEq, VErr.verr.injEq] at h
            subst h
            exact Or.inr ⟨k, by simp, hv⟩
          · exact Or.inr ⟨x, by simp [hx], hvx⟩


/-- what the extractor / validator loops guarantee about their result -/
structure LoopOK (V : Str → Outcome) (sds : List (Src × List (Str × Str)))
    (lv : Option VErr) (le : Option ExtErr) (l : Loop) : Prop where
  lit : ∀ k ∈ l.calls, ∃ sd ∈ sds, k ∈ keysOf sd.1 sd.2
  acc : l.accepted = true → ∃ k, l.calls.getLast? = some k ∧ V k = .yes
  rej : l.accepted = false →
    (∀ k ∈ l.calls, V k ≠ .yes) ∧ (∀ sd ∈ sds, ∀ k ∈ keysOf sd.1 sd.2, k ∈ l.calls)
  lvNone : l.accepted = false → l.lastV = none → lv = none ∧ l.calls = []
  lvHttp : l.accepted = false → ∀ c, l.lastV = some (.verr (.http c)) →
    lv = some (.verr (.http c)) ∨ ∃ k ∈ l.calls, V k = .err (.http c)
  leNone : l.lastE = none → le = none
  lvKeep : l.accepted = false → l.calls = [] → l.lastV = lv
  noSrc : l.accepted = false → l.lastE = none → l.lastV = none → sds = []

theorem extLoop_spec (V : Str → Outcome) : ∀ (sds : List (Src × List (Str × Str)))
    (lv : Option VErr) (le : Option ExtErr), ∃ l, extLoop V sds lv le = some l ∧ LoopOK V sds lv le l
  | [], lv, le => by
    refine ⟨⟨false, [], lv, le⟩, by simp [extLoop], ?_⟩
    constructor <;> simp
  | (s, d) :: rest, lv, le => by
    unfold extLoop
    rcases extract_spec s d with ⟨e, he, hk0⟩ | ⟨he, hk0⟩
    · rw [he]; dsimp only
      obtain ⟨l, hl, ok⟩ := extLoop_spec V rest lv (some e)
      refine ⟨l, hl, ?_⟩
      constructor
      · intro k hk
        obtain ⟨sd, hsd, h⟩ := ok.lit k hk
        exact ⟨sd, by simp [hsd], h⟩
      · exact ok.acc
      · intro ha
        refine ⟨(ok.rej ha).1, ?_⟩
        intro sd hsd k hk
        simp only [List.mem_cons] at hsd
        rcases hsd with rfl | hsd
        · rw [hk0] at hk; simp at hk
        · exact (ok.rej ha).2 sd hsd k hk
      · exact ok.lvNone
      · exact ok.lvHttp
      · intro h; have := ok.leNone h; simp at this
      · exact ok.lvKeep
      · intro _ h; have := ok.leNone h; simp at this
    · rw [he]; dsimp only
      obtain ⟨v1, v2, v3⟩ := valKeys_spec V (keysOf s d) lv
      cases hacc : (valKeys V (keysOf s d) lv).1 with
      | true =>
        simp only [if_true]
        refine ⟨_, rfl, ?_⟩
        constructor
        · intro k hk
          exact ⟨(s, d), by simp, v1 k hk⟩
        · intro _; exact v2 hacc
        · intro h; simp at h
        · intro h; simp at h
        · intro h; simp at h
        · intro h; exact h
        · intro h; simp at h
        · intro h; simp at h
      | false =>
        simp only [Bool.false_eq_true, if_false]
        obtain ⟨e1, e2, e3, e4⟩ := v3 hacc
        obtain ⟨l, hl, ok⟩ := extLoop_spec V rest (valKeys V (keysOf s d) lv).2.2 le
        rw [hl]; dsimp only
        refine ⟨_, rfl, ?_⟩
        have hne : (valKeys V (keysOf s d) lv).2.2 ≠ none := fun h => hk0 (e3 h).2
        constructor
        · intro k hk
          simp only [List.mem_append] at hk
          rcases hk with hk | hk
          · exact ⟨(s, d), by simp, v1 k hk⟩
          · obtain ⟨sd, hsd, h⟩ := ok.lit k hk
            exact ⟨sd, by simp [hsd], h⟩
        · intro ha
          obtain ⟨k, hk, hv⟩ := ok.acc ha
          refine ⟨k, ?_, hv⟩
          simp [List.getLast?_append, hk]
        · intro ha
          have ha' : l.accepted = false := ha
          refine ⟨?_, ?_⟩
          · intro k hk
            simp only [List.mem_append] at hk
            rcases hk with hk | hk
            · exact e2 k (v1 k hk)
            · exact (ok.rej ha').1 k hk
          · intro sd hsd k hk
            simp only [List.mem_cons] at hsd
            simp only [List.mem_append]
            rcases hsd with rfl | hsd
            · left; rw [e1]; exact hk
            · right; exact (ok.rej ha').2 sd hsd k hk
        · intro ha hn
          exact absurd (ok.lvNone ha hn).1 hne
        · intro ha c hc
          rcases ok.lvHttp ha c hc with h | ⟨k, hk, hv⟩
          · rcases e4 c h with h' | ⟨k, hk, hv⟩
            · exact Or.inl h'
            · exact Or.inr ⟨k, by simp [e1, hk], hv⟩
          · exact Or.inr ⟨k, by simp [hk], hv⟩
        · exact ok.leNone
        · intro _ hn
          simp only [List.append_eq_nil_iff] at hn
          rw [e1] at hn
          exact absurd hn.1 hk0
        · intro ha _ hn
          exact absurd (ok.lvNone ha hn).1 hne


/-- key `k` is literally present in the request: some located `(name, value)` pair at a configured
    lookup source carries it (value itself; header sources: cut prefix removed) -/
def Present (cfg : KCfg) (data : List (List (Str × Str))) (k : Str) : Prop :=
  ∃ sd ∈ cfg.sources.zip data, ∃ nv ∈ sd.2, keyOf sd.1 nv = some k

theorem keyAuth_inv (V : Str → Outcome) (cfg : KCfg) (data : List (List (Str × Str))) :
    ∃ l, LoopOK V (cfg.sources.zip data) none none l ∧ keyAuth V cfg data = finish cfg l := by
  obtain ⟨l, hl, ok⟩ := extLoop_spec V (cfg.sources.zip data) none none
  exact ⟨l, ok, by simp [keyAuth, hl]⟩

/-- **C13_key_panic_iff** — KeyAuth panics on a request exactly when the configuration yields no
    extractor at all (KeyLookup without a known source kind) and no ErrorHandler is set; in
    particular no request content makes a configuration with at least one lookup source panic. -/
theorem C13_key_panic_iff (V : Str → Outcome) (cfg : KCfg) (data : List (List (Str × Str))) :
    keyAuth V cfg data = none ↔ (cfg.sources.zip data = [] ∧ cfg.eh = .absent) := by
  obtain ⟨l, ok, h⟩ := keyAuth_inv V cfg data
  rw [h]
  constructor
  · intro hf
    unfold finish at hf
    split at hf
    · simp at hf
    · rename_i hacc
      have hacc : l.accepted = false := by simpa using hacc
      cases he : cfg.eh <;> rw [he] at hf <;> dsimp only at hf
      · cases hv : l.lastV with
        | some v =>
          rw [hv] at hf
          cases v with
          | invalid => simp at hf
          | verr e => cases e <;> simp at hf
        | none =>
          rw [hv] at hf; dsimp only at hf
          cases hE : l.lastE with
          | some e => rw [hE] at hf; simp at hf
          | none => exact ⟨ok.noSrc hacc hE hv, rfl⟩
      · split at hf <;> simp at hf
      · simp at hf
      · simp at hf
  · rintro ⟨hz, he⟩
    rw [← h]
    simp [keyAuth, hz, extLoop, finish, he]


/-- decision table of the code after the loops -/
theorem finish_cases (cfg : KCfg) (l : Loop) (o : KObs) (h : finish cfg l = some o) :
    o.calls = l.calls ∧
    ((l.accepted = true ∧ o.ran = true ∧ o.status = 200 ∧ o.ehClass = 0) ∨
     (l.accepted = false ∧
       ((cfg.eh = .absent ∧ o.ran = false ∧ o.ehClass = 0 ∧
            ((∃ c, l.lastV = some (.verr (.http c)) ∧ o.status = c) ∨
             (l.lastV ≠ none ∧ o.status = 401) ∨ (l.lastV = none ∧ o.status = 400)))
        ∨ (cfg.eh = .retNil ∧ o.ran = cfg.cont ∧ o.status = 200 ∧ o.ehClass = errClass l.lastV)
        ∨ (cfg.eh = .pass ∧ o.ran = false ∧ o.status = errStatus l.lastV ∧ o.ehClass = errClass l.lastV)
        ∨ (∃ c, cfg.eh = .http c ∧ o.ran = false ∧ o.status = c ∧ o.ehClass = errClass l.lastV)))) := by
  unfold finish at h
  split at h
  · rename_i ha
    simp only [Option.some.injEq] at h; subst h
    exact ⟨rfl, Or.inl ⟨ha, rfl, rfl, rfl⟩⟩
  · rename_i ha
    have ha : l.accepted = false := by simpa using ha
    cases he : cfg.eh <;> rw [he] at h <;> dsimp only at h
    · cases hv : l.lastV with
      | some v =>
        rw [hv] at h
        cases v with
        | invalid =>
          simp only [Option.some.injEq] at h; subst h
          exact ⟨rfl, Or.inr ⟨ha, Or.inl ⟨rfl, rfl, rfl, Or.inr (Or.inl ⟨by simp, rfl⟩)⟩⟩⟩
        | verr e =>
          cases e with
          | plain =>
            simp only [Option.some.injEq] at h; subst h
            exact ⟨rfl, Or.inr ⟨ha, Or.inl ⟨rfl, rfl, rfl, Or.inr (Or.inl ⟨by simp, rfl⟩)⟩⟩⟩
          | http c =>
            simp only [Option.some.injEq] at h; subst h
            exact ⟨rfl, Or.inr ⟨ha, Or.inl ⟨rfl, rfl, rfl, Or.inl ⟨c, rfl, rfl⟩⟩⟩⟩
      | none =>
        rw [hv] at h; dsimp only at h
        cases hE : l.lastE with
        | some e =>
          rw [hE] at h
          simp only [Option.some.injEq] at h; subst h
          exact ⟨rfl, Or.inr ⟨ha, Or.inl ⟨rfl, rfl, rfl, Or.inr (Or.inr ⟨rfl, rfl⟩)⟩⟩⟩
        | none => rw [hE] at h; simp at h
    · split at h
      · rename_i hc
        simp only [Option.some.injEq] at h; subst h
        exact ⟨rfl, Or.inr ⟨ha, Or.inr (Or.inl ⟨rfl, hc.symm, rfl, rfl⟩)⟩⟩
      · rename_i hc
        have hc : cfg.cont = false := by simpa using hc
        simp only [Option.some.injEq] at h; subst h
        exact ⟨rfl, Or.inr ⟨ha, Or.inr (Or.inl ⟨rfl, hc.symm, rfl, rfl⟩)⟩⟩
    · simp only [Option.some.injEq] at h; subst h
      exact ⟨rfl, Or.inr ⟨ha, Or.inr (Or.inr (Or.inl ⟨rfl, rfl, rfl, rfl⟩))⟩⟩
    · rename_i c
      simp only [Option.some.injEq] at h; subst h
      exact ⟨rfl, Or.inr ⟨ha, Or.inr (Or.inr (Or.inr ⟨c, rfl, rfl, rfl, rfl⟩))⟩⟩

theorem present_of_keysOf {cfg : KCfg} {data : List (List (Str × Str))} {k : Str}
    (h : ∃ sd ∈ cfg.sources.zip data, k ∈ keysOf sd.1 sd.2) : Present cfg data k := by
  obtain ⟨sd, hsd, hk⟩ := h
  obtain ⟨nv, hnv, hkey⟩ := keysOf_sound sd.1 sd.2 k hk
  exact ⟨sd, hsd, nv, hnv, hkey⟩

/-- **C13_key_sound** — the handler ran ⇒ the last validator call said yes to a key literally
    present at a configured lookup location of the request — or the documented opt-in applies:
    `ContinueOnIgnoredError` is set, an `ErrorHandler` is configured and returned nil (and then
    the validator approved nothing). -/
theorem C13_key_sound (V : Str → Outcome) (cfg : KCfg) (data : List (List (Str × Str))) (o : KObs)
    (h : keyAuth V cfg data = some o) (hr : o.ran = true) :
    (∃ k, o.calls.getLast? = some k ∧ V k = .yes ∧ Present cfg data k) ∨
    (cfg.cont = true ∧ cfg.eh = .retNil ∧ ∀ k ∈ o.calls, V k ≠ .yes) := by
  obtain ⟨l, ok, hk⟩ := keyAuth_inv V cfg data
  rw [hk] at h
  obtain ⟨hc, hcase⟩ := finish_cases cfg l o h
  rcases hcase with ⟨ha, _⟩ | ⟨ha, hcase⟩
  · left
    obtain ⟨k, hlast, hv⟩ := ok.acc ha
    refine ⟨k, by rw [hc]; exact hlast, hv, present_of_keysOf (ok.lit k ?_)⟩
    exact List.mem_of_getLast? hlast
  · rcases hcase with ⟨_, hr', _⟩ | ⟨he, hr', _⟩ | ⟨_, hr', _⟩ | ⟨c, _, hr', _⟩
    · rw [hr] at hr'; cases hr'
    · right
      refine ⟨by rw [← hr', hr], he, ?_⟩
      rw [hc]; exact (ok.rej ha).1
    · rw [hr] at hr'; cases hr'
    · rw [hr] at hr'; cases hr'

/-- **C13_key_calls_literal** — the validator is only ever called with keys literally present at
    a configured lookup location of the request. -/
theorem C13_key_calls_literal (V : Str → Outcome) (cfg : KCfg) (data : List (List (Str × Str)))
    (o : KObs) (h : keyAuth V cfg data = some o) : ∀ k ∈ o.calls, Present cfg data k := by
  obtain ⟨l, ok, hk⟩ := keyAuth_inv V cfg data
  rw [hk] at h
  obtain ⟨hc, _⟩ := finish_cases cfg l o h
  intro k hkm
  rw [hc] at hkm
  exact present_of_keysOf (ok.lit k hkm)

/-- **C13_key_complete** — a key carried by one of the first 20 values at any configured lookup
    location and accepted by the validator always reaches the handler (earlier keys that were
    refused or made the validator fail do not matter). -/
theorem C13_key_complete (V : Str → Outcome) (cfg : KCfg) (data : List (List (Str × Str)))
    (sd : Src × List (Str × Str)) (hsd : sd ∈ cfg.sources.zip data)
    (j : Nat) (nv : Str × Str) (k : Str) (hj : sd.2[j]? = some nv) (hlt : j < extractorLimit)
    (hkey : keyOf sd.1 nv = some k) (hV : V k = .yes) :
    ∃ o, keyAuth V cfg data = some o ∧ o.ran = true ∧ o.status = 200 ∧ o.ehClass = 0 := by
  obtain ⟨l, ok, hk⟩ := keyAuth_inv V cfg data
  have hmem : k ∈ keysOf sd.1 sd.2 := keysOf_complete sd.1 sd.2 j nv k hj hlt hkey
  have hacc : l.accepted = true := by
    cases ha : l.accepted with
    | true => rfl
    | false =>
      have := (ok.rej ha).2 sd hsd k hmem
      exact absurd hV ((ok.rej ha).1 k this)
  refine ⟨⟨true, 200, 0, l.calls⟩, ?_, rfl, rfl, rfl⟩
  rw [hk]; simp [finish, hacc]

/-- **C13_key_rejections** — without an ErrorHandler a request that does not reach the handler is
    answered 400 (nothing extracted, validator never called), 401 (every extracted key refused),
    or with the code of an `*echo.HTTPError` the validator itself returned. -/
theorem C13_key_rejections (V : Str → Outcome) (cfg : KCfg) (data : List (List (Str × Str))) (o : KObs)
    (h : keyAuth V cfg data = some o) (hr : o.ran = false) (he : cfg.eh = .absent) :
    (o.status = 400 ∧ o.calls = []) ∨ (o.status = 401 ∧ o.calls ≠ []) ∨
    (∃ k ∈ o.calls, ∃ c, V k = .err (.http c) ∧ o.status = c) := by
  obtain ⟨l, ok, hk⟩ := keyAuth_inv V cfg data
  rw [hk] at h
  obtain ⟨hc, hcase⟩ := finish_cases cfg l o h
  rcases hcase with ⟨_, hr', _⟩ | ⟨ha, hcase⟩
  · rw [hr] at hr'; cases hr'
  · rcases hcase with ⟨_, _, _, hst⟩ | ⟨he', _⟩ | ⟨he', _⟩ | ⟨c, he', _⟩
    · rcases hst with ⟨c, hv, hs⟩ | ⟨hv, hs⟩ | ⟨hv, hs⟩
      · right; right
        rcases ok.lvHttp ha c hv with h0 | ⟨k, hkm, hvk⟩
        · cases h0
        · exact ⟨k, by rw [hc]; exact hkm, c, hvk, hs⟩
      · right; left
        refine ⟨hs, ?_⟩
        rw [hc]
        intro hnil
        exact hv (ok.lvKeep ha hnil)
      · left; exact ⟨hs, by rw [hc]; exact (ok.lvNone ha hv).2⟩
    · rw [he] at he'; cases he'
    · rw [he] at he'; cases he'
    · rw [he] at he'; cases he'


/-! ## base64: the model's decoder inverts the standard encoder -/

/-- `base64.StdEncoding` alphabet -/
def b64char (n : Nat) : Char :=
  if n < 26 then Char.ofNat (65 + n)
  else if n < 52 then Char.ofNat (97 + (n - 26))
  else if n < 62 then Char.ofNat (48 + (n - 52))
  else if n = 62 then '+' else '/'

/-- `base64.StdEncoding.EncodeToString` (specification side; not used by the model) -/
def b64encode : Str → Str
  | [] => []
  | [a] => [b64char (a.toNat / 4), b64char (a.toNat % 4 * 16), '=', '=']
  | [a, b] => [b64char (a.toNat / 4), b64char (a.toNat % 4 * 16 + b.toNat / 16),
               b64char (b.toNat % 16 * 4), '=']
  | a :: b :: c :: rest =>
    b64char (a.toNat / 4) :: b64char (a.toNat % 4 * 16 + b.toNat / 16)
      :: b64char (b.toNat % 16 * 4 + c.toNat / 64) :: b64char (c.toNat % 64) :: b64encode rest

theorem b64char_facts : ∀ n, n < 64 →
    b64val (b64char n) = some n ∧ b64char n ≠ '=' ∧ b64char n ≠ '\r' ∧ b64char n ≠ '\n' := by
  decide


theorem b64quads_full (c0 c1 c2 c3 : Char) (rest : Str) (x y z w : Nat)
    (h0 : b64val c0 = some x) (h1 : b64val c1 = some y) (h2 : b64val c2 = some z) (h3 : b64val c3 = some w)
    (n2 : c2 ≠ '=') (n3 : c3 ≠ '=') :
    b64quads (c0 :: c1 :: c2 :: c3 :: rest) =
      (b64quads rest).map fun out => Char.ofNat (x * 4 + y / 16) :: Char.ofNat (y % 16 * 16 + z / 4)
        :: Char.ofNat (z % 4 * 64 + w) :: out := by
  rw [b64quads]
  simp only [h0, h1, h2, h3, n2, n3, if_false]
  cases b64quads rest <;> rfl

theorem ofNat_toNat (c : Char) : Char.ofNat c.toNat = c := by simp

/-- **b64 round trip** — the model's decoder inverts standard base64 encoding on every byte
    string, so `Basic ` + std-base64(`u:p`) always decodes to `u:p`. -/
theorem b64_roundtrip : ∀ (bs : Str), (∀ c ∈ bs, c.toNat < 256) → b64quads (b64encode bs) = some bs
  | [], _ => by simp [b64encode, b64quads]
  | [a], h => by
    have ha : a.toNat < 256 := h a (by simp)
    obtain ⟨v0, e0, _⟩ := b64char_facts (a.toNat / 4) (by omega)
    obtain ⟨v1, e1, _⟩ := b64char_facts (a.toNat % 4 * 16) (by omega)
    rw [b64encode, b64quads]
    simp only [v0, v1, if_true, and_self]
    have : a.toNat / 4 * 4 + a.toNat % 4 * 16 / 16 = a.toNat := by omega
    rw [this, ofNat_toNat]
  | [a, b], h => by
    have ha : a.toNat < 256 := h a (by simp)
    have hb : b.toNat < 256 := h b (by simp)
    obtain ⟨v0, _⟩ := b64char_facts (a.toNat / 4) (by omega)
    obtain ⟨v1, _⟩ := b64char_facts (a.toNat % 4 * 16 + b.toNat / 16) (by omega)
    obtain ⟨v2, e2, _⟩ := b64char_facts (b.toNat % 16 * 4) (by omega)
    rw [b64encode, b64quads]
    simp only [v0, v1, v2, e2, if_true, if_false]
    have h1 : a.toNat / 4 * 4 + (a.toNat % 4 * 16 + b.toNat / 16) / 16 = a.toNat := by omega
    have h2 : (a.toNat % 4 * 16 + b.toNat / 16) % 16 * 16 + b.toNat % 16 * 4 / 4 = b.toNat := by omega
    rw [h1, h2, ofNat_toNat, ofNat_toNat]
  | a :: b :: c :: rest, h => by
    have ha : a.toNat < 256 := h a (by simp)
    have hb : b.toNat < 256 := h b (by simp)
    have hc : c.toNat < 256 := h c (by simp)
    have ih := b64_roundtrip rest (fun x hx => h x (by simp [hx]))
    obtain ⟨v0, _⟩ := b64char_facts (a.toNat / 4) (by omega)
    obtain ⟨v1, _⟩ := b64char_facts (a.toNat % 4 * 16 + b.toNat / 16) (by omega)
    obtain ⟨v2, e2, _⟩ := b64char_facts (b.toNat % 16 * 4 + c.toNat / 64) (by omega)
    obtain ⟨v3, e3, _⟩ := b64char_facts (c.toNat % 64) (by omega)
    rw [b64encode, b64quads_full _ _ _ _ _ _ _ _ _ v0 v1 v2 v3 e2 e3, ih]
    have h1 : a.toNat / 4 * 4 + (a.toNat % 4 * 16 + b.toNat / 16) / 16 = a.toNat := by omega
    have h2 : (a.toNat % 4 * 16 + b.toNat / 16) % 16 * 16 + (b.toNat % 16 * 4 + c.toNat / 64) / 4 = b.toNat := by omega
    have h3 : (b.toNat % 16 * 4 + c.toNat / 64) % 4 * 64 + c.toNat % 64 = c.toNat := by omega
    simp only [Option.map_some, h1, h2, h3, ofNat_toNat]

theorem b64encode_clean : ∀ (bs : Str), (∀ c ∈ bs, c.toNat < 256) →
    ∀ c ∈ b64encode bs, c ≠ '\r' ∧ c ≠ '\n'
  | [], _ => by simp [b64encode]
  | [a], h => by
    have ha : a.toNat < 256 := h a (by simp)
    obtain ⟨_, _, r0, n0⟩ := b64char_facts (a.toNat / 4) (by omega)
    obtain ⟨_, _, r1, n1⟩ := b64char_facts (a.toNat % 4 * 16) (by omega)
    intro c hc
    simp only [b64encode, List.mem_cons, List.not_mem_nil, or_false] at hc
    rcases hc with rfl | rfl | rfl | rfl
    · exact ⟨r0, n0⟩
    · exact ⟨r1, n1⟩
    · decide
    · decide
  | [a, b], h => by
    have ha : a.toNat < 256 := h a (by simp)
    have hb : b.toNat < 256 := h b (by simp)
    obtain ⟨_, _, r0, n0⟩ := b64char_facts (a.toNat / 4) (by omega)
    obtain ⟨_, _, r1, n1⟩ := b64char_facts (a.toNat % 4 * 16 + b.toNat / 16) (by omega)
    obtain ⟨_, _, r2, n2⟩ := b64char_facts (b.toNat % 16 * 4) (by omega)
    intro c hc
    simp only [b64encode, List.mem_cons, List.not_mem_nil, or_false] at hc
    rcases hc with rfl | rfl | rfl | rfl
    · exact ⟨r0, n0⟩
    · exact ⟨r1, n1⟩
    · exact ⟨r2, n2⟩
    · decide
  | a :: b :: c :: rest, h => by
    have ha : a.toNat < 256 := h a (by simp)
    have hb : b.toNat < 256 := h b (by simp)
    have hc : c.toNat < 256 := h c (by simp)
    have ih := b64encode_clean rest (fun x hx => h x (by simp [hx]))
    obtain ⟨_, _, r0, n0⟩ := b64char_facts (a.toNat / 4) (by omega)
    obtain ⟨_, _, r1, n1⟩ := b64char_facts (a.toNat % 4 * 16 + b.toNat / 16) (by omega)
    obtain ⟨_, _, r2, n2⟩ := b64char_facts (b.toNat % 16 * 4 + c.toNat / 64) (by omega)
    obtain ⟨_, _, r3, n3⟩ := b64char_facts (c.toNat % 64) (by omega)
    intro x hx
    simp only [b64encode, List.mem_cons] at hx
    rcases hx with rfl | rfl | rfl | rfl | hx
    · exact ⟨r0, n0⟩
    · exact ⟨r1, n1⟩
    · exact ⟨r2, n2⟩
    · exact ⟨r3, n3⟩
    · exact ih x hx

/-- **C13_b64_roundtrip** -/
theorem C13_b64_roundtrip (bs : Str) (h : ∀ c ∈ bs, c.toNat < 256) :
    b64decode (b64encode bs) = some bs := by
  unfold b64decode
  rw [List.filter_eq_self.mpr, b64_roundtrip bs h]
  intro c hc
  have := b64encode_clean bs h c hc
  simp [this.1, this.2]


theorem b64encode_ne_nil : ∀ (bs : Str), bs ≠ [] → b64encode bs ≠ []
  | [], h => absurd rfl h
  | [_], _ => by simp [b64encode]
  | [_, _], _ => by simp [b64encode]
  | _ :: _ :: _ :: _, _ => by simp [b64encode]

theorem eqFold_length {a b : Str} (h : eqFold a b = true) : a.length = b.length := by
  unfold eqFold at h
  have := congrArg List.length (eq_of_beq h)
  simpa using this

/-- **C13_basic_accepts_encoded** — completeness with the concrete codec: for every user name
    without a colon and every password (any bytes), `<basic in any casing> <std-base64(user:pass)>`
    reaches the handler whenever the validator accepts `(user, pass)`. -/
theorem C13_basic_accepts_encoded (V : Str → Str → Outcome) (sch u p : Str) (rest : List Str)
    (hfold : eqFold sch basicLit = true) (hb : ∀ c ∈ u ++ ':' :: p, c.toNat < 256)
    (hu : ':' ∉ u) (hV : V u p = .yes) :
    basicAuth V b64decode ((sch ++ ' ' :: b64encode (u ++ ':' :: p)) :: rest)
      = some ⟨true, 200, false, [(u, p)]⟩ :=
  C13_basic_complete V b64decode sch _ u p ' ' rest
    (by rw [eqFold_length hfold]; decide) hfold (b64encode_ne_nil _ (by simp))
    (C13_b64_roundtrip _ hb) hu hV

/-! ## non-vacuity: concrete instances meeting the hypotheses -/

/-- accept exactly joe / `pw:x` -/
def vJoe : Str → Str → Outcome := fun u p =>
  if u = "joe".toList ∧ p = "pw:x".toList then .yes else .no

-- "am9lOnB3Ong=" is base64("joe:pw:x"): split at the FIRST colon, scheme in odd casing
example : basicAuth vJoe b64decode ["bAsIc am9lOnB3Ong=".toList, "Basic Zm9vOmJhcg==".toList]
    = some ⟨true, 200, false, [("joe".toList, "pw:x".toList)]⟩ := by decide
-- hypotheses of C13_basic_sound are satisfiable, conclusion is the expected witness
example : ∃ o, basicAuth vJoe b64decode ["bAsIc am9lOnB3Ong=".toList] = some o ∧ o.ran = true :=
  ⟨⟨true, 200, false, [("joe".toList, "pw:x".toList)]⟩, by decide, rfl⟩
-- CR/LF inside the text is skipped, as Go does
example : b64decode "am9l\nOnB3\r\nOng=".toList = some "joe:pw:x".toList := by decide
-- rejected: second header value is never looked at; bad base64 is 400 without a validator call
example : basicAuth vJoe b64decode ["Basic Zm9vOmJhcg==".toList, "Basic am9lOnB3Ong=".toList]
    = some ⟨false, 401, true, [("foo".toList, "bar".toList)]⟩ := by decide
example : basicAuth vJoe b64decode ["Basic am9lOnB3Ong".toList] = some ⟨false, 400, false, []⟩ := by decide
-- hypotheses of C13_basic_accepts_encoded
example : eqFold "BASIC".toList basicLit = true ∧ ':' ∉ "joe".toList ∧ vJoe "joe".toList "pw:x".toList = .yes ∧
    b64encode "joe:pw:x".toList = "am9lOnB3Ong=".toList := by decide

/-- accept exactly the key `tok` -/
def vTok : Str → Outcome := fun k => if k = "tok".toList then .yes else if k = "boom".toList then .err (.http 403) else .no

def cfgDemo : KCfg :=
  ⟨(parseLookups "header:Authorization,query:key".toList "".toList).getD [], .absent, false⟩

example : cfgDemo.sources = [⟨.header, "Authorization".toList, "Bearer ".toList⟩, ⟨.query, "key".toList, []⟩] := by
  decide
-- the first source yields a refused key and a failing validator, the second source the accepted one
example : keyAuth vTok cfgDemo
    [[("Authorization".toList, "bearer nope".toList), ("Authorization".toList, "BEARER boom".toList)],
     [("key".toList, "tok".toList)]]
    = some ⟨true, 200, 0, ["nope".toList, "boom".toList, "tok".toList]⟩ := by decide
-- `Bearer` without the space / wrong scheme: nothing extracted, 400, validator not called
example : keyAuth vTok cfgDemo [[("Authorization".toList, "Bearertok".toList), ("Authorization".toList, "Basic tok".toList)], []]
    = some ⟨false, 400, 0, []⟩ := by decide
-- the validator's own HTTP error is the last error: its code is the status
example : keyAuth vTok cfgDemo [[("Authorization".toList, "Bearer boom".toList)], []]
    = some ⟨false, 403, 0, ["boom".toList]⟩ := by decide
-- the documented opt-in
example : keyAuth vTok ⟨cfgDemo.sources, .retNil, true⟩ [[], []] = some ⟨true, 200, 1, []⟩ := by decide
-- the configuration-only panic of C13_key_panic_iff
example : parseLookups "headers:X-Api-Key".toList [] = some [] := by decide
example : keyAuth vTok ⟨[], .absent, false⟩ [] = none := by decide


/-! ## round 4: the whole closures (Skipper first), the convenience constructors, `CreateExtractors` -/

/-- **C13_basic_mw_sound** — through the complete BasicAuth middleware the handler runs only when
    the configured Skipper took the request out of the middleware, or the validator said yes to the
    literally decoded credentials (conclusion of `C13_basic_sound`). -/
theorem C13_basic_mw_sound (skip : Bool) (V : Str → Str → Outcome) (dec : Str → Option Str)
    (hdrs : List Str) (o : BObs) (h : basicAuthMW skip V dec hdrs = some o) (hr : o.ran = true) :
    skip = true ∨
    ∃ auth u p, hdrs.head? = some auth ∧ Guard auth ∧ dec (auth.drop 6) = some (u ++ ':' :: p) ∧
      ':' ∉ u ∧ V u p = .yes ∧ o.calls = [(u, p)] ∧ o.status = 200 := by
  cases skip with
  | true => exact Or.inl rfl
  | false =>
    right
    have h' : basicAuth V dec hdrs = some o := by simpa [basicAuthMW] using h
    exact C13_basic_sound V dec hdrs o h' hr

/-- **C13_basic_mw_skip** — a skipped request reaches the handler and the validator is not asked;
    an unskipped one is exactly `basicAuth` (so every earlier theorem applies), and the closure never
    panics. -/
theorem C13_basic_mw_skip (skip : Bool) (V : Str → Str → Outcome) (dec : Str → Option Str) (hdrs : List Str) :
    (skip = true → basicAuthMW skip V dec hdrs = some ⟨true, 200, false, []⟩) ∧
    (skip = false → basicAuthMW skip V dec hdrs = basicAuth V dec hdrs) ∧
    basicAuthMW skip V dec hdrs ≠ none := by
  refine ⟨fun hs => by simp [basicAuthMW, hs], fun hs => by simp [basicAuthMW, hs], ?_⟩
  cases skip with
  | true => simp [basicAuthMW]
  | false => simpa [basicAuthMW] using C13_basic_no_panic V dec hdrs

/-- **C13_basic_mw_calls_literal** — also through the complete closure every validator call is
    with the decoded text of the first header value split at its first colon (nothing trimmed,
    folded or re-encoded in between). -/
theorem C13_basic_mw_calls_literal (skip : Bool) (V : Str → Str → Outcome) (dec : Str → Option Str)
    (hdrs : List Str) (o : BObs) (h : basicAuthMW skip V dec hdrs = some o) :
    ∀ c ∈ o.calls, ∃ auth, hdrs.head? = some auth ∧ dec (auth.drop 6) = some (c.1 ++ ':' :: c.2) ∧ ':' ∉ c.1 := by
  cases skip with
  | true =>
    have : o = ⟨true, 200, false, []⟩ := by simpa [basicAuthMW] using h.symm
    subst this; intro c hc; simp at hc
  | false =>
    have h' : basicAuth V dec hdrs = some o := by simpa [basicAuthMW] using h
    intro c hc
    obtain ⟨o', ho', hcase⟩ := C13_basic_decision V dec hdrs
    rw [h'] at ho'; cases ho'
    rcases hcase with ⟨_, rfl⟩ | ⟨_, _, rfl⟩ | ⟨_, _, _, _, rfl⟩ | ⟨hg, u, p, hd, hu, hv⟩
    · simp [unauthorized] at hc
    · simp at hc
    · simp [unauthorized] at hc
    · have hcalls : o.calls = [(u, p)] := by
        rcases hv with ⟨_, rfl⟩ | ⟨_, rfl⟩ | ⟨e, _, rfl⟩ <;> simp [unauthorized]
      rw [hcalls] at hc
      have : c = (u, p) := by simpa using hc
      subst this
      cases hdrs with
      | nil => simp [Guard] at hg
      | cons a r => exact ⟨a, rfl, hd, hu⟩

/-- **C13_www_value** — the challenge of a 401 names the default realm as the bare word
    `Restricted` exactly when the configured realm is empty or that word (so for `BasicAuth(fn)`);
    any other realm appears only in its quoted form. -/
theorem C13_www_value (realm quoted : Str) :
    ((realm = [] ∨ realm = defaultRealm) → wwwValue realm quoted = "basic realm=Restricted".toList) ∧
    ((realm ≠ [] ∧ realm ≠ defaultRealm) → wwwValue realm quoted = "basic realm=".toList ++ quoted) := by
  constructor
  · intro h
    have e : "basic realm=".toList ++ defaultRealm = "basic realm=Restricted".toList := by decide
    unfold wwwValue; rw [if_pos h]; exact e
  · intro h
    have : ¬ (realm = [] ∨ realm = defaultRealm) := by
      intro h'; rcases h' with h' | h'
      · exact h.1 h'
      · exact h.2 h'
    unfold wwwValue; rw [if_neg this]

/-- **C13_key_mw_sound** — through the complete KeyAuth middleware the handler runs only when the
    Skipper took the request out, the validator said yes to a key literally present at a configured
    location, or the documented `ContinueOnIgnoredError` opt-in applies. -/
theorem C13_key_mw_sound (skip : Bool) (V : Str → Outcome) (cfg : KCfg) (data : List (List (Str × Str)))
    (o : KObs) (h : keyAuthMW skip V cfg data = some o) (hr : o.ran = true) :
    skip = true ∨
    (∃ k, o.calls.getLast? = some k ∧ V k = .yes ∧ Present cfg data k) ∨
    (cfg.cont = true ∧ cfg.eh = .retNil ∧ ∀ k ∈ o.calls, V k ≠ .yes) := by
  cases skip with
  | true => exact Or.inl rfl
  | false =>
    right
    have h' : keyAuth V cfg data = some o := by simpa [keyAuthMW] using h
    exact C13_key_sound V cfg data o h' hr

/-- **C13_key_mw_skip** — a skipped request reaches the handler with no extractor and no validator
    involved (in particular the configuration-only panic of `C13_key_panic_iff` cannot happen for
    it); an unskipped one is exactly `keyAuth`. -/
theorem C13_key_mw_skip (skip : Bool) (V : Str → Outcome) (cfg : KCfg) (data : List (List (Str × Str))) :
    (skip = true → keyAuthMW skip V cfg data = some ⟨true, 200, 0, []⟩) ∧
    (skip = false → keyAuthMW skip V cfg data = keyAuth V cfg data) := by
  exact ⟨fun hs => by simp [keyAuthMW, hs], fun hs => by simp [keyAuthMW, hs]⟩

/-- **C13_key_ctor_default** — `KeyAuth(fn)` looks at exactly one place, the `Authorization` header
    with the cut-prefix `Bearer ` (scheme plus the appended space), has no ErrorHandler and no
    opt-in; `KeyAuthWithConfig` with empty `KeyLookup` / `AuthScheme` builds the same extractor. -/
theorem C13_key_ctor_default :
    keyCtorCfg = some ⟨[⟨.header, authorizationLit, "Bearer ".toList⟩], .absent, false⟩ ∧
    parseLookups [] [] = parseLookups defaultLookup defaultScheme := by
  constructor <;> decide

/-- **C13_key_ctor_sound** — hence behind `KeyAuth(fn)` the handler runs only for a request whose
    last validated key was approved and is the text after a case-insensitively matched `Bearer `
    prefix of one of its `Authorization` values (no opt-in exists for this constructor). -/
theorem C13_key_ctor_sound (V : Str → Outcome) (cfg : KCfg) (hc : keyCtorCfg = some cfg)
    (vals : List (Str × Str)) (o : KObs) (h : keyAuth V cfg [vals] = some o) (hr : o.ran = true) :
    ∃ k nv, o.calls.getLast? = some k ∧ V k = .yes ∧ nv ∈ vals ∧ hdrKey "Bearer ".toList nv.2 = some k := by
  have hcfg : cfg = ⟨[⟨.header, authorizationLit, "Bearer ".toList⟩], .absent, false⟩ := by
    have := C13_key_ctor_default.1
    rw [hc] at this
    exact Option.some.inj this
  subst hcfg
  rcases C13_key_sound V _ [vals] o h hr with ⟨k, hl, hv, sd, hsd, nv, hnv, hk⟩ | ⟨hcont, _, _⟩
  · have : sd = (⟨.header, authorizationLit, "Bearer ".toList⟩, vals) := by simpa using hsd
    subst this
    exact ⟨k, nv, hl, hv, hnv, by simpa [keyOf] using hk⟩
  · simp at hcont

/-- **C13_createExtractors_empty** — the exported `CreateExtractors("")` builds no extractor and
    reports no error (extractor.go:51-53), whereas the KeyAuth constructors never reach that branch:
    an empty `KeyLookup` is replaced by the default before. -/
theorem C13_createExtractors_empty (scheme : Str) :
    createExtractors [] scheme = some [] ∧
    (∀ lookups, parseLookups lookups scheme =
      createExtractors (if lookups = [] then defaultLookup else lookups)
        (if scheme = [] then defaultScheme else scheme)) ∧
    (∀ lookups, (if lookups = [] then defaultLookup else lookups) ≠ []) := by
  refine ⟨by simp [createExtractors], fun _ => rfl, fun lookups => ?_⟩
  by_cases hl : lookups = []
  · simp only [hl, if_true]; decide
  · simp only [hl, if_false]; exact hl

/-- **C13_header_missing_only_without_values** — the statement `return nil,
    errHeaderExtractorValueMissing` behind the loop of `valuesFromHeader` (extractor.go:128) is dead:
    without a cut-prefix every value is returned, so the header extractor reports "missing" only
    when the header has no value at all. -/
theorem C13_header_missing_only_without_values (name : Str) (d : List (Str × Str))
    (h : extract ⟨.header, name, []⟩ d = .fail .headerMissing) : d = [] := by
  cases d with
  | nil => rfl
  | cons a r =>
    exfalso
    rcases extract_spec ⟨.header, name, []⟩ (a :: r) with ⟨e, _, hk⟩ | ⟨hk, _⟩
    · have : keysOf ⟨.header, name, []⟩ (a :: r) ≠ [] := by
        simp [keysOf, limLoop, hdrKey]
        split <;> simp
      exact this hk
    · rw [hk] at h; cases h

/-- **C13_param_limit** — `valuesFromParam` stops after a matching parameter at index ≥ 19: on a
    route with 22 parameters of which indices 0, 5, 18-21 carry the looked-up name, the values at
    20 and 21 are never offered to the validator (a key there is outside "the first 20 values"). -/
example :
    let names : List Str := (List.range 22).map fun i => if i ∈ [0, 5, 18, 19, 20, 21] then "key".toList else "o".toList
    let d := names.zip ((List.range 22).map fun i => [Char.ofNat (97 + i)])
    extract ⟨.param, "key".toList, []⟩ d = .keys [['a'], ['f'], ['s'], ['t']] := by decide

-- non-vacuity of the round-4 statements
example : basicAuthMW true vJoe b64decode [] = some ⟨true, 200, false, []⟩ ∧
    basicAuthMW false vJoe b64decode [] = some (unauthorized []) := by decide
-- the trailing line feed of `echo joe:pw:x | base64` belongs to the password: refused, literally
example : basicAuthMW false vJoe b64decode ["Basic am9lOnB3OngK".toList]
    = some (unauthorized [("joe".toList, "pw:x\n".toList)]) := by decide
example : wwwValue "My \"Realm\"".toList "\"My \\\"Realm\\\"\"".toList = "basic realm=\"My \\\"Realm\\\"\"".toList ∧
    wwwValue [] "\"\"".toList = "basic realm=Restricted".toList := by decide
example : ∃ cfg, keyCtorCfg = some cfg ∧
    keyAuth vTok cfg [[("Authorization".toList, "bearer tok".toList)]] = some ⟨true, 200, 0, ["tok".toList]⟩ ∧
    keyAuth vTok cfg [[("Authorization".toList, "Token tok".toList)]] = some ⟨false, 400, 0, []⟩ :=
  ⟨_, rfl, by decide, by decide⟩
example : keyAuthMW true vTok ⟨[], .absent, false⟩ [] = some ⟨true, 200, 0, []⟩ ∧
    keyAuthMW false vTok ⟨[], .absent, false⟩ [] = none := by decide
example : createExtractors "header:Authorization".toList [] = some [⟨.header, authorizationLit, []⟩] := by decide


/-! ## round 5: several instances on the path of one request (`authStack`) -/

/-- **C13_stack_every_instance** — behind any stack every instance must pass the request on its own:
    the handler ran ⇒ each instance, evaluated on the request as it was sent, does not panic and
    calls `next`. -/
theorem C13_stack_every_instance (dec : Str → Option Str) : ∀ (ls : List ALayer) (o : SObs),
    authStack dec ls = some o → o.ran = true → ∀ l ∈ ls, ∃ ol, l.run dec = some ol ∧ ol.ran = true
  | [], _, _, _ => by simp
  | l :: rest, o, h, hr => by
    unfold authStack at h
    cases hl : l.run dec with
    | none => rw [hl] at h; cases h
    | some ol =>
      rw [hl] at h
      simp only [] at h
      cases hran : ol.ran with
      | false =>
        simp only [hran, Bool.false_eq_true, if_false, Option.some.injEq] at h
        rw [← h] at hr; cases hr
      | true =>
        simp only [hran, if_true] at h
        cases hrest : authStack dec rest with
        | none => rw [hrest] at h; cases h
        | some r =>
          rw [hrest] at h
          simp only [Option.some.injEq] at h
          have hrr : r.ran = true := by rw [← h] at hr; exact hr
          have ih := C13_stack_every_instance dec rest r hrest hrr
          intro l' hl'
          rcases List.mem_cons.mp hl' with rfl | hm
          · exact ⟨ol, hl, hran⟩
          · exact ih l' hm

/-- **C13_stack_complete** — and conversely: when every instance on its own passes the request as it
    was sent (e.g. each validator accepts the well-formed credentials of the request), the handler
    runs — no instance can take away what a later one is going to look at.  (The statement a
    middleware that consumes the `Authorization` header after its own success breaks.) -/
theorem C13_stack_complete (dec : Str → Option Str) : ∀ (ls : List ALayer),
    (∀ l ∈ ls, ∃ ol, l.run dec = some ol ∧ ol.ran = true) →
    ∃ o, authStack dec ls = some o ∧ o.ran = true ∧ o.status = 200 ∧ o.layers.length = ls.length
  | [], _ => ⟨_, rfl, rfl, rfl, rfl⟩
  | l :: rest, h => by
    obtain ⟨ol, hl, hran⟩ := h l (by simp)
    obtain ⟨r, hr, hrr, hst, hlen⟩ := C13_stack_complete dec rest (fun l' hl' => h l' (by simp [hl']))
    refine ⟨{ r with layers := (ol.ehClass, ol.calls) :: r.layers }, ?_, hrr, hst, by simp [hlen]⟩
    unfold authStack
    simp [hl, hran, hr]

/-- the first instance that does not pass the request on answers it: its status and challenge are the
    response, later instances are not consulted (their validators are not called) -/
theorem C13_stack_stops_at_first (dec : Str → Option Str) (pre : List ALayer) (l : ALayer) (post : List ALayer)
    (hpre : ∀ x ∈ pre, ∃ ox, x.run dec = some ox ∧ ox.ran = true)
    (ol : LObs) (hl : l.run dec = some ol) (hran : ol.ran = false) :
    ∃ o, authStack dec (pre ++ l :: post) = some o ∧ o.ran = false ∧ o.status = ol.status ∧ o.www = ol.www ∧
      o.layers.drop (pre.length + 1) = post.map (fun _ => (0, [])) := by
  induction pre with
  | nil =>
    refine ⟨⟨false, ol.status, ol.www, (ol.ehClass, ol.calls) :: post.map fun _ => (0, [])⟩, ?_, rfl, rfl, rfl, by simp⟩
    simp [authStack, hl, hran]
  | cons x pre ih =>
    obtain ⟨ox, hx, hxr⟩ := hpre x (by simp)
    obtain ⟨o, ho, h1, h2, h3, h4⟩ := ih (fun y hy => hpre y (by simp [hy]))
    refine ⟨{ o with layers := (ox.ehClass, ox.calls) :: o.layers }, ?_, h1, h2, h3, ?_⟩
    · simp only [List.cons_append]
      unfold authStack
      simp [hx, hxr, ho]
    · simpa using h4

/-- **C13_stack_basic_layer** — the handler ran behind a stack ⇒ for every BasicAuth instance in it:
    its Skipper stood it aside, or ITS validator said yes to the literally decoded credentials of the
    request's first Authorization value. -/
theorem C13_stack_basic_layer (dec : Str → Option Str) (ls : List ALayer) (o : SObs)
    (h : authStack dec ls = some o) (hr : o.ran = true)
    (skip : Bool) (realm quoted : Str) (V : Str → Str → Outcome) (hdrs : List Str)
    (hl : ALayer.basic skip realm quoted V hdrs ∈ ls) :
    skip = true ∨ ∃ auth u p, hdrs.head? = some auth ∧ Guard auth ∧
      dec (auth.drop 6) = some (u ++ ':' :: p) ∧ ':' ∉ u ∧ V u p = .yes := by
  obtain ⟨ol, hrun, hran⟩ := C13_stack_every_instance dec ls o h hr _ hl
  simp only [ALayer.run] at hrun
  cases hb : basicAuthMW skip V dec hdrs with
  | none => rw [hb] at hrun; cases hrun
  | some bo =>
    rw [hb] at hrun
    simp only [Option.some.injEq] at hrun
    have hbr : bo.ran = true := by rw [← hrun] at hran; exact hran
    rcases C13_basic_mw_sound skip V dec hdrs bo hb hbr with hs | ⟨auth, u, p, h1, h2, h3, h4, h5, _⟩
    · exact Or.inl hs
    · exact Or.inr ⟨auth, u, p, h1, h2, h3, h4, h5⟩

/-- **C13_stack_key_layer** — and for every KeyAuth instance: skipped, or ITS validator approved a
    key literally present at one of ITS lookup locations, or its documented opt-in applies. -/
theorem C13_stack_key_layer (dec : Str → Option Str) (ls : List ALayer) (o : SObs)
    (h : authStack dec ls = some o) (hr : o.ran = true)
    (skip : Bool) (V : Str → Outcome) (cfg : KCfg) (data : List (List (Str × Str)))
    (hl : ALayer.key skip V cfg data ∈ ls) :
    skip = true ∨ (∃ k, V k = .yes ∧ Present cfg data k) ∨ (cfg.cont = true ∧ cfg.eh = .retNil) := by
  obtain ⟨ol, hrun, hran⟩ := C13_stack_every_instance dec ls o h hr _ hl
  simp only [ALayer.run] at hrun
  cases hk : keyAuthMW skip V cfg data with
  | none => rw [hk] at hrun; cases hrun
  | some ko =>
    rw [hk] at hrun
    simp only [Option.some.injEq] at hrun
    have hkr : ko.ran = true := by rw [← hrun] at hran; exact hran
    rcases C13_key_mw_sound skip V cfg data ko hk hkr with hs | ⟨k, _, hv, hp⟩ | ⟨hc, he, _⟩
    · exact Or.inl hs
    · exact Or.inr (Or.inl ⟨k, hv, hp⟩)
    · exact Or.inr (Or.inr ⟨hc, he⟩)

/-- **C13_stack_basic_accepting** — any number of BasicAuth instances (any realms, any casing of the
    scheme is the request's) whose validators all accept the request's well-formed credentials let
    the request through to the handler, each validator asked exactly once about exactly `(u, p)`. -/
theorem C13_stack_basic_accepting (dec : Str → Option Str) (sch enc u p : Str) (sep : Char) (rest : List Str)
    (hsch : sch.length = 5) (hfold : eqFold sch basicLit = true) (henc : enc ≠ [])
    (hdec : dec enc = some (u ++ ':' :: p)) (hu : ':' ∉ u)
    (ls : List ALayer)
    (hall : ∀ l ∈ ls, ∃ realm quoted V, l = .basic false realm quoted V ((sch ++ sep :: enc) :: rest) ∧ V u p = .yes) :
    ∃ o, authStack dec ls = some o ∧ o.ran = true ∧ o.status = 200 ∧ ∀ x ∈ o.layers, x = (0, [(u, p)]) := by
  induction ls with
  | nil => exact ⟨_, rfl, rfl, rfl, by simp⟩
  | cons l ls ih =>
    obtain ⟨realm, quoted, V, rfl, hV⟩ := hall l (by simp)
    obtain ⟨r, hr, hrr, hst, hlay⟩ := ih (fun l' hl' => hall l' (by simp [hl']))
    have hb := C13_basic_complete V dec sch enc u p sep rest hsch hfold henc hdec hu hV
    refine ⟨{ r with layers := (0, [(u, p)]) :: r.layers }, ?_, hrr, hst, ?_⟩
    · unfold authStack
      simp [ALayer.run, basicAuthMW, hb, hr]
    · intro x hx
      rcases List.mem_cons.mp hx with rfl | hm
      · rfl
      · exact hlay x hm

-- non-vacuity: BasicAuth(outer) on the root, BasicAuth(inner) on the group, KeyAuth on the route reading the
-- same header; every instance is asked about the request as sent
def vInner : Str → Str → Outcome := fun u p => if u = "joe".toList ∧ p = "pw:x".toList then .yes else .err (.http 403)
def vB64 : Str → Outcome := fun k => if k = "am9lOnB3Ong=".toList then .yes else .no
def keyOnBasic : KCfg := ⟨[⟨.header, authorizationLit, "Basic ".toList⟩], .absent, false⟩
example : authStack b64decode
    [.basic false [] [] vJoe ["bAsIc am9lOnB3Ong=".toList], .basic false "inner".toList "\"inner\"".toList vInner ["bAsIc am9lOnB3Ong=".toList],
     .key false vB64 keyOnBasic [[("Authorization".toList, "bAsIc am9lOnB3Ong=".toList)]]]
    = some ⟨true, 200, [], [(0, [("joe".toList, "pw:x".toList)]), (0, [("joe".toList, "pw:x".toList)]), (0, [("am9lOnB3Ong=".toList, [])])]⟩ := by
  decide
-- the inner instance refuses what the outer one accepts: its challenge and status are the answer, the third is not asked
example : authStack b64decode
    [.basic false [] [] vJoe ["Basic Zm9vOmJhcg==".toList, "Basic am9lOnB3Ong=".toList].reverse,
     .basic false "inner".toList "\"inner\"".toList (fun _ _ => .no) ["Basic am9lOnB3Ong=".toList],
     .key false vB64 keyOnBasic [[("Authorization".toList, "Basic am9lOnB3Ong=".toList)]]]
    = some ⟨false, 401, "basic realm=\"inner\"".toList, [(0, [("joe".toList, "pw:x".toList)]), (0, [("joe".toList, "pw:x".toList)]), (0, [])]⟩ := by
  decide


/-! ## round 6: the whole request head — nothing but `Authorization` counts -/

/-- a header line under another name does not change what is read under `name` -/
theorem HReq.values_cons_ne (m : Str) (n v name : Str) (hs : List (Str × Str)) (h : n ≠ name) :
    (⟨m, (n, v) :: hs⟩ : HReq).values name = (⟨m, hs⟩ : HReq).values name := by
  simp [HReq.values, List.filter, h]

/-- the method is not consulted -/
theorem HReq.values_method (m m' : Str) (hs : List (Str × Str)) (name : Str) :
    (⟨m, hs⟩ : HReq).values name = (⟨m', hs⟩ : HReq).values name := rfl

/-- **C13_basic_req_only_authorization** — two requests with the same `Authorization` values are
    treated alike, whatever their methods and their other headers (OPTIONS with
    `Access-Control-Request-Method`, `Upgrade: websocket`, `X-Forwarded-User`, …). -/
theorem C13_basic_req_only_authorization (skip : Bool) (V : Str → Str → Outcome) (dec : Str → Option Str)
    (r r' : HReq) (h : r.values authorizationLit = r'.values authorizationLit) :
    basicAuthReq skip V dec r = basicAuthReq skip V dec r' := by
  simp [basicAuthReq, h]

/-- **C13_basic_req_sound** — for EVERY request head: the handler ran ⇒ the Skipper stood the
    middleware aside, or the validator said yes to the literally decoded credentials of the first
    `Authorization` value, and was asked exactly that. -/
theorem C13_basic_req_sound (skip : Bool) (V : Str → Str → Outcome) (dec : Str → Option Str) (r : HReq)
    (o : BObs) (h : basicAuthReq skip V dec r = some o) (hr : o.ran = true) :
    skip = true ∨ ∃ auth u p, (r.values authorizationLit).head? = some auth ∧ Guard auth ∧
      dec (auth.drop 6) = some (u ++ ':' :: p) ∧ ':' ∉ u ∧ V u p = .yes ∧ o.calls = [(u, p)] := by
  rcases C13_basic_mw_sound skip V dec _ o h hr with hs | ⟨auth, u, p, h1, h2, h3, h4, h5, h6, _⟩
  · exact Or.inl hs
  · exact Or.inr ⟨auth, u, p, h1, h2, h3, h4, h5, h6⟩

/-- **C13_basic_req_no_bypass** — a request without an `Authorization` value is answered 401 with
    the challenge and does not reach the handler, unless the configured Skipper says so: no method
    and no other header opens a way past the validator. -/
theorem C13_basic_req_no_bypass (V : Str → Str → Outcome) (dec : Str → Option Str) (r : HReq)
    (h : r.values authorizationLit = []) : basicAuthReq false V dec r = some (unauthorized []) := by
  simp [basicAuthReq, basicAuthMW, h, basicAuth, basicLit]

-- a complete CORS preflight with credentials the validator refuses, and one without credentials
example : basicAuthReq false vJoe b64decode ⟨"OPTIONS".toList,
      [("Access-Control-Request-Method".toList, "GET".toList), ("Authorization".toList, "Basic Zm9vOmJhcg==".toList),
       ("Origin".toList, "https://app.example.com".toList)]⟩
    = some (unauthorized [("foo".toList, "bar".toList)]) := by decide
example : basicAuthReq false vJoe b64decode ⟨"OPTIONS".toList,
      [("Access-Control-Request-Method".toList, "GET".toList), ("Upgrade".toList, "websocket".toList)]⟩
    = some (unauthorized []) := by decide


/-! ## round 7: the third part of a header lookup is the cut-prefix, also when it is empty -/

theorem splitOn_noSep (sep : Char) : ∀ a : Str, sep ∉ a → splitOn sep a = [a]
  | [], _ => rfl
  | c :: r, h => by
    simp only [List.mem_cons, not_or] at h
    have hc : ¬ c = sep := fun e => h.1 e.symm
    simp [splitOn, hc, splitOn_noSep sep r h.2]

theorem splitOn_append_sep (sep : Char) : ∀ (a b : Str), sep ∉ a → splitOn sep (a ++ sep :: b) = a :: splitOn sep b
  | [], b, _ => by simp [splitOn]
  | c :: r, b, h => by
    simp only [List.mem_cons, not_or] at h
    have hc : ¬ c = sep := fun e => h.1 e.symm
    simp [splitOn, hc, splitOn_append_sep sep r b h.2]

/-- **C13_header_cut_prefix_literal** — `header:<name>:<cut-prefix>`: the third part IS the
    cut-prefix, for every name and every AuthScheme — also when it is EMPTY (`header:Authorization:`:
    nothing is cut, the AuthScheme's back-compat `Bearer ` is not imposed). -/
theorem C13_header_cut_prefix_literal (scheme n p : Str) (hn : ':' ∉ n) (hp : ':' ∉ p) :
    parseSource scheme ("header".toList ++ ':' :: (n ++ ':' :: p)) = some (some ⟨.header, n, p⟩) := by
  have h1 : splitOn ':' ("header".toList ++ ':' :: (n ++ ':' :: p)) = ["header".toList, n, p] := by
    rw [splitOn_append_sep ':' "header".toList _ (by decide), splitOn_append_sep ':' n p hn, splitOn_noSep ':' p hp]
  unfold parseSource
  rw [h1]
  have e1 : ¬ ("header".toList = "query".toList) := by decide
  have e2 : ¬ ("header".toList = "param".toList) := by decide
  have e3 : ¬ ("header".toList = "cookie".toList) := by decide
  have e4 : ¬ ("header".toList = "form".toList) := by decide
  simp only [e1, e2, e3, e4, if_false, if_true]

/-- without a third part the AuthScheme (plus a blank) is the cut-prefix of `Authorization`, and
    only of `Authorization` -/
theorem C13_header_default_prefix (scheme n : Str) (hn : ':' ∉ n) :
    parseSource scheme ("header".toList ++ ':' :: n) = some (some ⟨.header, n,
      if scheme ≠ [] ∧ n = authorizationLit then (if hasSuffixSpace scheme then scheme else scheme ++ [' ']) else []⟩) := by
  have h1 : splitOn ':' ("header".toList ++ ':' :: n) = ["header".toList, n] := by
    rw [splitOn_append_sep ':' "header".toList _ (by decide), splitOn_noSep ':' n hn]
  unfold parseSource
  rw [h1]
  have e1 : ¬ ("header".toList = "query".toList) := by decide
  have e2 : ¬ ("header".toList = "param".toList) := by decide
  have e3 : ¬ ("header".toList = "cookie".toList) := by decide
  have e4 : ¬ ("header".toList = "form".toList) := by decide
  simp only [e1, e2, e3, e4, if_false, if_true]
  split <;> rfl

/-- with an empty cut-prefix every value of the header is a key as it stands -/
theorem C13_empty_prefix_whole_value (n : Str) (nv : Str × Str) :
    keyOf ⟨.header, n, []⟩ nv = some nv.2 := by
  simp [keyOf, hdrKey]

/-! ## round 7: a response that was already started when the middleware is entered -/

/-- **C13_commit_same_decision** — an earlier middleware having started the response changes
    nothing about who reaches the handler and what the validator is asked; only the status on the
    wire stays the one already written (and a challenge set afterwards is not sent). -/
theorem C13_commit_same_decision (committed : Option Nat) :
    (∀ o : BObs, (commitB committed o).ran = o.ran ∧ (commitB committed o).calls = o.calls) ∧
    (∀ o : KObs, (commitK committed o).ran = o.ran ∧ (commitK committed o).calls = o.calls ∧
      (commitK committed o).ehClass = o.ehClass) ∧
    (∀ o : SObs, (commitS committed o).ran = o.ran ∧ (commitS committed o).layers = o.layers) := by
  cases committed <;> simp [commitB, commitK, commitS]

/-- hence the soundness statement survives: behind BasicAuth with a response already started the
    handler still runs only after a yes to the literally decoded credentials -/
theorem C13_commit_basic_sound (committed : Option Nat) (skip : Bool) (V : Str → Str → Outcome)
    (dec : Str → Option Str) (r : HReq) (o : BObs) (h : basicAuthReq skip V dec r = some o)
    (hr : (commitB committed o).ran = true) :
    skip = true ∨ ∃ auth u p, (r.values authorizationLit).head? = some auth ∧ Guard auth ∧
      dec (auth.drop 6) = some (u ++ ':' :: p) ∧ ':' ∉ u ∧ V u p = .yes ∧ (commitB committed o).calls = [(u, p)] := by
  obtain ⟨h1, _, _⟩ := C13_commit_same_decision committed
  rw [(h1 o).1] at hr
  rw [(h1 o).2]
  exact C13_basic_req_sound skip V dec r o h hr

-- `header:Authorization:` with the default scheme: the raw key is the key; `Bearer abc` stays `Bearer abc`
example : parseLookups "header:Authorization:".toList [] = some [⟨.header, authorizationLit, []⟩] ∧
    parseLookups "header:Authorization".toList [] = some [⟨.header, authorizationLit, "Bearer ".toList⟩] ∧
    parseLookups "header:Authorization::x".toList "Token".toList = some [⟨.header, authorizationLit, []⟩] := by decide
example : keyAuth (fun k => if k = "raw-api-key".toList then .yes else .no) ⟨[⟨.header, authorizationLit, []⟩], .absent, false⟩
      [[("Authorization".toList, "raw-api-key".toList)]] = some ⟨true, 200, 0, ["raw-api-key".toList]⟩ ∧
    keyAuth (fun k => if k = "abc".toList then .yes else .no) ⟨[⟨.header, authorizationLit, []⟩], .absent, false⟩
      [[("Authorization".toList, "Bearer abc".toList)]] = some ⟨false, 401, 0, ["Bearer abc".toList]⟩ := by decide
example : commitB (some 202) (unauthorized [("u".toList, "p".toList)]) = ⟨false, 202, false, [("u".toList, "p".toList)]⟩ := by decide

/-! ## round 8: keys that look encoded

No extractor decodes anything: whatever bytes net/http hands over at a lookup location — `%41`, `+`, `%zz`, base64,
character references — are the key.  For a cookie, query, form or param source the key is the WHOLE value; for a header
source the value behind the cut-prefix.  (Query and form values arrive decoded once by net/http; that decoding is the
transport's and happens before the extractor — the model's input is what net/http found.) -/

/-- **C13_key_verbatim** — what an extractor yields for one located (name, value) pair is the value itself, byte for
    byte, for every source kind except `header`; for a header source it is a suffix of the value. -/
theorem C13_key_verbatim (s : Src) (nv : Str × Str) (k : Str) (h : keyOf s nv = some k) :
    (s.kind ≠ .header → k = nv.2 ∧ ((s.kind = .cookie ∨ s.kind = .param) → nv.1 = s.name)) ∧
    (s.kind = .header → ∃ cut, nv.2 = cut ++ k ∧ cut.length = s.pre.length) := by
  unfold keyOf at h
  cases hk : s.kind <;> rw [hk] at h <;> simp only at h
  · -- header
    refine ⟨fun hne => absurd rfl hne, fun _ => ?_⟩
    unfold hdrKey at h
    by_cases h0 : s.pre.length = 0
    · simp only [h0, if_true] at h
      exact ⟨[], by simpa using Option.some.inj h, by simp [h0]⟩
    · simp only [h0, if_false] at h
      by_cases h1 : nv.2.length > s.pre.length ∧ eqFold (nv.2.take s.pre.length) s.pre = true
      · simp only [h1, and_self, if_true] at h
        refine ⟨nv.2.take s.pre.length, ?_, ?_⟩
        · rw [← Option.some.inj h]; simp
        · simp; omega
      · simp only [h1, if_false] at h; cases h
  · exact ⟨fun _ => ⟨(Option.some.inj h).symm, fun hc => by rcases hc with hc | hc <;> cases hc⟩, fun hc => by cases hc⟩
  · exact ⟨fun _ => ⟨(Option.some.inj h).symm, fun hc => by rcases hc with hc | hc <;> cases hc⟩, fun hc => by cases hc⟩
  · refine ⟨fun _ => ?_, fun hc => by cases hc⟩
    unfold cookieKey at h
    by_cases hn : s.name = nv.1
    · simp only [hn, if_true] at h; exact ⟨(Option.some.inj h).symm, fun _ => hn.symm⟩
    · simp only [hn, if_false] at h; cases h
  · refine ⟨fun _ => ?_, fun hc => by cases hc⟩
    unfold cookieKey at h
    by_cases hn : s.name = nv.1
    · simp only [hn, if_true] at h; exact ⟨(Option.some.inj h).symm, fun _ => hn.symm⟩
    · simp only [hn, if_false] at h; cases h

/-- **C13_key_calls_verbatim** — hence: behind KeyAuth whose lookup sources are all cookies (or query / form / param
    sources), every key the validator is shown is the complete value of a pair net/http located at a configured
    source of the request — no unescaping, trimming or cutting, whatever bytes the value consists of. -/
theorem C13_key_calls_verbatim (V : Str → Outcome) (cfg : KCfg) (data : List (List (Str × Str)))
    (o : KObs) (h : keyAuth V cfg data = some o) (hk : ∀ s ∈ cfg.sources, s.kind ≠ .header) :
    ∀ k ∈ o.calls, ∃ sd ∈ cfg.sources.zip data, ∃ nv ∈ sd.2, nv.2 = k ∧
      ((sd.1.kind = .cookie ∨ sd.1.kind = .param) → nv.1 = sd.1.name) := by
  intro k hkm
  obtain ⟨sd, hsd, nv, hnv, hkey⟩ := C13_key_calls_literal V cfg data o h k hkm
  have hs : sd.1 ∈ cfg.sources := (List.of_mem_zip hsd).1
  have := (C13_key_verbatim sd.1 nv k hkey).1 (hk sd.1 hs)
  exact ⟨sd, hsd, nv, hnv, this.1.symm, this.2⟩

-- the witness of the missed change: cookie `key=k%41z`.  A validator that accepts only the unescaped text `kAz` is
-- shown `k%41z` and says no; one that accepts exactly the cookie's text says yes and the handler runs
example :
    keyAuth (fun k => if k = "kAz".toList then .yes else .no) ⟨[⟨.cookie, "key".toList, []⟩], .absent, false⟩
      [[("other".toList, "kAz".toList), ("key".toList, "k%41z".toList)]] = some ⟨false, 401, 0, ["k%41z".toList]⟩ ∧
    keyAuth (fun k => if k = "k%41z/%2Bx".toList then .yes else .no) ⟨[⟨.cookie, "key".toList, []⟩], .absent, false⟩
      [[("key".toList, "k%41z/%2Bx".toList)]] = some ⟨true, 200, 0, ["k%41z/%2Bx".toList]⟩ ∧
    keyAuth (fun k => if k = "a b".toList then .yes else .no) ⟨[⟨.header, "X-Api-Key".toList, []⟩], .absent, false⟩
      [[("X-Api-Key".toList, "a+b".toList)]] = some ⟨false, 401, 0, ["a+b".toList]⟩ := by decide

end C13
