import EchoModel.C10
import EchoProofs.C10
/-!
# C10 — the trust options (`TrustOption`, `newIPChecker`)

`newChecker opts` is the checker built by `ExtractIPFromRealIPHeader(opts...)` /
`ExtractIPFromXFFHeader(opts...)`.  The theorems say what a *list* of options means, for every
list: a flag is the value of the last option of its kind (default `true`), every range option
contributes its range wherever it stands, and the trust decision does not depend on how the
kinds are interleaved.
-/
namespace C10

/-- the values given to `TrustLoopback`, in order -/
def loopbackVals : List TrustOpt → List Bool
  | [] => []
  | .loopback v :: r => v :: loopbackVals r
  | _ :: r => loopbackVals r

def linkLocalVals : List TrustOpt → List Bool
  | [] => []
  | .linkLocal v :: r => v :: linkLocalVals r
  | _ :: r => linkLocalVals r

def privateVals : List TrustOpt → List Bool
  | [] => []
  | .privateNet v :: r => v :: privateVals r
  | _ :: r => privateVals r

/-- the ranges given to `TrustIPRange`, in order -/
def rangesOf : List TrustOpt → List IPNet
  | [] => []
  | .range n :: r => n :: rangesOf r
  | _ :: r => rangesOf r

/-- last value of a list of flag settings, `d` when there is none -/
def lastD (d : Bool) : List Bool → Bool
  | [] => d
  | v :: r => lastD v r

theorem lastD_append (d : Bool) (a b : List Bool) : lastD d (a ++ b) = lastD (lastD d a) b := by
  induction a generalizing d with
  | nil => rfl
  | cons v r ih => simp [lastD, ih]

theorem foldl_applyOpt (c : Cfg) (opts : List TrustOpt) :
    opts.foldl applyOpt c =
      ⟨lastD c.loopback (loopbackVals opts), lastD c.linkLocal (linkLocalVals opts),
       lastD c.privateNet (privateVals opts), c.extra ++ rangesOf opts⟩ := by
  induction opts generalizing c with
  | nil => simp [loopbackVals, linkLocalVals, privateVals, rangesOf, lastD]
  | cons o r ih =>
    cases o <;>
      simp [List.foldl_cons, ih, applyOpt, loopbackVals, linkLocalVals, privateVals, rangesOf, lastD]

/-- **C10_options_meaning** — for every option list, in any order and with any repetitions: each
    flag is the last value given for it (`true` when the option is absent) and the extra ranges
    are exactly the `TrustIPRange` arguments, none dropped, whatever stands before or after. -/
theorem C10_options_meaning (opts : List TrustOpt) :
    newChecker opts =
      ⟨lastD true (loopbackVals opts), lastD true (linkLocalVals opts),
       lastD true (privateVals opts), rangesOf opts⟩ := by
  simp [newChecker, foldl_applyOpt, defaultCfg]

/-- no options: loopback, link-local and private networks are trusted, no extra range -/
theorem C10_options_default : newChecker [] = ⟨true, true, true, []⟩ := rfl

theorem rangesOf_append (a b : List TrustOpt) : rangesOf (a ++ b) = rangesOf a ++ rangesOf b := by
  induction a with
  | nil => rfl
  | cons o r ih => cases o <;> simp [rangesOf, ih]

theorem loopbackVals_append (a b : List TrustOpt) :
    loopbackVals (a ++ b) = loopbackVals a ++ loopbackVals b := by
  induction a with
  | nil => rfl
  | cons o r ih => cases o <;> simp [loopbackVals, ih]

theorem linkLocalVals_append (a b : List TrustOpt) :
    linkLocalVals (a ++ b) = linkLocalVals a ++ linkLocalVals b := by
  induction a with
  | nil => rfl
  | cons o r ih => cases o <;> simp [linkLocalVals, ih]

theorem privateVals_append (a b : List TrustOpt) :
    privateVals (a ++ b) = privateVals a ++ privateVals b := by
  induction a with
  | nil => rfl
  | cons o r ih => cases o <;> simp [privateVals, ih]

/-- **C10_options_range_any_position** — a `TrustIPRange(n)` option adds exactly the addresses
    `n.Contains` admits, at whatever position it is given (before or after the flag options,
    whether or not the range lies inside a built-in class that is switched on or off). -/
theorem C10_options_range_any_position (a b : List TrustOpt) (n : IPNet) (ip : IP) :
    trust (newChecker (a ++ .range n :: b)) ip =
      (trust (newChecker (a ++ b)) ip || contains n ip) := by
  simp only [C10_options_meaning, trust, loopbackVals_append, linkLocalVals_append,
    privateVals_append, rangesOf_append, loopbackVals, linkLocalVals, privateVals, rangesOf,
    List.any_append, List.any_cons]
  cases (lastD true (loopbackVals a ++ loopbackVals b) && isLoopback ip) <;>
  cases (lastD true (linkLocalVals a ++ linkLocalVals b) && isLinkLocal ip) <;>
  cases (lastD true (privateVals a ++ privateVals b) && isPrivate ip) <;>
  cases ((rangesOf a).any fun n => contains n ip) <;>
  cases ((rangesOf b).any fun n => contains n ip) <;>
  cases contains n ip <;> rfl

theorem any_perm {α} (p : α → Bool) {l l' : List α} (h : l.Perm l') : l.any p = l'.any p := by
  induction h with
  | nil => rfl
  | cons x _ ih => simp [ih]
  | swap x y l => simp only [List.any_cons]; cases p x <;> cases p y <;> rfl
  | trans _ _ ih1 ih2 => exact ih1.trans ih2

/-- **C10_options_interleaving** — two option lists that give the same sequence of values to
    each flag and the same ranges (in any order) build checkers with the same trust decision for
    every address: how flag options and range options are interleaved never matters. -/
theorem C10_options_interleaving (o o' : List TrustOpt)
    (hl : loopbackVals o = loopbackVals o') (hk : linkLocalVals o = linkLocalVals o')
    (hp : privateVals o = privateVals o') (hr : (rangesOf o).Perm (rangesOf o')) (ip : IP) :
    trust (newChecker o) ip = trust (newChecker o') ip := by
  simp only [C10_options_meaning, trust, hl, hk, hp, any_perm _ hr]

/-- giving a flag value twice in a row is giving it once -/
theorem lastD_dup (d v : Bool) (a b : List Bool) : lastD d (a ++ v :: v :: b) = lastD d (a ++ v :: b) := by
  simp [lastD_append, lastD]

/-- **C10_options_repeat** — applying the SAME option twice (base options plus appended options that
    repeat one of them) is applying it once: for every option — a flag with `true` or `false`, a
    range — at every position of every list, and for every address.  In particular a second
    `TrustPrivateNet(false)` does not switch the class back on. -/
theorem C10_options_repeat (a b : List TrustOpt) (o : TrustOpt) (ip : IP) :
    trust (newChecker (a ++ o :: o :: b)) ip = trust (newChecker (a ++ o :: b)) ip := by
  cases o with
  | loopback v =>
    simp only [C10_options_meaning, trust, loopbackVals_append, linkLocalVals_append, privateVals_append,
      rangesOf_append, loopbackVals, linkLocalVals, privateVals, rangesOf, lastD_dup]
  | linkLocal v =>
    simp only [C10_options_meaning, trust, loopbackVals_append, linkLocalVals_append, privateVals_append,
      rangesOf_append, loopbackVals, linkLocalVals, privateVals, rangesOf, lastD_dup]
  | privateNet v =>
    simp only [C10_options_meaning, trust, loopbackVals_append, linkLocalVals_append, privateVals_append,
      rangesOf_append, loopbackVals, linkLocalVals, privateVals, rangesOf, lastD_dup]
  | range n =>
    simp only [C10_options_meaning, trust, loopbackVals_append, linkLocalVals_append, privateVals_append,
      rangesOf_append, loopbackVals, linkLocalVals, privateVals, rangesOf, List.any_append, List.any_cons]
    cases contains n ip <;> simp

/-- any number of repetitions of a `false` flag leaves the class off (the parity of the count is
    irrelevant) -/
theorem C10_options_false_stays_false (k : Nat) (b : List TrustOpt) (hb : privateVals b = []) :
    (newChecker (List.replicate (k + 1) (.privateNet false) ++ b)).privateNet = false := by
  rw [C10_options_meaning]
  simp only [privateVals_append, hb, List.append_nil]
  induction k with
  | zero => simp [privateVals, lastD]
  | succ k ih => simpa [List.replicate_succ, privateVals, lastD] using ih

/-- the trust decision of a checker built from options, in RFC terms (`C10_trust_ranges`
    composed with `C10_options_meaning`) -/
theorem C10_options_trust (opts : List TrustOpt) (ip : IP) :
    trust (newChecker opts) ip = true ↔
      (lastD true (loopbackVals opts) = true ∧ RFCLoopback (addrOf ip)) ∨
      (lastD true (linkLocalVals opts) = true ∧ RFCLinkLocal (addrOf ip)) ∨
      (lastD true (privateVals opts) = true ∧ RFCPrivate (addrOf ip)) ∨
      (∃ n ∈ rangesOf opts, contains n ip = true) := by
  rw [C10_trust_ranges, C10_options_meaning]

/-! ## non-vacuity -/

section Examples

def net10 : IPNet := ⟨[10, 0, 0, 0], [255, 0, 0, 0]⟩

-- the range 10.0.0.0/8 given BEFORE private-network trust is switched off still counts
example : trust (newChecker [.range net10, .privateNet false]) [10, 1, 2, 3] = true ∧
    trust (newChecker [.privateNet false, .range net10]) [10, 1, 2, 3] = true ∧
    trust (newChecker [.privateNet false]) [10, 1, 2, 3] = false ∧
    trust (newChecker [.range net10, .privateNet false]) [192, 168, 0, 1] = false := by decide

-- the same option twice, three times: still off
example : trust (newChecker [.privateNet false, .privateNet false]) [10, 1, 2, 3] = false ∧
    trust (newChecker [.privateNet false, .loopback true, .privateNet false, .privateNet false]) [192, 168, 0, 1] = false ∧
    trust (newChecker [.linkLocal false, .linkLocal false]) [169, 254, 0, 1] = false := by decide

-- the last flag value wins; an absent flag is `true`
example : (newChecker [.loopback false, .range net10, .loopback true, .linkLocal false]).loopback = true ∧
    (newChecker [.loopback false, .range net10, .loopback true, .linkLocal false]).linkLocal = false ∧
    (newChecker [.loopback false, .range net10, .loopback true, .linkLocal false]).privateNet = true := by decide

example : trust (newChecker [.range net10, .privateNet false]) [10, 1, 2, 3] =
    trust (newChecker [.privateNet false, .range net10]) [10, 1, 2, 3] :=
  C10_options_interleaving _ _ rfl rfl rfl (List.Perm.refl _) _

end Examples

end C10
