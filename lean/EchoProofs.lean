import EchoProofs.C01
import EchoProofs.C02
import EchoProofs.C03
import EchoProofs.C14
import EchoProofs.Spec.Allow
import EchoProofs.Spec.Basics
import EchoProofs.Spec.Perm
import EchoProofs.Spec.Sound
