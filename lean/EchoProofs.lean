import EchoProofs.C14
