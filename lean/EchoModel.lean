import EchoModel.C14
import EchoModel.Wire
