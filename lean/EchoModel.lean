import EchoModel.C01
import EchoModel.C02
import EchoModel.C03
import EchoModel.C14
import EchoModel.Router
import EchoModel.RouterSpec
import EchoModel.RouterWire
import EchoModel.Wire
