import EchoModel.Wire
import EchoModel.C14
