import EchoModel.Wire
import EchoModel.C06Hooks
import EchoModel.C06Nest
/-!
# C06 — response bookkeeping (response.go, context.go helpers)

Model of `echo.Response` (`WriteHeader`, `Write`, `Flush`, `Before`, `After`) on top of an
underlying `http.ResponseWriter`, and of the `echo.Context` response helpers expressed through
them exactly as `context.go` does.

The model is of the code AFTER the two repairs F5 / F6:

* F5 `Response.Flush` on an uncommitted response first does what `Write` does (default the
  pending status, `WriteHeader(pending)`), so hooks run and `Committed` becomes true;
* F6 `Context.json` presets the pending status only when the response is not committed
  (and logs the ignored status write otherwise, like `WriteHeader` does).

The underlying writer is modelled with net/http's rule: the first `WriteHeader` call sends
status line and headers; `Write` or `Flush` before any `WriteHeader` sends an implicit 200;
every later `WriteHeader` call is superfluous (recorded, not sent).  It accepts at most `cap`
body bytes in total (a write crossing the capacity is short and returns an error) — that is
how "bytes actually written" is made to differ from "bytes handed to Write".

Everything visible from outside is appended to a chronological `trace` of events: hook
registrations and executions, every call the underlying writer receives, log warnings.  The
Go harness records the same events with a recording writer / recording hooks / recording
logger.

`encoding/json` is reduced to: a Go string of `k` ASCII letters serialises to `k+3` bytes in
one `Write` (quotes and the trailing newline); an unserialisable value makes `Encode` fail
before anything is written.  `io.Copy` (used by `Stream`) is reduced to: one `Write` per
non-empty chunk the reader returns, stop at the first write error.  Both reductions are
validated by the correspondence run.

Round 4 additions:

* the serialising helpers `JSONP` (jsonPBlob: commits BEFORE serialising), `XML`/`XMLPretty`
  (header write, then the encoder's single buffered write), `Render` (nothing happens unless
  the renderer succeeded, then `HTMLBlob`), `File`/`FileFS`/`Attachment`/`Inline`
  (Content-Disposition into the header map first, then `http.ServeContent` reduced to
  "Content-Type if unset, `WriteHeader(200)`, one `Write` of the file, errors swallowed"),
  `Response.Hijack` (touches nothing of the bookkeeping);
* an underlying writer WITHOUT `http.Flusher` (`Raw.canFlush = false`): `Response.Flush`
  commits first (F5) and then panics — the state after the panic is the committed state;
* sequences of requests served on one recycled context: `reset` (response.reset + a fresh
  writer and header map) and `runSeq`.
-/
namespace C06

/-- externally visible events, in chronological order in `St.trace` -/
inductive Ev where
  | regB (h : Nat)   -- `Response.Before(h)` called
  | regA (h : Nat)   -- `Response.After(h)` called
  | runB (h : Nat)   -- before-hook `h` executed
  | runA (h : Nat)   -- after-hook `h` executed
  | hdr (c : Nat)    -- underlying writer received `WriteHeader(c)`
  | impl             -- underlying writer sent an implicit 200 (Write/Flush before WriteHeader)
  | body (k : Nat)   -- underlying writer received `Write` and accepted `k` bytes
  | rflush           -- underlying writer received `Flush`
  | warn             -- "response already committed" logged
deriving DecidableEq, Repr, Inhabited

/-- the underlying `http.ResponseWriter` -/
structure Raw where
  calls : List Nat := []        -- every `WriteHeader` call received, in order
  sent : Option Nat := none     -- status actually sent (`none` = headers not out yet)
  sentCt : Nat := 0             -- Content-Type in the header map when the headers went out
  sentLoc : Bool := false       -- Location present in the header map when the headers went out
  sentDisp : Nat := 0           -- Content-Disposition in the header map then (0 none, 1 attachment, 2 inline)
  body : Nat := 0               -- body bytes accepted so far
  flushes : Nat := 0
  cap : Nat                     -- total body bytes the writer accepts
  canFlush : Bool := true       -- does the writer implement http.Flusher (reachable by ResponseController)?
deriving DecidableEq, Repr, Inhabited

/-- `echo.Response` + the two header-map entries the helpers touch + the writer + the trace -/
structure St where
  committed : Bool := false
  status : Nat                  -- `Response.Status` (pending status while uncommitted)
  size : Nat := 0
  before : List Nat := []
  after : List Nat := []
  ct : Nat := 0                 -- Content-Type in the header map (0 = unset)
  loc : Bool := false           -- Location set in the header map
  disp : Nat := 0               -- Content-Disposition in the header map (0 unset, 1 attachment, 2 inline)
  raw : Raw
  trace : List Ev := []
deriving DecidableEq, Repr, Inhabited

/-- `reset` leaves status 200; `NewResponse` (used by `Echo.NewContext`) leaves status 0 -/
def init (status0 cap : Nat) (canFlush : Bool := true) : St :=
  { status := status0, raw := { cap := cap, canFlush := canFlush } }

def emit (s : St) (es : List Ev) : St := { s with trace := s.trace ++ es }

/-! ## the underlying writer -/

/-- headers leave with status `c` and the current header map -/
def rawSend (s : St) (c : Nat) : St :=
  { s with raw := { s.raw with sent := some c, sentCt := s.ct, sentLoc := s.loc, sentDisp := s.disp } }

def rawWriteHeader (s : St) (c : Nat) : St :=
  let s := emit { s with raw := { s.raw with calls := s.raw.calls ++ [c] } } [.hdr c]
  match s.raw.sent with
  | none => rawSend s c
  | some _ => s            -- superfluous call

def rawImplicit (s : St) : St :=
  match s.raw.sent with
  | none => emit (rawSend s 200) [.impl]
  | some _ => s

/-- returns the number of bytes accepted; fewer than `n` means the write returned an error -/
def rawWrite (s : St) (n : Nat) : St × Nat :=
  let s := rawImplicit s
  let acc := min n (s.raw.cap - s.raw.body)
  (emit { s with raw := { s.raw with body := s.raw.body + acc } } [.body acc], acc)

def rawFlush (s : St) : St :=
  let s := rawImplicit s
  emit { s with raw := { s.raw with flushes := s.raw.flushes + 1 } } [.rflush]

/-! ## response.go -/

/-- `Response.WriteHeader` -/
def writeHeader (s : St) (c : Nat) : St :=
  if s.committed then emit s [.warn]
  else
    let s := { s with status := c }
    let s := emit s (s.before.map .runB)
    let s := rawWriteHeader s s.status
    { s with committed := true }

/-- the shared prologue of `Write` and (after F5) `Flush`:
    `if !r.Committed { if r.Status == 0 { r.Status = 200 }; r.WriteHeader(r.Status) }` -/
def ensureCommitted (s : St) : St :=
  if s.committed then s
  else
    let s := if s.status = 0 then { s with status := 200 } else s
    writeHeader s s.status

/-- `Response.Write` of `n` bytes; returns `(state, bytes written, error?)` -/
def write (s : St) (n : Nat) : St × Nat × Bool :=
  let s := ensureCommitted s
  let (s, acc) := rawWrite s n
  let s := { s with size := s.size + acc }
  let s := emit s (s.after.map .runA)
  (s, acc, decide (acc < n))

/-- `Response.Flush` (with the F5 repair): commit first; then
    `http.NewResponseController(r.Writer).Flush()` — on a writer without `http.Flusher` that
    returns `ErrNotSupported` and `Flush` panics, AFTER the commit: the state the recovering
    caller sees is the committed one, the writer received no flush -/
def flush (s : St) : St :=
  let s := ensureCommitted s
  if s.raw.canFlush then rawFlush s else s

/-! ## context.go helpers -/

/-- `writeContentType`: set only when the header is still empty -/
def writeCT (s : St) (v : Nat) : St := if s.ct = 0 then { s with ct := v } else s

/-- a sequence of `Write`s that stops at the first error (JSONPBlob, XMLBlob, io.Copy) -/
def writes : St → List Nat → St × Bool
  | s, [] => (s, false)
  | s, n :: ns =>
    let (s, _, err) := write s n
    if err then (s, true) else writes s ns

inductive Op where
  | writeHeader (c : Nat)
  | write (n : Nat)
  | flush
  | before (h : Nat)
  | after (h : Nat)
  | json (c k : Nat) (ok : Bool)        -- c.JSON(c, v): `ok` = v serialisable (to k+3 bytes)
  | blob (c ct n : Nat)                 -- String / HTML / JSONBlob / Blob (differ in content type)
  | noContent (c : Nat)
  | redirect (c : Nat)
  | stream (c : Nat) (chunks : List Nat) (rerr : Bool)   -- reader returns these chunks, then EOF or an error
  | xmlBlob (c n : Nat)
  | jsonpBlob (c cb n : Nat)            -- cb = length of the callback name
  -- optional-interface entry points a handler or net/http can reach on *echo.Response
  | flushRC                             -- http.NewResponseController(c.Response()).Flush()
  | flushFE                             -- `FlushError()` if the Response offers it (interface assertion), else Flush()
  | unwrap                              -- c.Response().Unwrap(): hands out the wrapped writer, touches nothing
  | copy (chunks : List Nat) (rerr : Bool)  -- io.Copy(c.Response(), reader without WriteTo)
  -- round 4: the serialising helpers, Render, the file helpers, Hijack
  | jsonp (c cb k : Nat) (ok : Bool)    -- c.JSONP(c, callback, v): `ok` = v serialisable (to k+3 bytes)
  | xml (c k : Nat) (ok : Bool)         -- c.XML / c.XMLPretty(c, v): `ok` = v encodable (to k+17 bytes)
  | render (c n : Nat) (ok : Bool)      -- c.Render: `ok` = a renderer is registered and produced n bytes
  | file (found : Bool) (n disp ct : Nat) -- File/FileFS (disp 0), Attachment (1), Inline (2); ct by extension
  | hijack                              -- c.Response().Hijack()
  -- round 6: the remaining optional-interface probes of the standard library.  echo.Response has
  -- no WriteString: io.WriteString converts and calls Response.Write; io.Copy from a source WITH
  -- WriteTo (strings.Reader, bytes.Reader) calls that WriteTo, which ends in one Write of
  -- everything (none for an empty source).  The commit bookkeeping is Write's.
  | writeString (n : Nat)               -- io.WriteString(c.Response(), n bytes)
  | copyWT (n : Nat)                    -- io.Copy(c.Response(), strings.NewReader(n bytes))
deriving DecidableEq, Repr, Inhabited

/-- content-type ids -/
def ctHTML : Nat := 2
def ctJSON : Nat := 3
def ctJS : Nat := 4
def ctXML : Nat := 5
def ctStream : Nat := 6
/-- `len(xml.Header)` -/
def xmlHeaderLen : Nat := 39

/-- what a step returns to the handler: a byte count (for `write`) and an error flag -/
structure Ret where
  n : Nat := 0
  err : Bool := false
deriving DecidableEq, Repr, Inhabited

def step (s : St) : Op → St × Ret
  | .writeHeader c => (writeHeader s c, {})
  | .write n => let (s, acc, err) := write s n; (s, ⟨acc, err⟩)
  | .flush => (flush s, ⟨0, !s.raw.canFlush⟩)
  | .before h => (emit { s with before := s.before ++ [h] } [.regB h], {})
  | .after h => (emit { s with after := s.after ++ [h] } [.regA h], {})
  | .json c k ok =>
    -- context.json: writeContentType; preset the status (F6: only when uncommitted); Serialize
    let s := writeCT s ctJSON
    let s := if s.committed then emit s [.warn] else { s with status := c }
    if ok then let (s, _, err) := write s (k + 3); (s, ⟨0, err⟩)
    else (s, ⟨0, true⟩)
  | .blob c ct n =>
    let s := writeCT s ct
    let s := writeHeader s c
    let (s, _, err) := write s n
    (s, ⟨0, err⟩)
  | .noContent c => (writeHeader s c, {})
  | .redirect c =>
    if c < 300 ∨ c > 308 then (s, ⟨0, true⟩)
    else (writeHeader { s with loc := true } c, {})
  | .stream c chunks rerr =>
    let s := writeCT s ctStream
    let s := writeHeader s c
    let (s, err) := writes s (chunks.filter (· ≠ 0))
    (s, ⟨0, err || rerr⟩)
  | .xmlBlob c n =>
    let s := writeCT s ctXML
    let s := writeHeader s c
    let (s, err) := writes s [xmlHeaderLen, n]
    (s, ⟨0, err⟩)
  | .jsonpBlob c cb n =>
    let s := writeCT s ctJS
    let s := writeHeader s c
    let (s, err) := writes s [cb + 1, n, 2]
    (s, ⟨0, err⟩)
  -- `echo.Response` has neither `FlushError` nor `ReadFrom`: http.ResponseController finds
  -- http.Flusher and lands in `Response.Flush`; io.Copy finds no io.ReaderFrom and runs its
  -- copy loop through `Response.Write` (one Write per non-empty chunk, stop at the first error),
  -- whether or not the UNDERLYING writer implements io.ReaderFrom.
  | .flushRC => (flush s, ⟨0, !s.raw.canFlush⟩)
  | .flushFE => (flush s, ⟨0, !s.raw.canFlush⟩)
  | .unwrap => (s, {})
  | .copy chunks rerr =>
    let (s, err) := writes s (chunks.filter (· ≠ 0))
    (s, ⟨0, err || rerr⟩)
  -- jsonPBlob: content type, WriteHeader, `callback(`, THEN Serialize (one write of k+3 bytes
  -- or an error before anything is written), `);` — an unserialisable value leaves a committed
  -- response with `callback(` written
  | .jsonp c cb k ok =>
    let s := writeCT s ctJS
    let s := writeHeader s c
    let (s, err) := writes s (if ok then [cb + 1, k + 3, 2] else [cb + 1])
    (s, ⟨0, err || !ok⟩)
  -- xml: content type, WriteHeader, xml.Header, then Encoder.Encode: one buffered write of
  -- `<string>…</string>` (k+17 bytes) or an error before anything more is written
  | .xml c k ok =>
    let s := writeCT s ctXML
    let s := writeHeader s c
    let (s, err) := writes s (if ok then [xmlHeaderLen, k + 17] else [xmlHeaderLen])
    (s, ⟨0, err || !ok⟩)
  -- Render: no renderer / renderer error → nothing touched; else HTMLBlob(code, rendered bytes)
  | .render c n ok =>
    if ok then
      let s := writeCT s ctHTML
      let s := writeHeader s c
      let (s, _, err) := write s n
      (s, ⟨0, err⟩)
    else (s, ⟨0, true⟩)
  -- contentDisposition sets the header FIRST (also when the file is missing); fsFile: not
  -- found → ErrNotFound; else http.ServeContent: Content-Type if unset, WriteHeader(200),
  -- io.CopyN through Response.Write (one write, none for an empty file), errors swallowed
  | .file found n disp ct =>
    let s := if disp = 0 then s else { s with disp := disp }
    if found then
      let s := writeCT s ct
      let s := writeHeader s 200
      let (s, _) := writes s ([n].filter (· ≠ 0))
      (s, {})
    else (s, ⟨0, true⟩)
  -- Hijack goes to the underlying writer (through http.ResponseController); nothing of the
  -- bookkeeping is touched; the recording writer never hands out a connection
  | .hijack => (s, ⟨0, true⟩)
  | .writeString n => let (s, acc, err) := write s n; (s, ⟨acc, err⟩)
  | .copyWT n =>
    let (s, err) := writes s ([n].filter (· ≠ 0))
    (s, ⟨0, err⟩)

/-- the state after a whole program -/
def run (s : St) (prog : List Op) : St := prog.foldl (fun s o => (step s o).1) s

/-! ## observation after every step -/

def countWarn (tr : List Ev) : Nat := tr.count .warn

structure Snap where
  committed : Bool
  status : Nat
  size : Nat
  ncalls : Nat
  sent : Nat
  body : Nat
  flushes : Nat
  warns : Nat
  ret : Ret
deriving DecidableEq, Repr, Inhabited

def snap (s : St) (r : Ret) : Snap :=
  ⟨s.committed, s.status, s.size, s.raw.calls.length, s.raw.sent.getD 0, s.raw.body,
   s.raw.flushes, countWarn s.trace, r⟩

def runSnaps : St → List Op → St × List Snap
  | s, [] => (s, [])
  | s, o :: os =>
    let (s, r) := step s o
    let (sEnd, l) := runSnaps s os
    (sEnd, snap s r :: l)

/-! ## sequences of requests on one recycled context -/

/-- `Context.Reset` / the pool: `response.reset(w)` written out field by field, on a fresh
    writer (capacity `cap`, flusher or not) with a fresh header map and a fresh recording -/
def reset (s : St) (cap : Nat) (fl : Bool) : St :=
  { s with
    before := []            -- r.beforeFuncs = nil
    after := []             -- r.afterFuncs = nil
    raw := { cap := cap, canFlush := fl }   -- r.Writer = w
    size := 0               -- r.Size = 0
    status := 200           -- r.Status = http.StatusOK
    committed := false      -- r.Committed = false
    ct := 0, loc := false, disp := 0        -- w.Header() is the new writer's empty map
    trace := [] }           -- the recording starts again

/-- states at the end of each request: run, reset, run, … -/
def runSeq (cap : Nat) (fl : Bool) : St → List (List Op) → List St
  | _, [] => []
  | s, p :: ps => let s' := run s p; s' :: runSeq cap fl (reset s' cap fl) ps

/-- the same with the per-step observations (what the driver prints) -/
def runSeqObs (cap : Nat) (fl : Bool) : St → List (List Op) → List (St × List Snap)
  | _, [] => []
  | s, p :: ps => let r := runSnaps s p; r :: runSeqObs cap fl (reset r.1 cap fl) ps

/-! ## an underlying writer that refuses invalid status codes

net/http's connection writer and httptest.ResponseRecorder panic ("invalid WriteHeader code")
when the FIRST `WriteHeader` they get carries a code outside 100..999 — before they record or
send anything.  `Response.WriteHeader` has by then set `Status` and run the before-hooks; the
panic leaves it before `Committed = true`, and it aborts whatever helper made the call.
`step` above is the behaviour on a writer that accepts every code; `stepS true` adds the
refusal.  (Codes themselves are opaque to the rest of the model: 0 is special only as "no
pending status", 300..308 for Redirect.) -/

def validCode (c : Nat) : Bool := decide (100 ≤ c) && decide (c ≤ 999)

/-- the status an implicit commit (`Write`, `Flush`) uses: `Status == 0` becomes 200 -/
def pendOf (p : Nat) : Nat := if p = 0 then 200 else p

/-- if the first thing `op` does to an UNCOMMITTED response is `Response.WriteHeader(code)`:
    the state right before that call (the helper's header-map and preset effects applied) and
    the code -/
def commitAttempt (s : St) : Op → Option (St × Nat)
  | .writeHeader c => some (s, c)
  | .noContent c => some (s, c)
  | .write _ => some (s, pendOf s.status)
  | .flush | .flushRC | .flushFE => some (s, pendOf s.status)
  | .copy chunks _ => if chunks.filter (· ≠ 0) = [] then none else some (s, pendOf s.status)
  | .writeString _ => some (s, pendOf s.status)
  | .copyWT n => if [n].filter (· ≠ 0) = [] then none else some (s, pendOf s.status)
  | .json c _ ok => if ok then some ({ writeCT s ctJSON with status := c }, pendOf c) else none
  | .blob c ct _ => some (writeCT s ct, c)
  | .stream c _ _ => some (writeCT s ctStream, c)
  | .xmlBlob c _ => some (writeCT s ctXML, c)
  | .xml c _ _ => some (writeCT s ctXML, c)
  | .jsonpBlob c _ _ => some (writeCT s ctJS, c)
  | .jsonp c _ _ _ => some (writeCT s ctJS, c)
  | .render c _ ok => if ok then some (writeCT s ctHTML, c) else none
  -- Redirect only forwards 300..308, ServeContent sends 200: always valid
  | .redirect _ | .file _ _ _ _ => none
  | .before _ | .after _ | .unwrap | .hijack => none

/-- `Response.WriteHeader(c)` whose forward to the writer panics: `Status` set, before-hooks
    run, nothing sent, `Committed` still false -/
def abortCommit (s : St) (c : Nat) : St := emit { s with status := c } (s.before.map .runB)

/-- one operation on a writer that refuses invalid codes iff `strict` -/
def stepS (strict : Bool) (s : St) (op : Op) : St × Ret :=
  if strict && !s.committed then
    match commitAttempt s op with
    | some (s', c) => if validCode c then step s op else (abortCommit s' c, ⟨0, true⟩)
    | none => step s op
  else step s op

def runS (strict : Bool) (s : St) (prog : List Op) : St :=
  prog.foldl (fun s o => (stepS strict s o).1) s

def runSnapsS (strict : Bool) : St → List Op → St × List Snap
  | s, [] => (s, [])
  | s, o :: os =>
    let (s, r) := stepS strict s o
    let (sEnd, l) := runSnapsS strict s os
    (sEnd, snap s r :: l)

def runSeqObsS (strict : Bool) (cap : Nat) (fl : Bool) : St → List (List Op) → List (St × List Snap)
  | _, [] => []
  | s, p :: ps => let r := runSnapsS strict s p; r :: runSeqObsS strict cap fl (reset r.1 cap fl) ps

/-! ## wire -/
open Wire

def pOp : P Op := do
  let k ← nat
  match k with
  | 1 => do let c ← nat; pure (.writeHeader c)
  | 2 => do let n ← nat; pure (.write n)
  | 3 => pure .flush
  | 4 => do let h ← nat; pure (.before h)
  | 5 => do let h ← nat; pure (.after h)
  | 6 => do let c ← nat; let k ← nat; let ok ← bool; pure (.json c k ok)
  | 7 => do let c ← nat; let ct ← nat; let n ← nat; pure (.blob c ct n)
  | 8 => do let c ← nat; pure (.noContent c)
  | 9 => do let c ← nat; pure (.redirect c)
  | 10 => do let c ← nat; let ch ← list nat; let e ← bool; pure (.stream c ch e)
  | 11 => do let c ← nat; let n ← nat; pure (.xmlBlob c n)
  | 12 => do let c ← nat; let cb ← nat; let n ← nat; pure (.jsonpBlob c cb n)
  | 13 => pure .flushRC
  | 14 => pure .flushFE
  | 15 => pure .unwrap
  | 16 => do let ch ← list nat; let e ← bool; pure (.copy ch e)
  | 17 => do let c ← nat; let cb ← nat; let k ← nat; let ok ← bool; pure (.jsonp c cb k ok)
  | 18 => do let c ← nat; let k ← nat; let ok ← bool; pure (.xml c k ok)
  | 19 => do let c ← nat; let n ← nat; let ok ← bool; pure (.render c n ok)
  | 20 => do let f ← bool; let n ← nat; let d ← nat; let ct ← nat; pure (.file f n d ct)
  | 21 => pure .hijack
  | 22 => do let n ← nat; pure (.writeString n)
  | 23 => do let n ← nat; pure (.copyWT n)
  | _ => failure

def encEv : Ev → List String
  | .regB h => ["1", toString h]
  | .regA h => ["2", toString h]
  | .runB h => ["3", toString h]
  | .runA h => ["4", toString h]
  | .hdr c => ["5", toString c]
  | .impl => ["6", "0"]
  | .body k => ["7", toString k]
  | .rflush => ["8", "0"]
  | .warn => ["9", "0"]

def encSnap (x : Snap) : List String :=
  [encBool x.committed, toString x.status, toString x.size, toString x.ncalls, toString x.sent,
   toString x.body, toString x.flushes, toString x.warns, toString x.ret.n, encBool x.ret.err]

/-- what is printed for one request -/
def encReq (x : St × List Snap) : List String :=
  encList encSnap x.2 ++ [toString x.1.raw.sentCt, encBool x.1.raw.sentLoc, toString x.1.raw.sentDisp]
    ++ encList encEv x.1.trace

/-- line: `status0 cap canFlush strict nprog (nops op*)*` → `nprog` then per request
    `nsteps (committed status size ncalls sent body flushes warns ret err)* sentCt sentLoc sentDisp ntrace (code arg)*` -/
def runLine (line : String) : String :=
  -- programs with hooks that register hooks go to the small model of EchoModel/C06Hooks.lean
  if line.startsWith "H " then C06H.runLine (line.drop 2).toString else
  -- a Response whose writer is itself a Response (echo mounted inside echo): EchoModel/C06Nest.lean
  if line.startsWith "N " then C06N.runLine (line.drop 2).toString else
  match parseLine (do let p ← nat; let cap ← nat; let fl ← bool; let strict ← bool
                      let progs ← list (list pOp); pure (p, cap, fl, strict, progs)) line with
  | none => "bad-op"
  | some (p, cap, fl, strict, progs) =>
    render (encList encReq (runSeqObsS strict cap fl (init p cap fl) progs))

end C06
