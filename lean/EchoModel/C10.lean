import EchoModel.Wire
import EchoModel.C10Parse
/-!
# C10 — client-IP extraction (ip.go, context.go RealIP)

Model of `ExtractIPDirect`, `ExtractIPFromRealIPHeader`, `ExtractIPFromXFFHeader`,
`ipChecker.trust`, `isPrivateIPRange` and of the `net` functions they call.

* `net.IP` is a byte slice: `IP := List (BitVec 8)` (`[]` = `nil`).  `To4`, `IsLoopback`,
  `IsLinkLocalUnicast`, `IPNet.Contains` (with `networkNumberAndMask`) and `IP.String` are
  implemented here as in Go 1.23 `net` / `net/netip`; the correspondence run validates them.
* `net.SplitHostPort` is implemented here (`splitHostPort`).
* `strings.TrimSpace` is implemented for arbitrary byte strings (ASCII white space and the
  UTF-8 encodings of the other `unicode.IsSpace` runes).
* `net.ParseIP` is modelled in `EchoModel/C10Parse.lean` (`parseIP`).  The functions below and
  the theorems of `EchoProofs/C10*.lean` take `parse : Str → Option IP` as a parameter and hold
  for an arbitrary `parse`; `EchoProofs/C10ParseInst.lean` instantiates them with `parseIP`.
  The harness still ships, for every candidate token, Go's parse result inside the op line
  (unchanged line format); `runLine` evaluates the case with that table AND requires that
  `parseIP` agrees with it on every token (`parse-mismatch` otherwise).  Op kind 3 compares
  `parseIP` with `net.ParseIP` on a list of tokens.
-/
namespace C10

/- `Byte`, `IP` (Go `net.IP`, `[]` = nil), `Str` (a Go string as the list of its bytes) and
   `v4InV6Prefix` are defined in `EchoModel/C10Parse.lean`. -/

/-! ## net.IP classification -/

def byteAt (ip : List Byte) (i : Nat) : Byte := ip.getD i 0

/-- `IP.To4`: a 4-byte slice is returned as is, a 16-byte IPv4-mapped address yields its
    last four bytes, everything else is nil -/
def to4 (ip : IP) : Option IP :=
  if ip.length = 4 then some ip
  else if ip.length = 16 ∧ ip.take 12 = v4InV6Prefix then some (ip.drop 12)
  else none

def loopback6 : IP := [0, 0, 0, 0, 0, 0, 0, 0, 0, 0, 0, 0, 0, 0, 0, 1]

/-- `IP.IsLoopback` -/
def isLoopback (ip : IP) : Bool :=
  match to4 ip with
  | some ip4 => byteAt ip4 0 == 127
  | none => ip == loopback6

/-- `IP.IsLinkLocalUnicast` -/
def isLinkLocal (ip : IP) : Bool :=
  match to4 ip with
  | some ip4 => byteAt ip4 0 == 169 && byteAt ip4 1 == 254
  | none => ip.length == 16 && byteAt ip 0 == 0xfe && (byteAt ip 1 &&& 0xc0) == 0x80

/-- `isPrivateIPRange` (ip.go) -/
def isPrivate (ip : IP) : Bool :=
  match to4 ip with
  | some ip4 =>
    byteAt ip4 0 == 10 ||
      (byteAt ip4 0 == 172 && (byteAt ip4 1 &&& 0xf0) == 16) ||
      (byteAt ip4 0 == 192 && byteAt ip4 1 == 168)
  | none => ip.length == 16 && (byteAt ip 0 &&& 0xfe) == 0xfc

/-- `net.IPNet` -/
structure IPNet where
  ip : IP
  mask : List Byte
deriving Repr, Inhabited

/-- `networkNumberAndMask`; `none` = `(nil, nil)` -/
def networkNumberAndMask (n : IPNet) : Option (IP × List Byte) :=
  let ipo : Option IP :=
    match to4 n.ip with
    | some x => some x
    | none => if n.ip.length = 16 then some n.ip else none
  match ipo with
  | none => none
  | some ip =>
    if n.mask.length = 4 then
      (if ip.length = 4 then some (ip, n.mask) else none)
    else if n.mask.length = 16 then
      (if ip.length = 4 then some (ip, n.mask.drop 12) else some (ip, n.mask))
    else none

def allMasked : List Byte → List Byte → List Byte → Bool
  | n :: ns, m :: ms, i :: is => (n &&& m) == (i &&& m) && allMasked ns ms is
  | _, _, _ => true

/-- `IPNet.Contains` -/
def contains (n : IPNet) (ip : IP) : Bool :=
  let nm := (networkNumberAndMask n).getD ([], [])
  let ip' := (to4 ip).getD ip
  if ip'.length ≠ nm.1.length then false else allMasked nm.1 nm.2 ip'

/-- `ipChecker` -/
structure Cfg where
  loopback : Bool
  linkLocal : Bool
  privateNet : Bool
  extra : List IPNet
deriving Repr, Inhabited

/-- `ipChecker.trust` -/
def trust (c : Cfg) (ip : IP) : Bool :=
  (c.loopback && isLoopback ip) || (c.linkLocal && isLinkLocal ip) ||
    (c.privateNet && isPrivate ip) || c.extra.any (fun n => contains n ip)

/-! ## trust options (`TrustOption`, `newIPChecker`) -/

/-- the four `TrustOption` constructors of ip.go -/
inductive TrustOpt where
  | loopback (v : Bool)     -- `TrustLoopback(v)`
  | linkLocal (v : Bool)    -- `TrustLinkLocal(v)`
  | privateNet (v : Bool)   -- `TrustPrivateNet(v)`
  | range (n : IPNet)       -- `TrustIPRange(n)`
deriving Repr, Inhabited

/-- one `configure(checker)` call: a flag option overwrites its flag, a range option appends -/
def applyOpt (c : Cfg) : TrustOpt → Cfg
  | .loopback v => { c with loopback := v }
  | .linkLocal v => { c with linkLocal := v }
  | .privateNet v => { c with privateNet := v }
  | .range n => { c with extra := c.extra ++ [n] }

/-- `&ipChecker{trustLoopback: true, trustLinkLocal: true, trustPrivateNet: true}` -/
def defaultCfg : Cfg := ⟨true, true, true, []⟩

/-- `newIPChecker(configs)`: the options are applied in the order given -/
def newChecker (opts : List TrustOpt) : Cfg := opts.foldl applyOpt defaultCfg

/-! ## strings -/

def isAsciiSpace (c : Char) : Bool :=
  c == '\t' || c == '\n' || c == '\x0b' || c == '\x0c' || c == '\r' || c == ' '

def ch (n : Nat) : Char := Char.ofNat n

/-- UTF-8 encodings of the non-ASCII runes with `unicode.IsSpace`:
    U+0085 U+00A0 U+1680 U+2000..U+200A U+2028 U+2029 U+202F U+205F U+3000 -/
def uniSpaces : List Str :=
  [[ch 0xc2, ch 0x85], [ch 0xc2, ch 0xa0], [ch 0xe1, ch 0x9a, ch 0x80],
   [ch 0xe2, ch 0x80, ch 0x80], [ch 0xe2, ch 0x80, ch 0x81], [ch 0xe2, ch 0x80, ch 0x82],
   [ch 0xe2, ch 0x80, ch 0x83], [ch 0xe2, ch 0x80, ch 0x84], [ch 0xe2, ch 0x80, ch 0x85],
   [ch 0xe2, ch 0x80, ch 0x86], [ch 0xe2, ch 0x80, ch 0x87], [ch 0xe2, ch 0x80, ch 0x88],
   [ch 0xe2, ch 0x80, ch 0x89], [ch 0xe2, ch 0x80, ch 0x8a], [ch 0xe2, ch 0x80, ch 0xa8],
   [ch 0xe2, ch 0x80, ch 0xa9], [ch 0xe2, ch 0x80, ch 0xaf], [ch 0xe2, ch 0x81, ch 0x9f],
   [ch 0xe3, ch 0x80, ch 0x80]]

def stripOnePrefix (pats : List Str) (s : Str) : Option Str :=
  pats.findSome? (fun p => if p.isPrefixOf s then some (s.drop p.length) else none)

def trimLeftFuel (pats : List Str) : Nat → Str → Str
  | 0, s => s
  | f + 1, s =>
    match s with
    | [] => []
    | c :: r =>
      if isAsciiSpace c then trimLeftFuel pats f r
      else match stripOnePrefix pats s with
        | some r' => trimLeftFuel pats f r'
        | none => s

/-- `strings.TrimSpace` on a byte string -/
def trimSpace (s : Str) : Str :=
  let l := trimLeftFuel uniSpaces s.length s
  (trimLeftFuel (uniSpaces.map List.reverse) l.length l.reverse).reverse

/-- `strings.TrimPrefix(s, "[")` -/
def trimPrefixC (c : Char) : Str → Str
  | [] => []
  | x :: r => if x == c then r else x :: r

/-- `strings.TrimSuffix(s, "]")` -/
def trimSuffixC (c : Char) (s : Str) : Str := (trimPrefixC c s.reverse).reverse

def stripBrackets (s : Str) : Str := trimSuffixC ']' (trimPrefixC '[' s)

/-- the normalisation applied to each X-Forwarded-For entry -/
def norm (s : Str) : Str := stripBrackets (trimSpace s)

/-- `strings.Split(s, ",")` for a one-byte separator -/
def splitOnChar (sep : Char) : Str → List Str
  | [] => [[]]
  | c :: r =>
    if c == sep then [] :: splitOnChar sep r
    else match splitOnChar sep r with
      | h :: t => (c :: h) :: t
      | [] => [[c]]

/-- `strings.Join(l, ",")` -/
def joinWith (sep : Char) : List Str → Str
  | [] => []
  | [x] => x
  | x :: y :: r => x ++ sep :: joinWith sep (y :: r)

def indexOf (c : Char) : Str → Option Nat
  | [] => none
  | x :: r => if x == c then some 0 else (indexOf c r).map (· + 1)

def lastIndexOf (c : Char) (s : Str) : Option Nat :=
  (indexOf c s.reverse).map (fun k => s.length - 1 - k)

/-- `net.SplitHostPort`; `none` = error -/
def splitHostPort (hp : Str) : Option (Str × Str) :=
  match lastIndexOf ':' hp with
  | none => none
  | some i =>
    if hp.head? = some '[' then
      match indexOf ']' hp with
      | none => none
      | some e =>
        if e + 1 = hp.length then none
        else if e + 1 = i then
          if (hp.drop 1).contains '[' then none
          else if (hp.drop (e + 1)).contains ']' then none
          else some ((hp.take e).drop 1, hp.drop (i + 1))
        else none
    else
      let host := hp.take i
      if host.contains ':' then none
      else if hp.contains '[' then none
      else if hp.contains ']' then none
      else some (host, hp.drop (i + 1))

/-! ## IP.String -/

def decStr (n : Nat) : Str := (toString n).toList
def hexStr (n : Nat) : Str := Nat.toDigits 16 n

/-- the eight 16-bit groups of a 16-byte address -/
def groups : List Byte → List Nat
  | a :: b :: r => (a.toNat * 256 + b.toNat) :: groups r
  | _ => []

def zeroRun : List Nat → Nat
  | 0 :: r => zeroRun r + 1
  | _ => 0

/-- leftmost longest run of ≥ 2 zero groups: `(start, end)`; netip `appendTo6` -/
def bestZeroRun (g : List Nat) : Option (Nat × Nat) :=
  (List.range g.length).foldl (fun best i =>
    let l := zeroRun (g.drop i)
    let cur := match best with | some (s, e) => e - s | none => 0
    if l ≥ 2 ∧ l > cur then some (i, i + l) else best) none

def joinStrs (sep : Char) (l : List Str) : Str := joinWith sep l

def v6String (ip : IP) : Str :=
  let g := groups ip
  match bestZeroRun g with
  | some (s, e) =>
    joinStrs ':' ((g.take s).map hexStr) ++ [':', ':'] ++ joinStrs ':' ((g.drop e).map hexStr)
  | none => joinStrs ':' (g.map hexStr)

def hexByte (b : Byte) : Str := [Wire.hexDigit (b.toNat / 16), Wire.hexDigit (b.toNat % 16)]

/-- `IP.String` -/
def ipString (ip : IP) : Str :=
  if ip.length = 0 then "<nil>".toList
  else if ip.length ≠ 4 ∧ ip.length ≠ 16 then '?' :: ip.flatMap hexByte
  else match to4 ip with
    | some p4 => joinStrs '.' (p4.map fun b => decStr b.toNat)
    | none => v6String ip

/-! ## the extractors -/

structure Req where
  remoteAddr : Str
  /-- values of the `X-Real-Ip` header, in order -/
  realIP : List Str
  /-- values (lines) of the `X-Forwarded-For` header, in order -/
  xff : List Str
deriving Repr, Inhabited

/-- `extractIP`: `ra, _, _ := net.SplitHostPort(req.RemoteAddr)` (`""` on error) -/
def peerOf (remoteAddr : Str) : Str :=
  match splitHostPort remoteAddr with
  | some (h, _) => h
  | none => []

/-- `net.ParseIP` returning the nil IP on failure -/
def parseD (parse : Str → Option IP) (s : Str) : IP := (parse s).getD []

def extractDirect (req : Req) : Str := peerOf req.remoteAddr

/-- the closure returned by `ExtractIPFromRealIPHeader` on peer `direct` and `Header.Get` value `hdr` -/
def realIPOf (cfg : Cfg) (parse : Str → Option IP) (direct hdr : Str) : Str :=
  if hdr = [] then direct
  else if trust cfg (parseD parse direct) then
    let r := stripBrackets hdr
    match parse r with
    | some _ => r
    | none => direct
  else direct

def extractRealIP (cfg : Cfg) (parse : Str → Option IP) (req : Req) : Str :=
  realIPOf cfg parse (peerOf req.remoteAddr) (req.realIP.headD [])

/-- the right-to-left loop of `ExtractIPFromXFFHeader`, on the *reversed* list of entries
    (nearest hop first); `none` = the loop ran to completion (every hop trusted) -/
def scan (cfg : Cfg) (parse : Str → Option IP) (direct : Str) : List Str → Option Str
  | [] => none
  | t :: rest =>
    match parse (norm t) with
    | none => some direct
    | some ip => if trust cfg ip then scan cfg parse direct rest else some (ipString ip)

/-- the body of the closure after `ips` has been built -/
def xffList (cfg : Cfg) (parse : Str → Option IP) (direct : Str) (ips : List Str) : Str :=
  match scan cfg parse direct ips.reverse with
  | some r => r
  | none => trimSpace (norm (ips.headD []))

/-- `append(strings.Split(strings.Join(xffs, ","), ","), directIP)` -/
def entries (lines : List Str) (direct : Str) : List Str :=
  splitOnChar ',' (joinWith ',' lines) ++ [direct]

def xffOf (cfg : Cfg) (parse : Str → Option IP) (direct : Str) (lines : List Str) : Str :=
  if lines = [] then direct else xffList cfg parse direct (entries lines direct)

def extractXFF (cfg : Cfg) (parse : Str → Option IP) (req : Req) : Str :=
  xffOf cfg parse (peerOf req.remoteAddr) req.xff

inductive Ext where
  | direct | realIP | xff
deriving DecidableEq, Repr, Inhabited

/-- `Context.RealIP` with `Echo.IPExtractor` set to the given extractor -/
def realIPCtx (e : Ext) (cfg : Cfg) (parse : Str → Option IP) (req : Req) : Str :=
  match e with
  | .direct => extractDirect req
  | .realIP => extractRealIP cfg parse req
  | .xff => extractXFF cfg parse req

/-! ## one Echo instance over time

`Context.RealIP` reads `Echo.IPExtractor` when it is called: not when the context was created,
not when it was taken from the pool.  The extractor closures keep no state between calls
(`checker` is only read).  So the only state of an Echo instance that matters is the extractor
installed last. -/

inductive Step where
  | setExtractor (e : Ext) (cfg : Cfg)   -- the application assigns `e.IPExtractor`
  | serve (req : Req)                    -- a request whose handler calls `c.RealIP()`
deriving Repr, Inhabited

/-- the `RealIP()` results of the served requests, in order; `st` = the installed extractor -/
def runSteps (parse : Str → Option IP) : Ext × Cfg → List Step → List Str
  | _, [] => []
  | _, .setExtractor e cfg :: rest => runSteps parse (e, cfg) rest
  | st, .serve req :: rest => realIPCtx st.1 st.2 parse req :: runSteps parse st rest

/-! ## wire -/
open Wire

def pIP : P IP := do
  let b ← bytes
  pure (b.map (BitVec.ofNat 8))

def pNet : P IPNet := do
  let i ← pIP
  let m ← pIP
  pure ⟨i, m⟩

def pOpt : P TrustOpt := do
  let k ← nat
  match k with
  | 0 => do let v ← bool; pure (.loopback v)
  | 1 => do let v ← bool; pure (.linkLocal v)
  | 2 => do let v ← bool; pure (.privateNet v)
  | 3 => do let n ← pNet; pure (.range n)
  | _ => failure

/-- the configuration is sent as the list of options in the order they were passed to the
    extractor constructor -/
def pCfg : P Cfg := do
  let os ← list pOpt
  pure (newChecker os)

def pReq : P Req := do
  let r ← str
  let x ← list str
  let f ← list str
  pure ⟨r, x, f⟩

def pExt : P Ext := do
  let n ← nat
  match n with
  | 0 => pure .direct | 1 => pure .realIP | 2 => pure .xff | _ => failure

def pEntry : P (Str × Option IP) := do
  let s ← str
  let o ← opt pIP
  pure (s, o)

def tableParse (tbl : List (Str × Option IP)) (s : Str) : Option IP :=
  match tbl.lookup s with
  | some o => o
  | none => none

/-- every token the extractor may hand to `net.ParseIP` for this request -/
def neededTokens (e : Ext) (req : Req) : List Str :=
  let d := peerOf req.remoteAddr
  match e with
  | .direct => []
  | .realIP => [d, stripBrackets (req.realIP.headD [])]
  | .xff => (entries req.xff d).map norm

inductive Op where
  | reqs (cfg : Cfg) (e : Ext) (tbl : List (Str × Option IP)) (rs : List Req)
  | table (cfg : Cfg) (addrs : List IP)
  | replaced (cfgA : Cfg) (eA : Ext) (tbl : List (Str × Option IP)) (rsA : List Req)
      (cfgB : Cfg) (eB : Ext) (rsB : List Req)
  | parses (toks : List Str)

def pOp : P Op := do
  let k ← nat
  match k with
  | 0 =>
    let cfg ← pCfg
    let e ← pExt
    let tbl ← list pEntry
    let rs ← list pReq
    pure (.reqs cfg e tbl rs)
  | 1 =>
    let cfg ← pCfg
    let a ← list pIP
    pure (.table cfg a)
  | 2 =>
    let cfgA ← pCfg
    let eA ← pExt
    let tbl ← list pEntry
    let rsA ← list pReq
    let cfgB ← pCfg
    let eB ← pExt
    let rsB ← list pReq
    pure (.replaced cfgA eA tbl rsA cfgB eB rsB)
  | 3 =>
    let ts ← list str
    pure (.parses ts)
  | _ => failure

/-- the first token of the table on which the model's `parseIP` and the shipped result of
    `net.ParseIP` differ -/
def tableMismatch (tbl : List (Str × Option IP)) : Option Str :=
  tbl.findSome? fun (t, o) => if parseIP t = o then none else some t

def encIP (ip : IP) : String := encBytes (ip.map BitVec.toNat)

/-- lines:
    `0 cfg ext table nreq req*` → `nreq (peer result)*`  (or `missing-parse`)
    `1 cfg naddr addr*` → string of `0`/`1` trust decisions
    `2 cfgA extA table nA req* cfgB extB nB req*` → `n (peer result)*` over both phases
    `3 ntok tok*` → `ntok (0 | 1 ip)*`: `parseIP` of every token
    (kinds 0 and 2: `parse-mismatch tok` when `parseIP` disagrees with a table entry) -/
def runLine (line : String) : String :=
  match parseLine pOp line with
  | none => "bad-op"
  | some (.parses ts) => render (encList (fun t => encOpt (fun ip => [encIP ip]) (parseIP t)) ts)
  | some (.reqs cfg e tbl rs) =>
    if let some t := tableMismatch tbl then render ["parse-mismatch", encStr t]
    else if rs.all (fun r => (neededTokens e r).all (fun t => (tbl.lookup t).isSome)) then
      render (encList (fun r => [encStr (peerOf r.remoteAddr), encStr (realIPCtx e cfg (tableParse tbl) r)]) rs)
    else "missing-parse"
  | some (.table cfg addrs) =>
    String.ofList (addrs.map fun a => if trust cfg a then '1' else '0')
  | some (.replaced cfgA eA tbl rsA cfgB eB rsB) =>
    -- requests under extractor A, then `e.IPExtractor = B`, then requests under B, one Echo instance
    if let some t := tableMismatch tbl then render ["parse-mismatch", encStr t]
    else if rsA.all (fun r => (neededTokens eA r).all (fun t => (tbl.lookup t).isSome)) &&
        rsB.all (fun r => (neededTokens eB r).all (fun t => (tbl.lookup t).isSome)) then
      let steps := Step.setExtractor eA cfgA :: rsA.map Step.serve ++ Step.setExtractor eB cfgB :: rsB.map Step.serve
      let res := runSteps (tableParse tbl) (eA, cfgA) steps
      render (toString res.length :: ((rsA ++ rsB).zip res).flatMap fun (r, x) => [encStr (peerOf r.remoteAddr), encStr x])
    else "missing-parse"

end C10
