import EchoModel.Wire
/-!
# C06, hooks that register hooks (response.go `Before` / `After` / `WriteHeader` / `Write` / `Flush`)

The main C06 model treats hooks as observers.  This small model is about what happens when a
hook itself calls `Response.Before` / `Response.After`:

    func (r *Response) WriteHeader(code int) {
        if r.Committed { warn; return }
        r.Status = code
        for _, fn := range r.beforeFuncs { fn() }      -- the slice is read ONCE, before the loop
        r.Writer.WriteHeader(r.Status); r.Committed = true }
    func (r *Response) Write(b []byte) (n int, err error) {
        if !r.Committed { if r.Status == 0 { r.Status = 200 }; r.WriteHeader(r.Status) }
        n, err = r.Writer.Write(b); r.Size += int64(n)
        for _, fn := range r.afterFuncs { fn() }       -- read AFTER the commit and the write
        return }

Go evaluates the range expression once: a hook appended to the list while the loop runs is not
visited by that loop.  So

* an after-hook registered by a before-hook (i.e. during the commit) is on the list when `Write`
  reads it: it runs after the very write that committed the response;
* a before-hook registered by a before-hook is not run by the loop in progress, and there is no
  later commit: it never runs;
* an after-hook registered by an after-hook runs from the next body write on; it registers its
  child again every time it runs;
* a before-hook registered by an after-hook never runs (the response is committed).

A hook is its id plus the hook it registers when it runs (`kid`, an observer).  The underlying
writer accepts everything (short writes and refusing writers are the main model's subject).
-/
namespace C06H

structure Hook where
  id : Nat
  /-- `some (true, c)`: when it runs it calls `Response.Before(c)`; `some (false, c)`: `After(c)` -/
  kid : Option (Bool × Nat) := none
deriving DecidableEq, Repr, Inhabited

inductive Ev where
  | regB (h : Nat) | regA (h : Nat) | runB (h : Nat) | runA (h : Nat)
  | hdr (c : Nat) | body (k : Nat) | rflush | warn
deriving DecidableEq, Repr, Inhabited

structure St where
  committed : Bool := false
  status : Nat
  size : Nat := 0
  before : List Hook := []
  after : List Hook := []
  hdrs : List Nat := []          -- WriteHeader calls the underlying writer received
  body : Nat := 0                -- body bytes it received
  trace : List Ev := []
deriving DecidableEq, Repr, Inhabited

def init (status0 : Nat) : St := { status := status0 }

def emit (s : St) (e : Ev) : St := { s with trace := s.trace ++ [e] }

/-- `Response.Before(fn)` / `Response.After(fn)` -/
def register (s : St) (isBefore : Bool) (h : Hook) : St :=
  if isBefore then emit { s with before := s.before ++ [h] } (.regB h.id)
  else emit { s with after := s.after ++ [h] } (.regA h.id)

/-- what a hook does beyond being seen: register its child -/
def kidOf (s : St) (h : Hook) : St :=
  match h.kid with
  | none => s
  | some (b, c) => register s b ⟨c, none⟩

def fireB (s : St) (h : Hook) : St := kidOf (emit s (.runB h.id)) h
def fireA (s : St) (h : Hook) : St := kidOf (emit s (.runA h.id)) h

/-- `for _, fn := range r.beforeFuncs { fn() }`: the list as it is NOW; `fireB` may extend
    `s.before`, the loop does not see that -/
def runBefore (s : St) : St := s.before.foldl fireB s

/-- `r.Writer.WriteHeader(r.Status); r.Committed = true` -/
def forward (s : St) : St := emit { s with hdrs := s.hdrs ++ [s.status], committed := true } (.hdr s.status)

def writeHeader (s : St) (c : Nat) : St :=
  if s.committed then emit s .warn
  else forward (runBefore { s with status := c })

def ensureCommitted (s : St) : St :=
  if s.committed then s
  else writeHeader s (if s.status = 0 then 200 else s.status)

/-- `n, err = r.Writer.Write(b); r.Size += int64(n)` -/
def putBody (s : St) (n : Nat) : St := emit { s with body := s.body + n, size := s.size + n } (.body n)

/-- `for _, fn := range r.afterFuncs { fn() }`: the list as it is AFTER commit and write -/
def runAfter (s : St) : St := s.after.foldl fireA s

def write (s : St) (n : Nat) : St := runAfter (putBody (ensureCommitted s) n)

def flush (s : St) : St := emit (ensureCommitted s) .rflush

inductive Op where
  | before (h : Hook)
  | after (h : Hook)
  | writeHeader (c : Nat)       -- also NoContent
  | write (n : Nat)             -- also io.WriteString, one-chunk io.Copy
  | flush
  | blob (c n : Nat)            -- String / Blob: WriteHeader(c), Write(n)
  | json (c k : Nat) (ok : Bool) -- preset (or warn), then Write(k+3) if serialisable
deriving DecidableEq, Repr, Inhabited

def step (s : St) : Op → St
  | .before h => register s true h
  | .after h => register s false h
  | .writeHeader c => writeHeader s c
  | .write n => write s n
  | .flush => flush s
  | .blob c n => write (writeHeader s c) n
  | .json c k ok =>
    let s := if s.committed then emit s .warn else { s with status := c }
    if ok then write s (k + 3) else s

def run (s : St) (prog : List Op) : St := prog.foldl step s

/-! ## wire -/
open Wire

def pHook : P Hook := do
  let id ← nat
  let k ← nat
  match k with
  | 0 => pure ⟨id, none⟩
  | 1 => do let c ← nat; pure ⟨id, some (true, c)⟩
  | 2 => do let c ← nat; pure ⟨id, some (false, c)⟩
  | _ => failure

def pOp : P Op := do
  let k ← nat
  match k with
  | 1 => do let c ← nat; pure (.writeHeader c)
  | 2 => do let n ← nat; pure (.write n)
  | 3 => pure .flush
  | 4 => do let h ← pHook; pure (.before h)
  | 5 => do let h ← pHook; pure (.after h)
  | 6 => do let c ← nat; let k ← nat; let ok ← bool; pure (.json c k ok)
  | 7 => do let c ← nat; let n ← nat; pure (.blob c n)
  | _ => failure

def encEv : Ev → List String
  | .regB h => ["1", toString h]
  | .regA h => ["2", toString h]
  | .runB h => ["3", toString h]
  | .runA h => ["4", toString h]
  | .hdr c => ["5", toString c]
  | .body k => ["7", toString k]
  | .rflush => ["8", "0"]
  | .warn => ["9", "0"]

/-- `status0 nops op*` → `committed status size ncalls body ntrace (code arg)*` -/
def runLine (rest : String) : String :=
  match parseLine (do let p ← nat; let ops ← list pOp; pure (p, ops)) rest with
  | none => "bad-op"
  | some (p, ops) =>
    let s := run (init p) ops
    render ([encBool s.committed, toString s.status, toString s.size, toString s.hdrs.length,
             toString s.body] ++ encList encEv s.trace)

end C06H
