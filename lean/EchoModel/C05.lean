import EchoModel.RouterWire
/-!
# C05 — requests are isolated under context recycling (echo.go ServeHTTP, context.go Reset,
response.go reset, NewContext)

`serve` mirrors `ServeHTTP`: take a context from the pool (any previously returned one, or a
new one sized by the current `maxParam`), `Reset` it, run `Find` on its value slice, let the
handler observe and then dirty it, and put it back (not after a panic).  Registrations may
happen between requests.  The router is a parameter (`RouterFn`); the driver instantiates it
with the radix-tree model `Router.find ∘ Router.build`.
-/
namespace C05
open Router

structure Resp where
  status : Nat := 200
  size : Nat := 0
  committed : Bool := false
  before : List Nat := []     -- registered before-hooks
  after : List Nat := []      -- registered after-hooks
deriving DecidableEq, Repr, Inhabited

/-- the request-scoped part of `echo.context` -/
structure Ctx where
  pvalues : List Str := []
  pnames : List Str := []
  path : Str := []
  query : Option Nat := none          -- cache of the parsed query string (id of the request it came from)
  store : List (Nat × Nat) := []
  logger : Option Nat := none
  resp : Resp := {}
  req : Nat := 0                       -- the request the context currently serves
  handler : Option Nat := none         -- `none` = echo.NotFoundHandler (what `Reset` installs)
deriving DecidableEq, Repr, Inhabited

/-- what a handler does to its context -/
inductive HOp where
  | set (k v : Nat)
  | setParamNames (ns : List Str)
  | setParamValues (vs : List Str)
  | setPath (p : Str)
  | setLogger (l : Nat)
  | queryParam                 -- first use parses and caches the query string
  | writeHeader (code : Nat)
  | write (n : Nat)
  | before (h : Nat)
  | after (h : Nat)
  | panic
  | fail
  | setRequest (q : Nat)       -- `SetRequest`: another request object; the query cache is not touched
  | poisonQuery (v : Nat)      -- the handler edits the map returned by `QueryParams()`
  | setHandler (h : Nat)       -- `SetHandler`
  | setResponse (code : Nat)   -- `SetResponse(NewResponse(..))`, then `WriteHeader(code)` when code > 0
deriving Repr, Inhabited

def blank (n : Nat) : List Str := List.replicate n []

/-- `context.Reset` (with the repair that re-sizes the value slice to the current maxParam)
    together with `Response.reset` -/
def reset (c : Ctx) (req : Nat) (maxParam : Nat) : Ctx :=
  { pvalues := blank (max c.pvalues.length maxParam)
    pnames := [], path := [], query := none, store := [], logger := none, resp := {}, req := req,
    handler := none }

/-- `NewContext` -/
def newCtx (maxParam : Nat) : Ctx := { pvalues := blank maxParam }

/-- one handler op on the context -/
def hstep (c : Ctx) : HOp → Ctx
  | .set k v => { c with store := (k, v) :: c.store.filter (·.1 ≠ k) }
  | .setParamNames ns =>
    { c with pnames := ns,
             pvalues := if c.pvalues.length < ns.length
                        then c.pvalues ++ blank (ns.length - c.pvalues.length) else c.pvalues }
  | .setParamValues vs =>
    if vs.length > c.pvalues.length then { c with pvalues := vs }
    else { c with pvalues := vs ++ c.pvalues.drop vs.length }
  | .setPath p => { c with path := p }
  | .setLogger l => { c with logger := some l }
  | .queryParam => { c with query := match c.query with | some q => some q | none => some c.req }
  | .writeHeader code =>
    if c.resp.committed then c else { c with resp := { c.resp with status := code, committed := true } }
  | .write n =>
    let r := if c.resp.committed then c.resp else { c.resp with committed := true }
    { c with resp := { r with size := r.size + n } }
  | .before h => { c with resp := { c.resp with before := c.resp.before ++ [h] } }
  | .after h => { c with resp := { c.resp with after := c.resp.after ++ [h] } }
  | .panic => c
  | .fail => c
  | .setRequest q => { c with req := q }
  | .poisonQuery v => { c with query := some v }
  | .setHandler h => { c with handler := some h }
  | .setResponse code =>
    if code = 0 then { c with resp := {} } else { c with resp := { status := code, committed := true } }

def isPanic : HOp → Bool | .panic => true | _ => false

/-- run the handler program up to (and including) a panic; returns the context and whether it panicked -/
def hrun (c : Ctx) : List HOp → Ctx × Bool
  | [] => (c, false)
  | op :: ops => if isPanic op then (c, true) else hrun (hstep c op) ops

/-- what the router writes into the context: outcome of `Find` for a value slice of the given length -/
abbrev RouterFn := Str → Str → Nat → Outcome

/-- everything a handler can observe through its context when it starts -/
structure Obs where
  kind : Nat                 -- 0 dispatched, 1 not found, 2 method not allowed, 3 panic in Find
  hid : Nat
  path : Str
  pnames : List Str
  pvalues : List Str
  queryCached : Option Nat
  store : List (Nat × Nat)
  logger : Option Nat
  resp : Resp
deriving DecidableEq, Repr, Inhabited

/-- routing on a reset context and the resulting observation -/
def route (rt : RouterFn) (c : Ctx) (m p : Str) : Ctx × Obs :=
  match rt m p c.pvalues.length with
  | .dispatch rm vals =>
    let c := { c with pnames := rm.pnames, path := rm.ppath, handler := some rm.hid,
                      pvalues := vals ++ c.pvalues.drop vals.length }
    (c, ⟨0, rm.hid, c.path, c.pnames, c.pvalues.take c.pnames.length, c.query, c.store, c.logger, c.resp⟩)
  | .notFound q =>
    -- `Find` returns without touching the handler: what runs is whatever the context holds, i.e. the
    -- NotFoundHandler `Reset` installed -- or a handler left behind, if `Reset` did not clear it
    match c.handler with
    | none => ({ c with path := q }, ⟨1, 0, q, [], [], c.query, c.store, c.logger, c.resp⟩)
    | some h => ({ c with path := q }, ⟨0, h, q, [], [], c.query, c.store, c.logger, c.resp⟩)
  | .methodNotAllowed q _ => ({ c with path := q }, ⟨2, 0, q, [], [], c.query, c.store, c.logger, c.resp⟩)
  | .panic => (c, ⟨3, 0, [], [], [], c.query, c.store, c.logger, c.resp⟩)

structure Request where
  id : Nat
  method : Str
  path : Str
  prog : List HOp
deriving Repr, Inhabited

/-- `ServeHTTP` with a pool that hands out `pooled` (or a new context when `none`) -/
def serveWith (rt : RouterFn) (maxParam : Nat) (pooled : Option Ctx) (r : Request) : Obs × Option Ctx :=
  let c0 := match pooled with | some c => c | none => newCtx maxParam
  let c1 := reset c0 r.id maxParam
  let (c2, obs) := route rt c1 r.method r.path
  if obs.kind = 3 then (obs, none)            -- panic inside Find: the context is not returned
  else
    let (c3, panicked) := hrun c2 r.prog
    (obs, if panicked then none else some c3)

/-! ## sequential histories: requests interleaved with registrations -/

inductive Step where
  | request (r : Request)
  | register (rt : Route)
  | borrow (id : Nat) (prog : List HOp)   -- AcquireContext; Reset; the application's own use; ReleaseContext
deriving Repr, Inhabited

structure World where
  routes : List Route := []
  pool : List Ctx := []       -- most recently returned first (what sync.Pool hands back in one goroutine)
deriving Repr, Inhabited

def routerOf (routes : List Route) : RouterFn :=
  fun m p n => find (build routes) m p (blank (max n 0))

def step (w : World) : Step → World × Option Obs
  | .register rt => ({ w with routes := w.routes ++ [rt] }, none)
  | .request r =>
    let (pooled, rest) := match w.pool with | c :: cs => (some c, cs) | [] => (none, [])
    let (obs, back) := serveWith (routerOf w.routes) (maxParam w.routes) pooled r
    ({ w with pool := match back with | some c => c :: rest | none => rest }, some obs)
  | .borrow id prog =>
    let (c0, rest) := match w.pool with | c :: cs => (c, cs) | [] => (newCtx (maxParam w.routes), [])
    let (c1, panicked) := hrun (reset c0 id (maxParam w.routes)) prog
    ({ w with pool := if panicked then rest else c1 :: rest }, none)

def runSteps (w : World) : List Step → List Obs
  | [] => []
  | s :: ss =>
    let (w', o) := step w s
    match o with
    | some ob => ob :: runSteps w' ss
    | none => runSteps w' ss

/-! ## wire -/
open Wire

def pHOp : P HOp := do
  let k ← nat
  match k with
  | 0 => do let a ← nat; let b ← nat; pure (.set a b)
  | 1 => do let ns ← list str; pure (.setParamNames ns)
  | 2 => do let vs ← list str; pure (.setParamValues vs)
  | 3 => do let p ← str; pure (.setPath p)
  | 4 => do let l ← nat; pure (.setLogger l)
  | 5 => pure .queryParam
  | 6 => do let c ← nat; pure (.writeHeader c)
  | 7 => do let n ← nat; pure (.write n)
  | 8 => do let h ← nat; pure (.before h)
  | 9 => do let h ← nat; pure (.after h)
  | 10 => pure .panic
  | 11 => pure .fail
  | 12 => do let q ← nat; pure (.setRequest q)
  | 13 => do let v ← nat; pure (.poisonQuery v)
  | 14 => do let h ← nat; pure (.setHandler h)
  | 15 => do let c ← nat; pure (.setResponse c)
  | _ => failure

def pStep : P Step := do
  let k ← nat
  match k with
  | 0 => do
    let id ← nat; let m ← str; let p ← str; let prog ← list pHOp
    pure (.request ⟨id, m, p, prog⟩)
  | 1 => do let m ← str; let p ← str; let hid ← nat; pure (.register ⟨m, p, hid⟩)
  | 2 => do let id ← nat; let prog ← list pHOp; pure (.borrow id prog)
  | _ => failure

def encOptNat : Option Nat → List String
  | none => ["-"]
  | some n => [toString n]

def encObs (o : Obs) : List String :=
  [toString o.kind, toString o.hid, encStr o.path] ++ encStrs o.pnames ++ encStrs o.pvalues
    ++ encOptNat o.queryCached
    ++ encList (fun kv => [toString kv.1, toString kv.2]) o.store
    ++ encOptNat o.logger
    ++ [toString o.resp.status, toString o.resp.size, encBool o.resp.committed,
        toString o.resp.before.length, toString o.resp.after.length]

/-- line: `nsteps step*` → the observation of every request, `|`-separated -/
def runLine (line : String) : String :=
  match parseLine (list pStep) line with
  | none => "bad-op"
  | some steps => render ((runSteps {} steps).flatMap fun o => encObs o ++ ["|"])

end C05
