import EchoModel.RouterWire
import EchoModel.RouterSpec
/-!
# C03 — 404 / 405 / OPTIONS contract and the Allow header

`respond` maps the outcome of the reference search to what the client sees when no handler
of the table answers: `NotFoundHandler` (404), `MethodNotAllowedHandler` (405 + Allow) or
`optionsMethodHandler` (204 + Allow) — echo.go:350-358, router.go:524-532, 726-757.
-/
namespace C03
open Wire Router

inductive Answer where
  | handler (hid : Nat) (method : Str)          -- a registered handler runs (incl. custom not-found routes)
  | status (code : Nat) (allow : List Str)      -- the router's own answer
deriving DecidableEq, Repr, Inhabited

def respond (m : Str) : Spec.Outcome → Answer
  | .dispatch e _ => .handler e.hid e.method
  | .notFound => .status 404 []
  | .methodNotAllowed allow => if m = methodOptions then .status 204 allow else .status 405 allow

def answer (rs : List Route) (m path : Str) : Answer := respond m (Spec.routeTable rs m path)

def encAnswer : Answer → List String
  | .handler hid m => ["H", toString hid, encStr m]
  | .status c allow => ["S", toString c] ++ encStrs (sortStrs allow)

/-- line: `table method path` → `H hid method` | `S code n allow*` -/
def runLine (line : String) : String :=
  match parseLine (do let t ← pTable; let m ← str; let p ← str; pure (t, m, p)) line with
  | none => "bad-op"
  | some (t, m, p) => render (encAnswer (answer t m p))

end C03
