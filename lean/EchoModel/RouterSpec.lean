import EchoModel.Router
/-!
# Router, layer L1 — the order-free reference search (specification of C02/C03/C20)

A route is normalised to tokens (`lit c | param | any`; an escaped colon is `lit ':'`, so the
specification — unlike the tree — tells a literal colon from a parameter).  The search is a
derivative-style recursion on the *set* of residual entries: at each position try the
literal next byte, then a named parameter, then the wildcard; when a branch cannot be
completed for the request's method fall back to the next alternative, all the way up.
Everything is defined by filters over the entry list, so the result does not depend on the
order of the list (theorem `C02_perm`).
-/
namespace Router.Spec
open Router

inductive Tok | lit (c : Char) | param | any
deriving DecidableEq, Repr, Inhabited

structure Entry where
  toks : List Tok
  method : Str
  ppath : Str
  pnames : List Str
  hid : Nat
deriving DecidableEq, Repr, Inhabited

/-- tokens and parameter names of a pattern as `Router.insert` reads it: `\:` is a literal
    colon, `:name` runs to the next `/`, `*` ends the pattern (text after it is ignored) -/
def normAux : Nat → Str → List Tok × List Str
  | 0, _ => ([], [])
  | _, [] => ([], [])
  | f + 1, '\\' :: ':' :: rest => let (t, n) := normAux f rest; (.lit ':' :: t, n)
  | f + 1, ':' :: rest =>
    let name := rest.takeWhile (· ≠ '/')
    let (t, n) := normAux f (rest.dropWhile (· ≠ '/'))
    (.param :: t, name :: n)
  | _ + 1, '*' :: _ => ([.any], ["*".toList])
  | f + 1, c :: rest => let (t, n) := normAux f rest; (.lit c :: t, n)

def norm (p : Str) : List Tok × List Str :=
  let p := normalizeSlash p
  normAux (p.length + 1) p

def mkEntry (r : Route) : Entry :=
  let (t, n) := norm r.path
  ⟨t, r.method, normalizeSlash r.path, n, r.hid⟩

/-- residual set: remaining tokens of every entry still compatible with what was read -/
abbrev R := List (List Tok × Entry)

def deriv (t : Tok) (r : R) : R := r.filterMap fun (ts, e) =>
  match ts with
  | t' :: rest => if t' = t then some (rest, e) else none
  | [] => none

/-- entries whose pattern ends exactly here -/
def ends (r : R) : List Entry := r.filterMap fun (ts, e) => if ts.isEmpty then some e else none

def isHandler (es : List Entry) : Bool := es.any (·.method ≠ routeNotFound)
def findM (es : List Entry) (m : Str) : Option Entry :=
  if m = routeNotFound then none else es.find? (·.method = m)
def findNF (es : List Entry) : Option Entry := es.find? (·.method = routeNotFound)

inductive Res where
  | hit (e : Entry) (vals : List Str)
  | miss
deriving Repr, Inhabited

def maxLen (r : R) : Nat := r.foldl (fun a x => max a x.1.length) 0

/-- the documented priority search with full backtracking.  `best` = entries of the first
    position at which the path was matched but not the method (for 405 / custom 404). -/
def search (m : Str) : Nat → R → Str → List Str → Option (List Entry) → Res × Option (List Entry)
  | 0, _, _, _, best => (.miss, best)
  | fuel + 1, r, path, vals, best =>
    let en := ends r
    -- (1) the path ends here
    let best := if path.isEmpty ∧ isHandler en ∧ best.isNone then some en else best
    let early : Option Entry :=
      if path.isEmpty then (if isHandler en then findM en m else findNF en) else none
    match early with
    | some e => (.hit e vals, best)
    | none =>
      -- (2) literal text
      let (res, best) : Res × Option (List Entry) :=
        match path with
        | c :: rest =>
          let rc := deriv (.lit c) r
          if rc.isEmpty then (.miss, best) else search m fuel rc rest vals best
        | [] => (.miss, best)
      match res with
      | .hit e v => (.hit e v, best)
      | .miss =>
        -- (3) named parameter
        let rp := deriv .param r
        let (res, best) : Res × Option (List Entry) :=
          if path.isEmpty ∨ rp.isEmpty then (.miss, best) else
          let leaf := rp.all (·.1.isEmpty)
          let v := if leaf then path else path.takeWhile (· ≠ '/')
          search m fuel rp (path.drop v.length) (vals ++ [v]) best
        match res with
        | .hit e v => (.hit e v, best)
        | .miss =>
          -- (4) wildcard
          let ra := deriv .any r
          if ra.isEmpty then (.miss, best) else
          let ea := ends ra     -- `*` ends a pattern, so every residual here is empty
          match findM ea m with
          | some e => (.hit e (vals ++ [path]), best)
          | none =>
            let best := if best.isNone then some ea else best
            match findNF ea with
            | some e => (.hit e (vals ++ [path]), best)
            | none => (.miss, best)

inductive Outcome where
  | dispatch (e : Entry) (vals : List Str)
  | notFound
  | methodNotAllowed (allow : List Str)
deriving Repr, Inhabited

def allowOf (es : List Entry) : List Str :=
  methodOptions :: ((es.map (·.method)).filter (fun x => x ≠ methodOptions ∧ x ≠ routeNotFound))

def initial (es : List Entry) : R := es.map fun e => (e.toks, e)

def route (es : List Entry) (m : Str) (path : Str) : Outcome :=
  let r := initial es
  let (res, best) := search m (maxLen r + 2) r path [] none
  match res with
  | .hit e v => .dispatch e v
  | .miss =>
    match best with
    | none => .notFound
    | some b =>
      match findNF b with
      | some e => .dispatch e (e.pnames.map fun _ => [])   -- best-node fallback: values are cleared
      | none => if isHandler b then .methodNotAllowed (allowOf b) else .notFound

def routeTable (rs : List Route) (m : Str) (path : Str) : Outcome :=
  route (rs.map mkEntry) m path

end Router.Spec
