import EchoModel.Router
/-!
# Router, layer L1 — the order-free reference search (specification of C02/C03/C20)

A route is normalised to tokens (`lit c | param | any`; an escaped colon is `lit ':'`, so the
specification — unlike the tree — tells a literal colon from a parameter).  The search is a
derivative-style recursion on the *set* of residual entries: at each position try the
literal next byte, then a named parameter, then the wildcard; when a branch cannot be
completed for the request's method fall back to the next alternative, all the way up.
Everything is defined by filters over the entry list, so the result does not depend on the
order of the list (theorem `C02_perm`).
-/
namespace Router.Spec
open Router

inductive Tok | lit (c : Char) | param | any
deriving DecidableEq, Repr, Inhabited

structure Entry where
  toks : List Tok
  method : Str
  ppath : Str
  pnames : List Str
  hid : Nat
deriving DecidableEq, Repr, Inhabited

/-- tokens and parameter names of a pattern as `Router.insert` reads it: `\:` is a literal
    colon, `:name` runs to the next `/`, `*` ends the pattern (text after it is ignored) -/
def normAux : Nat → Str → List Tok × List Str
  | 0, _ => ([], [])
  | _ + 1, [] => ([], [])
  | f + 1, c :: rest =>
    if c = '\\' ∧ rest.head? = some ':' then
      let (t, n) := normAux f rest.tail; (.lit ':' :: t, n)
    else if c = ':' then
      let (t, n) := normAux f (rest.dropWhile (· ≠ '/'))
      (.param :: t, rest.takeWhile (· ≠ '/') :: n)
    else if c = '*' then ([.any], ["*".toList])
    else let (t, n) := normAux f rest; (.lit c :: t, n)

def norm (p : Str) : List Tok × List Str :=
  let p := normalizeSlash p
  normAux (p.length + 1) p

def mkEntry (r : Route) : Entry :=
  let (t, n) := norm r.path
  ⟨t, r.method, normalizeSlash r.path, n, r.hid⟩

/-- residual set: remaining tokens of every entry still compatible with what was read -/
abbrev R := List (List Tok × Entry)

def deriv (t : Tok) (r : R) : R := r.filterMap fun (ts, e) =>
  match ts with
  | t' :: rest => if t' = t then some (rest, e) else none
  | [] => none

/-- entries whose pattern ends exactly here -/
def ends (r : R) : List Entry := r.filterMap fun (ts, e) => if ts.isEmpty then some e else none

def isHandler (es : List Entry) : Bool := es.any (·.method ≠ routeNotFound)
def findM (es : List Entry) (m : Str) : Option Entry :=
  if m = routeNotFound then none else es.find? (·.method = m)
def findNF (es : List Entry) : Option Entry := es.find? (·.method = routeNotFound)

inductive Res where
  | hit (e : Entry) (vals : List Str)
  | miss
deriving DecidableEq, Repr, Inhabited

/-- bound on the depth of the search: no residual is longer than this -/
def bound (r : R) : Nat := (r.map (·.1.length)).sum

abbrev Best := Option (List Entry)

/-- (1) the path ends here: remember the position for 405 / custom 404, match the method -/
def stepEnd (m : Str) (en : List Entry) (path : Str) (best : Best) : Option Entry × Best :=
  if path.isEmpty then
    if isHandler en then (findM en m, if best.isNone then some en else best)
    else (findNF en, best)
  else (none, best)

/-- (4) the wildcard: `ea` = entries ending with `*` at this position -/
def stepAny (m : Str) (ea : List Entry) (path : Str) (vals : List Str) (best : Best) : Res × Best :=
  match findM ea m with
  | some e => (.hit e (vals ++ [path]), best)
  | none =>
    let best := if best.isNone then some ea else best
    match findNF ea with
    | some e => (.hit e (vals ++ [path]), best)
    | none => (.miss, best)

/-- value taken by a named parameter: up to the next `/`, or the whole rest when every
    pattern through this parameter ends right after it (`leaf`) -/
def paramValue (leaf : Bool) (path : Str) : Str :=
  if leaf then path else path.takeWhile (· ≠ '/')

/-- sequencing of alternatives: a hit ends the search, a miss hands the remembered best
    entries on to the next alternative -/
def orElse (x : Res × Best) (k : Best → Res × Best) : Res × Best :=
  match x with
  | (.hit e v, b) => (.hit e v, b)
  | (.miss, b) => k b

/-- (2) literal text: follow the next byte of the path if some pattern continues with it -/
def litStep (k : R → Str → Best → Res × Best) (r : R) (path : Str) (best : Best) : Res × Best :=
  match path with
  | c :: rest => if (deriv (.lit c) r).isEmpty then (.miss, best) else k (deriv (.lit c) r) rest best
  | [] => (.miss, best)

/-- (3) named parameter: needs a non-empty rest of the path -/
def paramStep (k : R → Str → List Str → Best → Res × Best) (r : R) (path : Str) (vals : List Str)
    (best : Best) : Res × Best :=
  if path.isEmpty ∨ (deriv .param r).isEmpty then (.miss, best)
  else
    let v := paramValue ((deriv .param r).all (·.1.isEmpty)) path
    k (deriv .param r) (path.drop v.length) (vals ++ [v]) best

/-- (4) wildcard (`*` ends a pattern, so every residual after it is empty) -/
def anyStep (m : Str) (r : R) (path : Str) (vals : List Str) (best : Best) : Res × Best :=
  if (deriv .any r).isEmpty then (.miss, best)
  else stepAny m (ends (deriv .any r)) path vals best

/-- the documented priority search with full backtracking.  `best` = entries of the first
    position at which the path was matched but not the method (for 405 / custom 404). -/
def search (m : Str) : Nat → R → Str → List Str → Best → Res × Best
  | 0, _, _, _, best => (.miss, best)
  | fuel + 1, r, path, vals, best =>
    match stepEnd m (ends r) path best with
    | (some e, best) => (.hit e vals, best)
    | (none, best) =>
      orElse (litStep (fun r' rest b => search m fuel r' rest vals b) r path best) fun best =>
      orElse (paramStep (fun r' rest vals' b => search m fuel r' rest vals' b) r path vals best) fun best =>
      anyStep m r path vals best

inductive Outcome where
  | dispatch (e : Entry) (vals : List Str)
  | notFound
  | methodNotAllowed (allow : List Str)
deriving DecidableEq, Repr, Inhabited

def allowOf (es : List Entry) : List Str :=
  methodOptions :: ((es.map (·.method)).filter (fun x => x ≠ methodOptions ∧ x ≠ routeNotFound))

def initial (es : List Entry) : R := es.map fun e => (e.toks, e)

/-- the tail of `Find`: a hit is dispatched; otherwise the best position decides between the
    custom not-found route (its values are cleared by then), 405 and 404 -/
def finish : Res × Best → Outcome
  | (.hit e v, _) => .dispatch e v
  | (.miss, none) => .notFound
  | (.miss, some b) =>
    match findNF b with
    | some e => .dispatch e (e.pnames.map fun _ => [])
    | none => if isHandler b then .methodNotAllowed (allowOf b) else .notFound

def route (es : List Entry) (m : Str) (path : Str) : Outcome :=
  finish (search m (bound (initial es) + 1) (initial es) path [] none)

def routeTable (rs : List Route) (m : Str) (path : Str) : Outcome :=
  route (rs.map mkEntry) m path

end Router.Spec
