import EchoModel.Wire
/-!
# C06, a Response whose writer is itself a Response (echo mounted inside echo)

`echo.WrapHandler(inner)` — or any handler that re-dispatches with
`inner.ServeHTTP(c.Response(), c.Request())`, `inner.NewContext(req, c.Response())`,
`ctx.Reset(req, c.Response())` — hands the OUTER `*echo.Response` to the inner application as its
`http.ResponseWriter`.  The inner `Response` then is just another client of the outer one's three
methods:

    func (r *Response) WriteHeader(code int) {
        if r.Committed { warn; return }
        r.Status = code
        for _, fn := range r.beforeFuncs { fn() }
        r.Writer.WriteHeader(r.Status)            -- r.Writer is the next Response further out
        r.Committed = true }
    func (r *Response) Write(b []byte) (n int, err error) {
        if !r.Committed { if r.Status == 0 { r.Status = 200 }; r.WriteHeader(r.Status) }
        n, err = r.Writer.Write(b); r.Size += int64(n)
        for _, fn := range r.afterFuncs { fn() }; return }
    func (r *Response) Flush() {
        if !r.Committed { ...; r.WriteHeader(r.Status) }
        http.NewResponseController(r.Writer).Flush() }   -- finds the outer Response's Flush

The model is a tower of any height: layer 0 wraps the underlying writer, layer `k+1` wraps layer
`k`.  `wh k` / `wr k` / `fl k` are "WriteHeader / Write / Flush is called on writer number `k`",
writer 0 being the underlying writer and writer `k+1` Response layer `k`; they recurse downwards.
Hooks are observers (ids); the underlying writer accepts everything (short writes, refusing
writers, hooks that register hooks are the subject of the other two C06 models).  A handler
program may address every layer (a middleware of the outer application holds the outer context,
the inner handler the inner one).
-/
namespace C06N

structure Layer where
  committed : Bool := false
  status : Nat
  size : Nat := 0
  before : List Nat := []
  after : List Nat := []
deriving DecidableEq, Repr, Inhabited

inductive Ev where
  | regB (l h : Nat) | regA (l h : Nat) | runB (l h : Nat) | runA (l h : Nat)
  | hdr (c : Nat) | body (k : Nat) | rflush | warn (l : Nat)
deriving DecidableEq, Repr, Inhabited

structure St where
  /-- layer 0 is the Response around the underlying writer, layer `k+1` the one around layer `k` -/
  layer : Nat → Layer
  hdrs : List Nat := []          -- WriteHeader calls the underlying writer received
  body : Nat := 0                -- body bytes it received
  flushes : Nat := 0
  trace : List Ev := []

def init (status0 : Nat → Nat) : St := { layer := fun k => { status := status0 k } }

def emit (s : St) (e : Ev) : St := { s with trace := s.trace ++ [e] }
def emits (s : St) (es : List Ev) : St := { s with trace := s.trace ++ es }
def setLayer (s : St) (k : Nat) (l : Layer) : St :=
  { s with layer := fun j => if j = k then l else s.layer j }

/-- `WriteHeader(c)` is called on writer number `k` -/
def wh : Nat → St → Nat → St
  | 0, s, c => emit { s with hdrs := s.hdrs ++ [c] } (.hdr c)
  | k + 1, s, c =>
    if (s.layer k).committed then emit s (.warn k)
    else
      let s1 := emits s ((s.layer k).before.map (.runB k))      -- range over beforeFuncs
      let s2 := wh k (setLayer s1 k { s1.layer k with status := c }) c   -- r.Writer.WriteHeader(r.Status)
      setLayer s2 k { s2.layer k with committed := true }

/-- the implicit commit of layer `k` at the start of its `Write` / `Flush` -/
def commit (k : Nat) (s : St) : St :=
  if (s.layer k).committed then s
  else wh (k + 1) s (if (s.layer k).status = 0 then 200 else (s.layer k).status)

/-- `Write(n bytes)` is called on writer number `k` -/
def wr : Nat → St → Nat → St
  | 0, s, n => emit { s with body := s.body + n } (.body n)
  | k + 1, s, n =>
    let s2 := wr k (commit k s) n
    let s3 := setLayer s2 k { s2.layer k with size := (s2.layer k).size + n }
    emits s3 ((s3.layer k).after.map (.runA k))                 -- range over afterFuncs

/-- `Flush()` is called on writer number `k` -/
def fl : Nat → St → St
  | 0, s => emit { s with flushes := s.flushes + 1 } .rflush
  | k + 1, s => fl k (commit k s)

/-- handler operations, each addressed to Response layer `k` -/
inductive Op where
  | before (k h : Nat)
  | after (k h : Nat)
  | writeHeader (k c : Nat)        -- also NoContent
  | write (k n : Nat)              -- also io.WriteString, one-chunk io.Copy
  | flush (k : Nat)
  | blob (k c n : Nat)             -- String / Blob: WriteHeader(c), Write(n)
  | json (k c n : Nat) (ok : Bool) -- preset (or warn), then Write(n+3) if serialisable
deriving DecidableEq, Repr, Inhabited

def step (s : St) : Op → St
  | .before k h => emit (setLayer s k { s.layer k with before := (s.layer k).before ++ [h] }) (.regB k h)
  | .after k h => emit (setLayer s k { s.layer k with after := (s.layer k).after ++ [h] }) (.regA k h)
  | .writeHeader k c => wh (k + 1) s c
  | .write k n => wr (k + 1) s n
  | .flush k => fl (k + 1) s
  | .blob k c n => wr (k + 1) (wh (k + 1) s c) n
  | .json k c n ok =>
    let s := if (s.layer k).committed then emit s (.warn k)
             else setLayer s k { s.layer k with status := c }
    if ok then wr (k + 1) s (n + 3) else s

def run (s : St) (prog : List Op) : St := prog.foldl step s

/-! ## wire -/
open Wire

def pOp : P Op := do
  let t ← nat
  let k ← nat
  match t with
  | 1 => do let c ← nat; pure (.writeHeader k c)
  | 2 => do let n ← nat; pure (.write k n)
  | 3 => pure (.flush k)
  | 4 => do let h ← nat; pure (.before k h)
  | 5 => do let h ← nat; pure (.after k h)
  | 6 => do let c ← nat; let n ← nat; let ok ← bool; pure (.json k c n ok)
  | 7 => do let c ← nat; let n ← nat; pure (.blob k c n)
  | _ => failure

def encEv : Ev → List String
  | .regB l h => ["1", toString l, toString h]
  | .regA l h => ["2", toString l, toString h]
  | .runB l h => ["3", toString l, toString h]
  | .runA l h => ["4", toString l, toString h]
  | .hdr c => ["5", "0", toString c]
  | .body k => ["7", "0", toString k]
  | .rflush => ["8", "0", "0"]
  | .warn l => ["9", toString l, "0"]

def encLayer (l : Layer) : List String := [encBool l.committed, toString l.status, toString l.size]

/-- `nlayers status0* nops op*` (op = `kind layer args`) →
    `(committed status size)* ncalls body flushes ntrace (code layer arg)*` -/
def runLine (rest : String) : String :=
  match parseLine (do let p ← list nat; let ops ← list pOp; pure (p, ops)) rest with
  | none => "bad-op"
  | some (p, ops) =>
    let s := run (init fun k => p.getD k 200) ops
    render (((List.range p.length).map fun k => encLayer (s.layer k)).flatten
      ++ [toString s.hdrs.length, toString s.body, toString s.flushes] ++ encList encEv s.trace)

end C06N
