import EchoModel.Wire
/-!
# C08 — text → number conversion in both binders (bind.go, binder.go)

What is modelled

* `strconv.ParseUint(s, 10, bits)` / `strconv.ParseInt(s, 10, bits)` / `strconv.ParseBool`:
  implemented here (`parseUint`, `parseInt`, `parseBool`) following the Go source (digit loop
  with the `cutoff` / `maxVal` checks, sign handling, the two signed cut-offs); validated on
  every run by the correspondence harness.  Both error kinds of strconv (syntax, range) are one
  outcome `none`: echo maps both to the same 400-class error.
* every code site of echo where an integer bit size is written next to a destination type
  (`Dest`): the arms of `setWithProperType` (struct binder), the ~24 public scalar methods of
  `ValueBinder` (`Int8 … MustUint`, `Byte`, `MustByte`), the arms of `ValueBinder.ints` /
  `uints` (shared by `Int8s …`, `MustInt8s …` and `BindWithDelimiter`), and `unixTime`.
  `Dest.bits` is the literal written in the code, `Dest.ty` the Go type the value is finally
  converted to (`int8(n)`, `reflect.Value.SetInt` …), `narrow` that conversion
  (two's-complement truncation).  The same for the float sites (`FSite`).
* `strconv.ParseFloat` and `time.ParseDuration` are NOT implemented: they are a parameter
  `Ext` (key 32 / 64 = `ParseFloat(s, key)` rendered at that width, key 1 = `ParseDuration`
  in ns).  The harness supplies their answers with each case; theorems hold for every `Ext`.
* the `ValueBinder` state machine: `errors` (only its length is observable), `failFast`,
  scalar / slice / delimiter calls, `Must*`, `BindError`, `BindErrors`, `FailFast`.
* the struct binder on a flat destination (one entry per tagged field, with the value it holds
  BEFORE binding — destinations may be pre-populated — and the texts the source carries for its
  key, if any): scalar, pointer, slice, slice of pointers, pointer to slice; a present key
  always overwrites (empty text stores 0 / false / 0.0); first error aborts the walk; two
  sources in sequence (`structBind2`: path params, then the query string, as `Bind` does on
  GET).  (The walk over arbitrary shapes, tags and sources is C09's model.)

Round 4
* `Time` / `MustTime` / `Times` / `MustTimes` (`Elem.time layout`): the same call skeletons as
  `Duration(s)`; `time.Parse(layout, s)` is an external parser (`Ext` key `100 + layout`, the
  layouts of a case are numbered by the harness).
* `CustomFunc` / `MustCustomFunc` (`Op.custom`): the user function is a parameter — the op
  carries what it WOULD do if invoked on the values (the destination it leaves and the number
  of errors it returns, computed by the harness by calling the function on its own); the model
  decides whether it is invoked (not when frozen, not when the parameter is absent) and
  appends all returned errors.
* struct binder: destinations implementing the multi-value interface `UnmarshalParams([]string)`
  (`Wrap.multi`, `Wrap.ptrMulti`): `unmarshalInputsToField` hands ALL values over, before
  `inputValue[0]` is touched (so an empty value list does not panic there).

Round 5
* `Elem.named k`: a NAMED type of builtin kind (int, uint, float, bool, string) that implements
  `BindUnmarshaler` / `TextUnmarshaler`.  Everywhere in the struct binder — scalar, `*T`, and every
  ELEMENT of `[]T`, `[]*T`, `*[]T` (`setWithProperType` asks `unmarshalInputToField` first, for every
  kind) — the text is converted by the type's own method, never by strconv, and an empty text is
  handed to the method as it is (no `"0"` default).  The method is an external parser (`Ext` key
  `200 + k`, answers computed by the harness by calling the method on a fresh value).
* the three constructors (`Ctor`, `newBinder`): `QueryParamsBinder`, `PathParamsBinder`,
  `FormFieldBinder` all start with no errors and fail-fast ON; a chain may run without any
  `FailFast` call (wire case 3).

Round 7
* `VB.efNil` / `VB.firstNil`: the public `ErrorFunc` may return nil.  `setError` records whatever it
  returns, so the count — and with it the fail-fast test and the slice guard `b.errors == nil` —
  does not depend on it; only `BindError()` (which hands out `errors[0]`) does.

Platform assumption: `int`/`uint` are 64 bits (`strconv.IntSize = 64`).
-/
namespace C08

/-! ## strconv -/

def digit? (c : Char) : Option Nat :=
  if 48 ≤ c.toNat ∧ c.toNat ≤ 57 then some (c.toNat - 48) else none

/-- `bitSize == 0` means `IntSize` -/
def effBits (b : Nat) : Nat := if b = 0 then 64 else b

/-- `maxUint64/10 + 1`: the `cutoff` of ParseUint for base 10 -/
def cutoff10 : Nat := 1844674407370955162

def two64 : Nat := 18446744073709551616

/-- the digit loop of `strconv.ParseUint(s, 10, bitSize)`; `n` is the accumulator.  A byte
    that is not `0..9` is a syntax error in base 10 (letters are digits ≥ base, `_` is only
    legal with base 0); `n ≥ cutoff` or `n*10+d` wrapping or exceeding `maxVal` is a range error;
    the function returns at the FIRST of these. -/
def puLoop (maxVal : Nat) : Nat → List Char → Option Nat
  | n, [] => some n
  | n, c :: cs =>
    match digit? c with
    | none => none
    | some d =>
      if n ≥ cutoff10 then none
      else
        let n1 := n * 10 + d
        if n1 ≥ two64 ∨ n1 > maxVal then none else puLoop maxVal n1 cs

def parseUint (s : List Char) (bits : Nat) : Option Nat :=
  if s = [] then none else puLoop (2 ^ effBits bits - 1) 0 s

/-- the two cut-off tests of `strconv.ParseInt` on the magnitude, then the sign -/
def applySign (neg : Bool) (bits : Nat) (un : Nat) : Option Int :=
  let cutoff := 2 ^ (effBits bits - 1)
  if neg = false ∧ un ≥ cutoff then none
  else if neg = true ∧ un > cutoff then none
  else some (if neg = true then - (un : Int) else (un : Int))

/-- `strconv.ParseInt(s, 10, bitSize)`: optional sign, `ParseUint` of the rest with the same
    bit size (a range error there yields `maxVal`, which then fails the cut-off test, so every
    error of ParseUint is an error of ParseInt), then the two cut-off tests. -/
def parseInt (s : List Char) (bits : Nat) : Option Int :=
  match s with
  | [] => none
  | c :: r =>
    let body := if c = '+' ∨ c = '-' then r else s
    (parseUint body bits).bind (applySign (decide (c = '-')) bits)

def parseBool (s : List Char) : Option Bool :=
  if s = ['1'] ∨ s = ['t'] ∨ s = ['T'] ∨ s = ['T','R','U','E'] ∨ s = ['t','r','u','e']
      ∨ s = ['T','r','u','e'] then some true
  else if s = ['0'] ∨ s = ['f'] ∨ s = ['F'] ∨ s = ['F','A','L','S','E']
      ∨ s = ['f','a','l','s','e'] ∨ s = ['F','a','l','s','e'] then some false
  else none

/-! ## destinations: every code site that pairs a bit size with a Go type -/

/-- Go integer types by width class (signedness comes from the site) -/
inductive ITy where
  | w8 | w16 | w32 | w64 | wInt
deriving DecidableEq, Repr, Inhabited

def ITy.width : ITy → Nat
  | .w8 => 8 | .w16 => 16 | .w32 => 32 | .w64 => 64 | .wInt => 64

inductive Dest where
  | structInt (t : ITy)                -- bind.go setWithProperType: case reflect.Int…Int64
  | structUint (t : ITy)               -- bind.go setWithProperType: case reflect.Uint…Uint64
  | vbInt (t : ITy) (must : Bool)      -- binder.go Int64/MustInt64 … Int/MustInt
  | vbUint (t : ITy) (must : Bool)     -- binder.go Uint64/MustUint64 … Uint/MustUint
  | vbByte (must : Bool)               -- binder.go Byte/MustByte
  | vbInts (t : ITy)                   -- binder.go ints: case *[]int64 …   (Int64s, MustInt64s, BindWithDelimiter)
  | vbUints (t : ITy)                  -- binder.go uints: case *[]uint64 …
  | vbUnix                             -- binder.go unixTime (UnixTime, UnixTimeMilli, UnixTimeNano and Must*)
deriving DecidableEq, Repr, Inhabited

def Dest.signed : Dest → Bool
  | .structInt _ | .vbInt _ _ | .vbInts _ | .vbUnix => true
  | .structUint _ | .vbUint _ _ | .vbByte _ | .vbUints _ => false

/-- the Go type the parsed number is converted to -/
def Dest.ty : Dest → ITy
  | .structInt t | .structUint t | .vbInt t _ | .vbUint t _ | .vbInts t | .vbUints t => t
  | .vbByte _ => .w8
  | .vbUnix => .w64

/-- the bit size literal written in the code at that site (one line per site) -/
def Dest.bits : Dest → Nat
  | .structInt .wInt => 0          -- setIntField(val, 0, …)
  | .structInt .w8 => 8
  | .structInt .w16 => 16
  | .structInt .w32 => 32
  | .structInt .w64 => 64
  | .structUint .wInt => 0         -- setUintField(val, 0, …)
  | .structUint .w8 => 8
  | .structUint .w16 => 16
  | .structUint .w32 => 32
  | .structUint .w64 => 64
  | .vbInt .w64 false => 64        -- Int64
  | .vbInt .w64 true => 64         -- MustInt64
  | .vbInt .w32 false => 32        -- Int32
  | .vbInt .w32 true => 32         -- MustInt32
  | .vbInt .w16 false => 16        -- Int16
  | .vbInt .w16 true => 16         -- MustInt16
  | .vbInt .w8 false => 8          -- Int8
  | .vbInt .w8 true => 8           -- MustInt8
  | .vbInt .wInt false => 0        -- Int
  | .vbInt .wInt true => 0         -- MustInt
  | .vbUint .w64 false => 64       -- Uint64
  | .vbUint .w64 true => 64        -- MustUint64
  | .vbUint .w32 false => 32       -- Uint32
  | .vbUint .w32 true => 32        -- MustUint32
  | .vbUint .w16 false => 16       -- Uint16
  | .vbUint .w16 true => 16        -- MustUint16
  | .vbUint .w8 false => 8         -- Uint8
  | .vbUint .w8 true => 8          -- MustUint8
  | .vbUint .wInt false => 0       -- Uint
  | .vbUint .wInt true => 0        -- MustUint
  | .vbByte false => 8             -- Byte
  | .vbByte true => 8              -- MustByte
  | .vbInts .w64 => 64             -- ints: case *[]int64
  | .vbInts .w32 => 32
  | .vbInts .w16 => 16
  | .vbInts .w8 => 8
  | .vbInts .wInt => 0
  | .vbUints .w64 => 64            -- uints: case *[]uint64
  | .vbUints .w32 => 32
  | .vbUints .w16 => 16
  | .vbUints .w8 => 8
  | .vbUints .wInt => 0
  | .vbUnix => 64                  -- unixTime: strconv.ParseInt(value, 10, 64)

/-- Go conversion of an `int64` to a signed type of `w` bits -/
def wrapS (w : Nat) (v : Int) : Int := (v + 2 ^ (w - 1)) % 2 ^ w - 2 ^ (w - 1)

/-- Go conversion of a `uint64` to an unsigned type of `w` bits -/
def wrapU (w : Nat) (v : Int) : Int := v % 2 ^ w

/-- `int8(n)`, `uint16(n)`, `reflect.Value.SetInt` …: what the destination holds afterwards -/
def narrow (d : Dest) (v : Int) : Int :=
  if d.signed then wrapS d.ty.width v else wrapU d.ty.width v

/-- parse with the site's bit size, convert to the site's type -/
def bindNum (d : Dest) (s : List Char) : Option Int :=
  if d.signed then (parseInt s d.bits).map (narrow d)
  else (parseUint s d.bits).map (fun (n : Nat) => narrow d (n : Int))

/-! ### float sites -/

inductive FTy where
  | f32 | f64
deriving DecidableEq, Repr, Inhabited

def FTy.width : FTy → Nat
  | .f32 => 32 | .f64 => 64

inductive FSite where
  | struct (t : FTy)               -- setWithProperType: case reflect.Float32 / Float64
  | vb (t : FTy) (must : Bool)     -- Float64 / MustFloat64 / Float32 / MustFloat32
  | vbs (t : FTy)                  -- floats: case *[]float64 / *[]float32
deriving DecidableEq, Repr, Inhabited

def FSite.ty : FSite → FTy
  | .struct t | .vb t _ | .vbs t => t

def FSite.bits : FSite → Nat
  | .struct .f32 => 32
  | .struct .f64 => 64
  | .vb .f64 false => 64           -- Float64
  | .vb .f64 true => 64            -- MustFloat64
  | .vb .f32 false => 32           -- Float32
  | .vb .f32 true => 32            -- MustFloat32
  | .vbs .f64 => 64
  | .vbs .f32 => 32

/-! ## element conversion -/

/-- external parsers: key 32 / 64 → `strconv.ParseFloat(s, key)` (result rendered at that width),
    key 1 → `time.ParseDuration(s)` (nanoseconds, decimal).  `none` = the parser reported an error. -/
abbrev Ext := Nat → List Char → Option (List Char)

inductive SVal where
  | int (v : Int)
  | bool (b : Bool)
  | opq (s : List Char)      -- float / duration / string / unmarshaler payload, rendered
deriving DecidableEq, Repr, Inhabited

inductive Elem where
  | num (d : Dest)
  | bool
  | float (f : FSite)
  | dur
  | str
  | unm          -- BindUnmarshaler / TextUnmarshaler of the harness: stores the text, fails iff it starts with `!`
  | time (layout : Nat)   -- Time / MustTime / Times / MustTimes with the case's layout number `layout`
  | named (k : Nat)       -- named type of builtin kind with its own UnmarshalParam / UnmarshalText (struct binder)
deriving DecidableEq, Repr, Inhabited

def parseElem (ext : Ext) : Elem → List Char → Option SVal
  | .num d, s => (bindNum d s).map .int
  | .bool, s => (parseBool s).map .bool
  | .float f, s => (ext f.bits s).map .opq
  | .dur, s => (ext 1 s).map .opq
  | .str, s => some (.opq s)
  | .unm, s => if s.head? = some '!' then none else some (.opq s)
  | .time l, s => (ext (100 + l) s).map .opq
  | .named k, s => (ext (200 + k) s).map .opq

/-- canonical zero value of the harness's named types: 0 hex id, 1 percent, 2 on/off flag, 3 word, 4 ratio -/
def namedZero : Nat → List Char
  | 2 => ['f','a','l','s','e']
  | 3 => []
  | _ => ['0']

def zeroOf : Elem → SVal
  | .num _ => .int 0
  | .bool => .bool false
  | .float _ => .opq ['0']
  | .dur => .opq ['0']
  | .str => .opq []
  | .unm => .opq []
  | .time _ => .opq []
  | .named k => .opq (namedZero k)

/-! ## ValueBinder -/

structure VB where
  errors : Nat        -- len(b.errors)
  failFast : Bool
  efNil : Bool        -- configuration (round 7): the application's `ErrorFunc` returns nil
  firstNil : Bool     -- `b.errors[0] == nil` (meaningful only while `errors ≠ 0`): what `BindError()` hands out
deriving DecidableEq, Repr, Inhabited

/-- a binder with the default `ErrorFunc` -/
def vb (n : Nat) (ff : Bool) : VB := ⟨n, ff, false, false⟩

/-- `b.setError(b.ErrorFunc(…))`: WHATEVER the ErrorFunc returns — nil included — is recorded
    (`if b.errors == nil { b.errors = []error{err} } else append`), so `b.errors != nil` afterwards -/
def VB.addErr (b : VB) : VB :=
  { b with errors := b.errors + 1, firstNil := if b.errors = 0 then b.efNil else b.firstNil }

/-- `b.errors = append(b.errors, errs...)` for the `n` (non-nil) errors a custom function returned -/
def VB.addCustom (b : VB) (n : Nat) : VB :=
  if n = 0 then b
  else { b with errors := b.errors + n, firstNil := if b.errors = 0 then false else b.firstNil }

/-- the public constructors of a value binder -/
inductive Ctor where
  | query     -- QueryParamsBinder
  | path      -- PathParamsBinder
  | form      -- FormFieldBinder
deriving DecidableEq, Repr, Inhabited

/-- what each constructor returns: no errors, fail-fast enabled ("Enabled by default") — one line per
    constructor, as in the code -/
def newBinder : Ctor → VB
  | .query => ⟨0, true, false, false⟩
  | .path => ⟨0, true, false, false⟩
  | .form => ⟨0, true, false, false⟩

/-- `b.failFast && b.errors != nil` -/
def VB.frozen (b : VB) : Bool := b.failFast && b.errors != 0

inductive Shape where
  | scalar | slice | delim
deriving DecidableEq, Repr, Inhabited

inductive DVal where
  | scalar (v : SVal)
  | slice (vs : Option (List SVal))      -- none = nil slice
deriving DecidableEq, Repr, Inhabited

structure Call where
  elem : Elem
  shape : Shape
  must : Bool
  supported : Bool              -- delimiter calls only: false = a destination type outside the switch
  values : List (List Char)     -- what ValuesFunc returns ([] = parameter absent); ValueFunc = first or ""
  delim : List Char
  init : DVal
deriving Repr, Inhabited

/-- `strings.Split(s, d)` for a non-empty `d` (the harness never compares empty delimiters):
    `skip` counts the remaining bytes of a delimiter occurrence being consumed -/
def splitGo (d : List Char) : List Char → Nat → List Char → List (List Char)
  | [], _, cur => [cur.reverse]
  | _ :: r, skip + 1, cur => splitGo d r skip cur
  | c :: r, 0, cur =>
    if d.isPrefixOf (c :: r) then cur.reverse :: splitGo d r (d.length - 1) []
    else splitGo d r 0 (c :: cur)

def split (d s : List Char) : List (List Char) := splitGo d s 0 []

/-- `intValue` / `uintValue` / `boolValue` / `floatValue` / `duration` / `unixTime` /
    `String` / `MustString` -/
def scalarCall (ext : Ext) (b : VB) (c : Call) : VB × DVal :=
  if b.frozen then (b, c.init)
  else
    let value := c.values.headD []
    if value = [] then ((if c.must then b.addErr else b), c.init)
    else
      match parseElem ext c.elem value with
      | none => (b.addErr, c.init)
      | some v => (b, .scalar v)

/-- the element loop of `ints` / `uints` / `bools` / `floats` / `durations`: convert into the
    temporary; after every element `if b.failFast && b.errors != nil { return b }`.
    Result: the state and `some tmp` if the loop ran to its end (`tmp` lists the converted
    elements; slots of failed elements are irrelevant because `tmp` is then never assigned). -/
def sliceLoop (ext : Ext) (e : Elem) : VB → List (List Char) → VB × Option (List SVal)
  | b, [] => (b, some [])
  | b, v :: vs =>
    match parseElem ext e v with
    | some x =>
      if b.frozen then (b, none)
      else
        let r := sliceLoop ext e b vs
        (r.1, r.2.map (x :: ·))
    | none =>
      let b1 := b.addErr
      if b1.frozen then (b1, none)
      else
        let r := sliceLoop ext e b1 vs
        (r.1, r.2.map (zeroOf e :: ·))

/-- `ints(sourceParam, values, dest)` and siblings: loop, then `if b.errors == nil { *d = tmp }` -/
def sliceAssign (ext : Ext) (b : VB) (e : Elem) (values : List (List Char)) (init : DVal) : VB × DVal :=
  match sliceLoop ext e b values with
  | (b1, none) => (b1, init)
  | (b1, some tmp) => if b1.errors = 0 then (b1, .slice (some tmp)) else (b1, init)

/-- `intsValue` / … / `Strings` / `MustStrings` -/
def sliceCall (ext : Ext) (b : VB) (c : Call) : VB × DVal :=
  if b.frozen then (b, c.init)
  else if c.values = [] then ((if c.must then b.addErr else b), c.init)
  else
    match c.elem with
    | .str => (b, .slice (some (c.values.map .opq)))      -- Strings: *dest = value, whatever b.errors is
    | e => sliceAssign ext b e c.values c.init

/-- `bindWithDelimiter` -/
def delimCall (ext : Ext) (b : VB) (c : Call) : VB × DVal :=
  if b.frozen then (b, c.init)
  else if c.values = [] then ((if c.must then b.addErr else b), c.init)
  else
    let tmpValues := c.values.flatMap (split c.delim)
    if ¬ c.supported then (b.addErr, c.init)                 -- default: "unsupported bind type"
    else
      match c.elem with
      | .str => (b, .slice (some (tmpValues.map .opq)))      -- case *[]string: *d = tmpValues
      | e => sliceAssign ext b e tmpValues c.init

def callStep (ext : Ext) (b : VB) (c : Call) : VB × DVal :=
  match c.shape with
  | .scalar => scalarCall ext b c
  | .slice => sliceCall ext b c
  | .delim => delimCall ext b c

/-- a `CustomFunc` / `MustCustomFunc` call.  `result` / `errs`: what the user function does when
    it is invoked on `values` (destination afterwards, number of errors returned) -/
structure Custom where
  must : Bool
  values : List (List Char)     -- what ValuesFunc returns
  init : DVal
  result : DVal
  errs : Nat
deriving Repr, Inhabited

/-- `customFunc`: fail-fast guard, absent ⇒ (Must: one error) and the function is NOT invoked,
    otherwise invoke it once and append every error it returns -/
def customStep (b : VB) (c : Custom) : VB × DVal :=
  if b.frozen then (b, c.init)
  else if c.values = [] then ((if c.must then b.addErr else b), c.init)
  else (b.addCustom c.errs, c.result)

inductive Op where
  | call (c : Call)
  | custom (c : Custom)
  | failFast (v : Bool)
  | bindError
  | bindErrors
deriving Repr, Inhabited

inductive Out where
  | call (dest : DVal) (newErrors : Nat)
  | nothing
  | err (present : Bool)       -- BindError() != nil
  | errs (n : Nat)             -- len(BindErrors())
deriving DecidableEq, Repr, Inhabited

def vbStep (ext : Ext) (b : VB) : Op → VB × Out
  | .call c =>
    let r := callStep ext b c
    (r.1, .call r.2 (r.1.errors - b.errors))
  | .custom c =>
    let r := customStep b c
    (r.1, .call r.2 (r.1.errors - b.errors))
  | .failFast v => ({ b with failFast := v }, .nothing)
  | .bindError => ({ b with errors := 0 }, .err (b.errors != 0 && !b.firstNil))   -- returns errors[0], which may be nil
  | .bindErrors => ({ b with errors := 0 }, .errs b.errors)

def vbRun (ext : Ext) : VB → List Op → List Out
  | _, [] => []
  | b, o :: os => let r := vbStep ext b o; r.2 :: vbRun ext r.1 os

/-! ## struct binder on a flat destination -/

inductive Wrap where
  | scalar | ptr | slice | sliceOfPtr | ptrToSlice
  | multi | ptrMulti      -- T / *T with T implementing `UnmarshalParams([]string)` only
deriving DecidableEq, Repr, Inhabited

inductive FVal where
  | one (v : SVal)              -- scalar, or non-nil pointer to a scalar
  | nil                         -- nil pointer / nil slice
  | many (vs : List SVal)       -- slice (elements dereferenced)
  | ptrNil                      -- non-nil pointer to a nil slice
deriving DecidableEq, Repr, Inhabited

structure Field where
  wrap : Wrap
  elem : Elem
  init : FVal                            -- what the field holds before binding (destinations may be pre-populated)
  values : Option (List (List Char))     -- data[tag]; none = the source has no key for this field
deriving Repr, Inhabited

/-- `setIntField` & co: empty text is replaced by "0" / "false" / "0.0" before parsing -/
def emptyDefault : Elem → List Char
  | .num _ => ['0']
  | .bool => ['f','a','l','s','e']
  | .float _ => ['0','.','0']
  | _ => []

/-- `setWithProperType` for one text -/
def structElem (ext : Ext) (e : Elem) (s : List Char) : Option SVal :=
  parseElem ext e (if s = [] then emptyDefault e else s)

def structElems (ext : Ext) (e : Elem) : List (List Char) → Option (List SVal)
  | [] => some []
  | s :: ss =>
    match structElem ext e s with
    | none => none
    | some v => (structElems ext e ss).map (v :: ·)

/-- the harness's `UnmarshalParams`: stores all values; fails, before writing, iff one starts with `!` -/
def multiParse (values : List (List Char)) : Option (List SVal) :=
  if values.any (fun s => s.head? = some '!') then none else some (values.map .opq)

inductive FOut where
  | ok (v : FVal)
  | err (v : FVal)      -- the walk stops with a 400; `v` is what the field holds then
  | panic               -- `inputValue[0]` on an empty value list (not producible by net/http)
deriving DecidableEq, Repr, Inhabited

/-- one iteration of the field loop of `bindData`.  A field whose key is absent is skipped.
    Otherwise the (possibly empty) text is converted and STORED, whatever the field held before:
    `""` stores 0 / false / 0.0.  On a conversion error the field keeps its value, except that
    `unmarshalInputToField` has already allocated a nil pointer. -/
def bindField (ext : Ext) (f : Field) : FOut :=
  match f.values with
  | none => .ok f.init
  | some vals =>
    match f.wrap with
    | .multi =>        -- unmarshalInputsToField: all values, no `inputValue[0]`
      match multiParse vals with
      | some xs => .ok (.many xs)
      | none => .err f.init
    | .ptrMulti =>     -- a nil pointer is allocated before UnmarshalParams is called
      match multiParse vals with
      | some xs => .ok (.many xs)
      | none => .err (match f.init with | .nil => .many [] | w => w)
    | w =>
      match vals with
      | [] => .panic
      | v0 :: vs =>
        match w with
        | .scalar =>
          match structElem ext f.elem v0 with
          | some v => .ok (.one v)
          | none => .err f.init
        | .ptr =>
          match structElem ext f.elem v0 with
          | some v => .ok (.one v)
          | none => .err (match f.init with | .nil => .one (zeroOf f.elem) | w => w)
        | .slice | .sliceOfPtr =>
          match structElems ext f.elem (v0 :: vs) with
          | some xs => .ok (.many xs)
          | none => .err f.init
        | _ =>   -- ptrToSlice: pointer allocated, then the slice is built and assigned only on success
          match structElems ext f.elem (v0 :: vs) with
          | some xs => .ok (.many xs)
          | none => .err (match f.init with | .nil => .ptrNil | w => w)

inductive Status where
  | ok | bad | panic
deriving DecidableEq, Repr, Inhabited

/-- the field loop: fields after a failing one keep what they held -/
def structBind (ext : Ext) : List Field → Status × List FVal
  | [] => (.ok, [])
  | f :: fs =>
    match bindField ext f with
    | .ok v => let r := structBind ext fs; (r.1, v :: r.2)
    | .err v => (.bad, v :: fs.map (·.init))
    | .panic => (.panic, [])

/-- the same destination seen by a second source: it starts from what the first one left -/
def rebase : List Field → List FVal → List (Option (List (List Char))) → List Field
  | f :: fs, v :: vs, x :: xs => { f with init := v, values := x } :: rebase fs vs xs
  | _, _, _ => []

/-- `Bind` on a GET request: path params, then (only if that succeeded) the query string -/
def structBind2 (ext : Ext) (fs : List Field) (second : List (Option (List (List Char)))) :
    Status × List FVal :=
  match structBind ext fs with
  | (.ok, vals) => structBind ext (rebase fs vals second)
  | r => r

/-! ## wire -/
open Wire

def pITy : P ITy := do
  let n ← nat
  match n with
  | 0 => pure .w8 | 1 => pure .w16 | 2 => pure .w32 | 3 => pure .w64 | 4 => pure .wInt
  | _ => failure

def pFTy : P FTy := do
  let n ← nat
  match n with
  | 0 => pure .f32 | 1 => pure .f64 | _ => failure

/-- where an element description is used: decides which code site it denotes -/
inductive Ctx where
  | struct | vbScalar (must : Bool) | vbSlice

/-- `fam ty`: 0 int, 1 uint, 2 bool, 3 float, 4 duration, 5 string, 6 unmarshaler, 7 unix time, 8 byte,
    9 time with layout number `ty` -/
def pElem (ctx : Ctx) : P Elem := do
  let fam ← nat
  let t ← nat
  let ity : Option ITy := match t with
    | 0 => some .w8 | 1 => some .w16 | 2 => some .w32 | 3 => some .w64 | 4 => some .wInt | _ => none
  let fty : Option FTy := match t with
    | 0 => some .f32 | 1 => some .f64 | _ => none
  match fam, ctx with
  | 0, .struct => match ity with | some i => pure (.num (.structInt i)) | none => failure
  | 0, .vbScalar m => match ity with | some i => pure (.num (.vbInt i m)) | none => failure
  | 0, .vbSlice => match ity with | some i => pure (.num (.vbInts i)) | none => failure
  | 1, .struct => match ity with | some i => pure (.num (.structUint i)) | none => failure
  | 1, .vbScalar m => match ity with | some i => pure (.num (.vbUint i m)) | none => failure
  | 1, .vbSlice => match ity with | some i => pure (.num (.vbUints i)) | none => failure
  | 2, _ => pure .bool
  | 3, .struct => match fty with | some f => pure (.float (.struct f)) | none => failure
  | 3, .vbScalar m => match fty with | some f => pure (.float (.vb f m)) | none => failure
  | 3, .vbSlice => match fty with | some f => pure (.float (.vbs f)) | none => failure
  | 4, _ => pure .dur
  | 5, _ => pure .str
  | 6, _ => pure .unm
  | 7, .vbScalar _ => pure (.num .vbUnix)
  | 8, .vbScalar m => pure (.num (.vbByte m))
  | 9, .vbScalar _ => pure (.time t)
  | 9, .vbSlice => pure (.time t)
  | 10, .struct => pure (.named t)
  | _, _ => failure

def pSVal : P SVal := do
  let k ← nat
  match k with
  | 0 => do let v ← int; pure (.int v)
  | 1 => do let v ← bool; pure (.bool v)
  | 2 => do let v ← str; pure (.opq v)
  | _ => failure

def pDVal : P DVal := do
  let k ← nat
  match k with
  | 0 => do let v ← pSVal; pure (.scalar v)
  | 1 => pure (.slice none)
  | 2 => do let vs ← list pSVal; pure (.slice (some vs))
  | _ => failure

def encSVal : SVal → List String
  | .int v => ["0", toString v]
  | .bool b => ["1", encBool b]
  | .opq s => ["2", encStr s]

def encDVal : DVal → List String
  | .scalar v => "0" :: encSVal v
  | .slice none => ["1"]
  | .slice (some vs) => "2" :: encList encSVal vs

/-- `shape must supported fam ty values delim init` -/
def pCall : P Call := do
  let sh ← nat
  let must ← bool
  let supported ← bool
  let shape ← match sh with
    | 0 => pure Shape.scalar | 1 => pure Shape.slice | 2 => pure Shape.delim | _ => failure
  let elem ← pElem (match shape with | .scalar => .vbScalar must | _ => .vbSlice)
  let values ← list str
  let delim ← str
  let init ← pDVal
  pure ⟨elem, shape, must, supported, values, delim, init⟩

def pOp : P Op := do
  let k ← nat
  match k with
  | 0 => do let c ← pCall; pure (.call c)
  | 1 => do let v ← bool; pure (.failFast v)
  | 2 => pure .bindError
  | 3 => pure .bindErrors
  | 4 => do
    let must ← bool
    let values ← list str
    let init ← pDVal
    let result ← pDVal
    let errs ← nat
    pure (.custom ⟨must, values, init, result, errs⟩)
  | _ => failure

def encOut : Out → List String
  | .call d n => encDVal d ++ [toString n]
  | .nothing => []
  | .err p => [encBool p]
  | .errs n => [toString n]

def pWrap : P Wrap := do
  let n ← nat
  match n with
  | 0 => pure .scalar | 1 => pure .ptr | 2 => pure .slice | 3 => pure .sliceOfPtr
  | 4 => pure .ptrToSlice | 5 => pure .multi | 6 => pure .ptrMulti | _ => failure

def pFVal : P FVal := do
  let k ← nat
  match k with
  | 0 => do let v ← pSVal; pure (.one v)
  | 1 => pure .nil
  | 2 => do let vs ← list pSVal; pure (.many vs)
  | 3 => pure .ptrNil
  | _ => failure

def pField : P Field := do
  let w ← pWrap
  let e ← pElem .struct
  let i ← pFVal
  let vs ← opt (list str)
  pure ⟨w, e, i, vs⟩

def encFVal : FVal → List String
  | .one v => "0" :: encSVal v
  | .nil => ["1"]
  | .many vs => "2" :: encList encSVal vs
  | .ptrNil => ["3"]

def encStatus : Status → String
  | .ok => "0" | .bad => "1" | .panic => "2"

def pTable : P (List (Nat × List Char × Option (List Char))) :=
  list (do let k ← nat; let s ← str; let r ← opt str; pure (k, s, r))

def extOf (t : List (Nat × List Char × Option (List Char))) : Ext := fun k s =>
  match t.find? (fun e => e.1 == k && e.2.1 == s) with
  | some e => e.2.2
  | none => none

inductive Case where
  | vb (failFast : Bool) (efNil : Bool) (ops : List Op)
  | vbDefault (c : Ctor) (efNil : Bool) (ops : List Op)      -- fresh binder of that constructor, no FailFast call
  | struct (fields : List Field)
  | struct2 (fields : List (Field × Option (List (List Char))))

def pCase : P (List (Nat × List Char × Option (List Char)) × Case) := do
  let t ← pTable
  let k ← nat
  match k with
  | 0 => do
    let ff ← bool
    let en ← bool
    let ops ← list pOp
    pure (t, .vb ff en ops)
  | 3 => do
    let c ← nat
    let en ← bool
    let ops ← list pOp
    match c with
    | 0 => pure (t, .vbDefault .query en ops)
    | 1 => pure (t, .vbDefault .path en ops)
    | 2 => pure (t, .vbDefault .form en ops)
    | _ => failure
  | 1 => do
    let fs ← list pField
    pure (t, .struct fs)
  | 2 => do
    let fs ← list (do let f ← pField; let x ← opt (list str); pure (f, x))
    pure (t, .struct2 fs)
  | _ => failure

/-- line: `table kind …`
    * `0 failFast nops op*` → outputs of the ops, concatenated
    * `1 nfields field*` → `status nvals fval*`   (field = `wrap fam ty init hasKey values`)
    * `2 nfields (field hasKey2 values2)*` → the same after path params, then query -/
def runLine (line : String) : String :=
  match parseLine pCase line with
  | none => "bad-op"
  | some (t, .vb ff en ops) => render ((vbRun (extOf t) ⟨0, ff, en, false⟩ ops).flatMap encOut)
  | some (t, .vbDefault c en ops) => render ((vbRun (extOf t) { newBinder c with efNil := en } ops).flatMap encOut)
  | some (t, .struct fs) =>
    let r := structBind (extOf t) fs
    render (encStatus r.1 :: encList encFVal r.2)
  | some (t, .struct2 fs) =>
    let r := structBind2 (extOf t) (fs.map (·.1)) (fs.map (·.2))
    render (encStatus r.1 :: encList encFVal r.2)

end C08
