import EchoModel.RouterWire
import EchoModel.RouterSpec
import EchoModel.RouterInv
import EchoModel.RouterEsc
/-!
# C01 — what a dispatched handler sees (router.go Find + context.go ParamValues)

The op line carries a route table (registration order), one request (method, path as the
router sees it) and the length of the context's value slice; the model answers with the
outcome of `Router.find` on the tree built by `Router.build`.
-/
namespace C01
open Wire Router

def encSpec : Spec.Outcome → List String
  | .dispatch e vals => ["D", toString e.hid, encStr e.ppath] ++ encStrs e.pnames ++ encStrs vals
  | .notFound => ["N"]
  | .methodNotAllowed allow => ["M"] ++ encStrs (sortStrs allow)

/-! ## the router used directly on a context the application made (`Echo.NewContext` + `Router.Find`)

`Router.Find` is public and works on whatever context it is handed: one created with `Echo.NewContext` before
further routes were registered (its value slice has the length `maxParam` had then), one whose values the
application has set (`SetParamValues`), one that has served an earlier lookup and was not reset.  Only the value
slice matters for what the next lookup does; the other fields (`handler`, `path`, `pnames`) are overwritten by
every lookup that matches anything at all and are put back by the application otherwise. -/

inductive CtxOp where
  | newCtx (k : Nat)            -- `Echo.NewContext` when the first `k` routes of the table are registered
  | setVals (vs : List Str)     -- `Context.SetParamValues(vs...)`
  | setNames (n : Nat)          -- `Context.SetParamNames` with `n` names
  | find (m p : Str)            -- `Router.Find(m, p, ctx)`, all routes registered
  | reset                       -- `Context.Reset`, all routes registered
deriving Repr, Inhabited

/-- `Context.SetParamValues` (context.go:360-370): a longer list replaces the slice (old content dropped), a shorter
    one overwrites the front -/
def setParamValues (pv vs : List Str) : List Str :=
  if vs.length > pv.length then vs else vs ++ pv.drop vs.length

/-- `Context.SetParamNames` (context.go:343-354): the slice grows to the number of names, keeping its content -/
def setParamNames (pv : List Str) (n : Nat) : List Str :=
  pv ++ List.replicate (n - pv.length) []

/-- `Context.Reset` (context.go:647-669): every value blank, the slice re-made when shorter than `maxParam` -/
def resetVals (t : List Route) (pv : List Str) : List Str :=
  List.replicate (max pv.length (maxParam t)) []

/-- the value slice after `Router.Find`; `none`: the lookup indexed out of range (Go panics) -/
def findVals (t : List Route) (m p : Str) (pv : List Str) : Option (List Str) :=
  let st := (findNode p m (build t) ⟨0, 0, pv, none, false⟩).1
  if st.panicked then none else some st.pv

def stepCtx (t : List Route) (pv : List Str) : CtxOp → Option (List Str)
  | .newCtx k => some (List.replicate (maxParam (t.take k)) [])
  | .setVals vs => some (setParamValues pv vs)
  | .setNames n => some (setParamNames pv n)
  | .find m p => findVals t m p pv
  | .reset => some (resetVals t pv)

/-- the slice after a sequence of context operations (`none`: one of the lookups panicked) -/
def runCtx (t : List Route) : List Str → List CtxOp → Option (List Str)
  | pv, [] => some pv
  | pv, op :: ops => match stepCtx t pv op with
    | some pv' => runCtx t pv' ops
    | none => none

/-- what the probed lookup gives after the context operations `ops` (starting from a context made with all routes
    registered) -/
def findAfter (t : List Route) (ops : List CtxOp) (m p : Str) : Outcome :=
  match runCtx t (List.replicate (maxParam t) []) ops with
  | some pv => find (build t) m p pv
  | none => .panic

def pCtxOp : P CtxOp := do
  let k ← tok
  match k with
  | "N" => do let n ← nat; pure (.newCtx n)
  | "V" => do let vs ← list str; pure (.setVals vs)
  | "M" => do let n ← nat; pure (.setNames n)
  | "F" => do let m ← str; let p ← str; pure (.find m p)
  | "R" => pure .reset
  | _ => failure

/-- line: `table method path pvlen nops op*` → outcome of the radix-tree model (L3 `find ∘ build`), then
    `//`, then the outcome of the order-free reference search (L1) the theorems are about: the
    real router is compared with both on every case.  With `nops = 0` the request goes through `ServeHTTP` (a
    freshly reset context of `max pvlen maxParam` slots); otherwise the router is used directly on a context
    prepared by the operations. -/
def runLine (line : String) : String :=
  match parseLine (do let t ← pTable; let m ← str; let p ← str; let n ← nat; let ops ← list pCtxOp
                      pure (t, m, p, n, ops)) line with
  | none => "bad-op"
  | some (t, m, p, n, ops) =>
    -- translation validation of `Router.build` for this table: the tree satisfies the invariant of
    -- the refinement theorem (TI) and represents exactly the table in force (RS: the registered entries,
    -- a re-registered route replacing its earlier registration)
    let inv := Tree.tableInvariantD t
    let out := if ops.isEmpty then find (build t) m p (List.replicate (max n (maxParam t)) [])
               else findAfter t ops m p
    render (encOutcome out
      -- (a lookup on a context with fewer value slots than `maxParam` may index out of range: the reference search
      --  has no counterpart of that, nothing is compared then)
      ++ ["//"] ++ (match ops.isEmpty, out with
                    | false, .panic => ["P"]
                    | _, _ => encSpec (Spec.routeTable (Tree.dedupLast t) m p))
      ++ ["//", if inv.1 then "TI1" else "TI0", if inv.2 then "RS1" else "RS0",
          -- a well-formed table must pass both (the statement of the insert-correctness theorem)
          if Tree.okTable t then (if (inv.1 || t.isEmpty) && inv.2 then "WF1" else "WF-BUT-INVARIANT-FAILS") else "WF0",
          -- the same for tables WITH escaped colons but without an escape conflict (`okTableE`, the hypothesis of
          -- `build_tableInvariantE`): the harness computes the condition independently from the registered patterns
          if Tree.okTableE t then (if (inv.1 || t.isEmpty) && inv.2 then "WE1" else "WE-BUT-INVARIANT-FAILS") else "WE0"])

end C01
