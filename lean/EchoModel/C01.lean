import EchoModel.RouterWire
import EchoModel.RouterSpec
import EchoModel.RouterInv
/-!
# C01 — what a dispatched handler sees (router.go Find + context.go ParamValues)

The op line carries a route table (registration order), one request (method, path as the
router sees it) and the length of the context's value slice; the model answers with the
outcome of `Router.find` on the tree built by `Router.build`.
-/
namespace C01
open Wire Router

def encSpec : Spec.Outcome → List String
  | .dispatch e vals => ["D", toString e.hid, encStr e.ppath] ++ encStrs e.pnames ++ encStrs vals
  | .notFound => ["N"]
  | .methodNotAllowed allow => ["M"] ++ encStrs (sortStrs allow)

/-- line: `table method path pvlen` → outcome of the radix-tree model (L3 `find ∘ build`), then
    `//`, then the outcome of the order-free reference search (L1) the theorems are about: the
    real router is compared with both on every case -/
def runLine (line : String) : String :=
  match parseLine (do let t ← pTable; let m ← str; let p ← str; let n ← nat; pure (t, m, p, n)) line with
  | none => "bad-op"
  | some (t, m, p, n) =>
    -- translation validation of `Router.build` for this table: the tree satisfies the invariant of
    -- the refinement theorem (TI) and represents exactly the table in force (RS: the registered entries,
    -- a re-registered route replacing its earlier registration)
    let inv := Tree.tableInvariantD t
    render (encOutcome (find (build t) m p (List.replicate (max n (maxParam t)) []))
      ++ ["//"] ++ encSpec (Spec.routeTable (Tree.dedupLast t) m p)
      ++ ["//", if inv.1 then "TI1" else "TI0", if inv.2 then "RS1" else "RS0",
          -- a well-formed table must pass both (the statement of the insert-correctness theorem)
          if Tree.okTable t then (if (inv.1 || t.isEmpty) && inv.2 then "WF1" else "WF-BUT-INVARIANT-FAILS") else "WF0"])

end C01
