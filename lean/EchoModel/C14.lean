import EchoModel.Wire
/-!
# C14 — BodyLimit (middleware/body_limit.go)

Model of `BodyLimitWithConfig` and `limitedReader`.

The underlying body reader is *not* modelled: a request carries the sequence of answers
`(data, err)` the underlying `Read` gave to the successive calls the handler made.  That is
fully general (every chunking, every read size, every reader behaviour is some such
sequence).  `limitedReader.Read` is the transducer

    n, err = r.reader.Read(b); r.read += n; if r.read > r.limit { return n, 413 }; return
-/
namespace C14

/-- error component of a `Read` result -/
inductive RErr where
  | none      -- nil
  | eof       -- io.EOF
  | other     -- any other error of the underlying reader
  | tooLarge  -- echo.ErrStatusRequestEntityTooLarge (never produced by the underlying reader)
deriving DecidableEq, Repr, Inhabited

/-- one answer of a reader: the bytes it put into the buffer and the error it returned -/
structure Resp where
  data : List Nat
  err : RErr
deriving DecidableEq, Repr, Inhabited

/-- `limitedReader.Read`: `read` is the running count, `L` the limit -/
def lrRead (L : Nat) (read : Nat) (u : Resp) : Nat × Resp :=
  let read' := read + u.data.length
  if read' > L then (read', ⟨u.data, .tooLarge⟩) else (read', u)

/-- the handler's successive `Read` calls; returns the final count and what the handler saw -/
def lrRun (L : Nat) : Nat → List Resp → Nat × List Resp
  | read, [] => (read, [])
  | read, u :: us =>
    let (read', o) := lrRead L read u
    let (readEnd, os) := lrRun L read' us
    (readEnd, o :: os)

structure Req where
  declared : Int          -- http.Request.ContentLength (-1 = unknown)
  under : List Resp       -- answers of the underlying body reader to the handler's reads
deriving Repr, Inhabited

inductive Outcome where
  | rejected                 -- 413 before the handler runs
  | ran (seen : List Resp)   -- handler ran and its reads returned `seen`
deriving DecidableEq, Repr, Inhabited

/-- one request through the middleware.  `leftover` is the `read` field of the pooled
    reader handed out by `sync.Pool` (whatever an earlier request left there); the result
    also returns the value left behind for the next user of that reader. -/
def serve (L : Nat) (leftover : Nat) (r : Req) : Outcome × Nat :=
  if r.declared > (L : Int) then (.rejected, leftover)
  else
    -- r.Reset(req.Body): reader := body; read := 0
    let (readEnd, seen) := lrRun L 0 r.under
    (.ran seen, readEnd)

/-- a sequence of requests through one middleware instance, the pool always handing back
    the reader used before (the worst case for carry-over) -/
def serveAll (L : Nat) : Nat → List Req → List Outcome
  | _, [] => []
  | lo, r :: rs => let (o, lo') := serve L lo r; o :: serveAll L lo' rs

/-- two instances stacked on one route (e.g. a global limit `A` and a route-level limit `B`):
    the inner instance wraps the reader the outer instance installed.  Returns what both pooled
    readers are left with. -/
def serveNested (A B : Nat) (loA loB : Nat) (r : Req) : Outcome × Nat × Nat :=
  if r.declared > (A : Int) then (.rejected, loA, loB)
  else if r.declared > (B : Int) then (.rejected, 0, loB)   -- the outer reader was Reset and never read
  else
    let (endA, seenA) := lrRun A 0 r.under
    let (endB, seen) := lrRun B 0 seenA
    (.ran seen, endA, endB)

/-- requests through an application with a global limit `L`; a request tagged `some B` goes to a
    route that carries a second instance with limit `B` -/
def serveAllN (L : Nat) : Nat → Nat → List (Option Nat × Req) → List Outcome
  | _, _, [] => []
  | loA, loB, (none, r) :: rs => let (o, loA') := serve L loA r; o :: serveAllN L loA' loB rs
  | loA, loB, (some B, r) :: rs =>
    let (o, loA', loB') := serveNested L B loA loB r; o :: serveAllN L loA' loB' rs

/-! ## wire -/
open Wire

def errCode : RErr → Nat
  | .none => 0 | .eof => 1 | .other => 2 | .tooLarge => 3

def pErr : P RErr := do
  let n ← nat
  match n with
  | 0 => pure .none | 1 => pure .eof | 2 => pure .other | _ => failure

def pResp : P Resp := do
  let d ← bytes
  let e ← pErr
  pure ⟨d, e⟩

def encResp (r : Resp) : List String := [encBytes r.data, toString (errCode r.err)]

def pReq : P Req := do
  let d ← int
  let rs ← list pResp
  pure ⟨d, rs⟩

/-- Does the request end as a 413?  Rejected up front, or the handler hands back the first over-limit error one of
    its reads reported (the handlers of the correspondence run do exactly that, whatever they read afterwards);
    echo's error handler turns that error into the response status. -/
def answered413 : Outcome → Bool
  | .rejected => true
  | .ran seen => seen.any (fun o => o.err == .tooLarge)

def encOutcome : Outcome → List String
  | .rejected => ["0"]
  | .ran seen => "1" :: (encList encResp seen ++ [if answered413 (.ran seen) then "1" else "0"])

/-- line: `L nreq ((0 | 1 B) declared n (data err)*)*`  →  `nreq (0 | 1 n (data err)* is413)*`;
    the requests go through one application one after the other (`1 B`: through a route with a
    second instance of limit `B`) -/
def runLine (line : String) : String :=
  match parseLine (do let l ← nat; let rs ← list (do let i ← opt nat; let r ← pReq; pure (i, r)); pure (l, rs)) line with
  | none => "bad-op"
  | some (l, rs) => render (encList encOutcome (serveAllN l 0 0 rs))

end C14
