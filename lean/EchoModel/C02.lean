import EchoModel.RouterWire
import EchoModel.RouterSpec
import EchoModel.RouterInv
/-!
# C02 — route choice = the documented priority search, independent of registration order

The model line answers with the outcome of the order-free specification `Spec.routeTable`
(layer L1).  Host selection (`findRouter`) is modelled by `routeHost`: the table of the
exact Host value if one is registered, else the default table.
-/
namespace C02
open Wire Router

def encSpecOutcome : Spec.Outcome → List String
  | .dispatch e vals => ["D", toString e.hid, encStr e.ppath] ++ encStrs e.pnames ++ encStrs vals
  | .notFound => ["N"]
  | .methodNotAllowed allow => ["M"] ++ encStrs (sortStrs allow)

/-- `Echo.findRouter`: the router registered for exactly this Host value, else the default one -/
def routeHost {α} (hosts : List (Str × α)) (dflt : α) (host : Str) : α :=
  match hosts.find? (·.1 = host) with
  | some (_, t) => t
  | none => dflt

/-! ## what an application registers

A table comes into being through a sequence of registration events: a route (method, full path, handler),
possibly a route that is already registered (then the later registration is the one in force,
`Router.Tree.dedupLast`), or a group being given middleware (`Group.Use`, `Echo.Group(prefix, mw...)`,
`Echo.Host(name, mw...)`, group.go:21-33): that registers two RouteNotFound routes of the group's own — its prefix
itself and everything below `prefix/` — so that the group's middleware also runs for unmatched paths of the group. -/

inductive Event where
  | route (method path : Str) (hid : Nat)
  | use (pre : Str) (hid : Nat)       -- the group's catch-all routes get the handler ids `hid` and `hid + 1`
deriving Repr, Inhabited

/-- the two routes `Group.Use` registers for a group with prefix `pre` -/
def groupCatchAll (pre : Str) (hid : Nat) : List Route :=
  [⟨routeNotFound, pre, hid⟩, ⟨routeNotFound, pre ++ "/*".toList, hid + 1⟩]

def expand : List Event → List Route
  | [] => []
  | .route m p h :: es => ⟨m, p, h⟩ :: expand es
  | .use pre h :: es => groupCatchAll pre h ++ expand es

/-- the table in force after the events: the last registration of every (method, pattern) -/
def inForce (es : List Event) : List Route := Tree.dedupLast (expand es)

def pEvent : P Event := do
  let k ← tok
  match k with
  | "R" => do let m ← str; let p ← str; let h ← nat; pure (.route m p h)
  | "U" => do let p ← str; let h ← nat; pure (.use p h)
  | _ => failure

def pHostTable : P (Str × List Event) := do
  let h ← str
  let t ← list pEvent
  pure (h, t)

/-- line: `defaultEvents nhosts (host events)* reqHost method path` → outcome of the L1 search
    on the table in force of the router selected by the Host value -/
def runLine (line : String) : String :=
  match parseLine (do
      let t ← list pEvent; let hs ← list pHostTable; let h ← str; let m ← str; let p ← str
      pure (t, hs, h, m, p)) line with
  | none => "bad-op"
  | some (t, hs, h, m, p) =>
    -- first token: which table served the request (0 = default, k = k-th host table); `Echo.Host` called again
    -- with the same name replaces the router: the LAST table registered under a name is the one in force
    let tagged := hs.zipIdx.map fun ((hn, ht), i) => (hn, (i + 1, ht))
    let (k, evs) := routeHost tagged.reverse (0, t) h
    let out := Spec.routeTable (inForce evs) m p
    let tag := match out with | .dispatch .. => toString k | _ => "-"   -- observable only through a handler
    render (tag :: encSpecOutcome out)

end C02
