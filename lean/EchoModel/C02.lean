import EchoModel.RouterWire
import EchoModel.RouterSpec
/-!
# C02 — route choice = the documented priority search, independent of registration order

The model line answers with the outcome of the order-free specification `Spec.routeTable`
(layer L1).  Host selection (`findRouter`) is modelled by `routeHost`: the table of the
exact Host value if one is registered, else the default table.
-/
namespace C02
open Wire Router

def encSpecOutcome : Spec.Outcome → List String
  | .dispatch e vals => ["D", toString e.hid, encStr e.ppath] ++ encStrs e.pnames ++ encStrs vals
  | .notFound => ["N"]
  | .methodNotAllowed allow => ["M"] ++ encStrs (sortStrs allow)

/-- `Echo.findRouter`: the router registered for exactly this Host value, else the default one -/
def routeHost {α} (hosts : List (Str × α)) (dflt : α) (host : Str) : α :=
  match hosts.find? (·.1 = host) with
  | some (_, t) => t
  | none => dflt

def pHostTable : P (Str × List Route) := do
  let h ← str
  let t ← pTable
  pure (h, t)

/-- line: `defaultTable nhosts (host table)* reqHost method path` → outcome of the L1 search
    on the table selected by the Host value -/
def runLine (line : String) : String :=
  match parseLine (do
      let t ← pTable; let hs ← list pHostTable; let h ← str; let m ← str; let p ← str
      pure (t, hs, h, m, p)) line with
  | none => "bad-op"
  | some (t, hs, h, m, p) =>
    -- first token: which table served the request (0 = default, k = k-th host table)
    let tagged := hs.zipIdx.map fun ((hn, ht), i) => (hn, (i + 1, ht))
    let (k, tbl) := routeHost tagged (0, t) h
    let out := Spec.routeTable tbl m p
    let tag := match out with | .dispatch .. => toString k | _ => "-"   -- observable only through a handler
    render (tag :: encSpecOutcome out)

end C02
