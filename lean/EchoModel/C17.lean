import EchoModel.Wire
/-!
# C17 — generated redirects stay on the same host

Model of

* `sanitizeURI` (two identical copies: `middleware/slash.go`, `echo_fs.go`) — the behaviour
  AFTER the repair of finding F10 (TAB / CR / LF inside the leading slash run no longer hide
  the second slash),
* the target construction of `AddTrailingSlashWithConfig` / `RemoveTrailingSlashWithConfig`
  (decoded `URL.Path` ± `/`, raw query string, redirect or forward),
* the four constructors of the slash middlewares (`AddTrailingSlash()`, `RemoveTrailingSlash()` and
  the `…WithConfig` forms with their `Skipper`),
* `Context.Redirect` (code check, `Location` written verbatim),
* `StaticDirectoryHandler(fs, disablePathUnescaping)` as registered by `Echo.Static` / `StaticFS`,
  `Group.Static` / `StaticFS` or by hand (`url.PathUnescape` of the `*` parameter,
  `filepath.Clean(TrimPrefix(p, "/"))`, `fs.Stat`, directory redirect built from `URL.Path`,
  `fsFile` with its `index.html` join); the mount point (literal prefix, root, below a path
  parameter) only decides what the router binds to `*`, which is an input of the model,
* a slash middleware under `e.Pre` in front of a static route (`Req.preStatic`).

Standard-library pieces implemented here and validated by the correspondence run only (no
theorem depends on them): `url.PathUnescape`, `path.Clean`, `fs.ValidPath` on cleaned names,
`os.DirFS` as a finite set of directory and file names (sent by the harness, which creates
that very tree on disk).  `strings.TrimLeft` with an ASCII cut set is `List.dropWhile`.

`browserView`, `hasScheme`, `sameHost` are the *specification* side: how a WHATWG URL parser
reads a `Location` value.  The model prints `sameHost` of every `Location` it computes and the
harness prints the verdict of its own independent Go implementation, so the Lean predicate
the theorems are about is tied to the Go oracle on every run as well.
-/
namespace C17

/-! ## sanitizeURI -/

def isSlash (c : Char) : Bool := c == '/' || c == '\\'

/-- ASCII tab or newline: the characters a browser removes from a URL before parsing it -/
def isTabNL (c : Char) : Bool := c == '\t' || c == '\n' || c == '\r'

def isLead (c : Char) : Bool := isSlash c || isTabNL c

/-- `sanitizeURI` after the F10 repair:

        if len(uri) > 1 && (uri[0] == '\\' || uri[0] == '/') {
            if rest := strings.TrimLeft(uri[1:], "\t\r\n"); len(rest) > 0 && (rest[0] == '\\' || rest[0] == '/') {
                uri = "/" + strings.TrimLeft(uri, "/\\\t\r\n")
            }
        }
-/
def sanitizeURI (uri : List Char) : List Char :=
  match uri with
  | [] => uri
  | c0 :: rest =>
    if isSlash c0 then
      match rest.dropWhile isTabNL with
      | [] => uri
      | c1 :: _ => if isSlash c1 then '/' :: uri.dropWhile isLead else uri
    else uri

/-! ## Context.Redirect and the slash middlewares -/

inductive Out where
  | next (path reqURI : List Char)        -- the next handler ran and saw this URL.Path / RequestURI
  | redirect (code : Nat) (loc : List Char)
  | error                                  -- handler returned a non-HTTP error (500)
  | notFound                               -- 404
  | file                                   -- a file was served
deriving DecidableEq, Repr, Inhabited

/-- `c.Redirect(code, url)` -/
def redirect (code : Nat) (url : List Char) : Out :=
  if code < 300 || code > 308 then .error else .redirect code url

def withQuery (path qs : List Char) : List Char :=
  if qs.isEmpty then path else path ++ '?' :: qs

def endsWithSlash (p : List Char) : Bool := p.getLast? == some '/'

/-- `AddTrailingSlashWithConfig`; `code = 0` is the forwarding mode -/
def addSlash (code : Nat) (path qs reqURI : List Char) : Out :=
  if !endsWithSlash path then
    let path' := path ++ ['/']
    let uri := withQuery path' qs
    if code != 0 then redirect code (sanitizeURI uri) else .next path' uri
  else .next path reqURI

/-- `RemoveTrailingSlashWithConfig` -/
def removeSlash (code : Nat) (path qs reqURI : List Char) : Out :=
  if path.length > 1 && endsWithSlash path then
    let path' := path.dropLast
    let uri := withQuery path' qs
    if code != 0 then redirect code (sanitizeURI uri) else .next path' uri
  else .next path reqURI

/-! ## the constructors of the slash middlewares

`AddTrailingSlash()` is `AddTrailingSlashWithConfig(DefaultTrailingSlashConfig)` (default skipper,
`RedirectCode` 0), `RemoveTrailingSlash()` is `RemoveTrailingSlashWithConfig(TrailingSlashConfig{})`
(the nil `Skipper` is replaced by the default one, `RedirectCode` 0): both only ever forward.
A `Skipper` is an arbitrary function of the request; the model carries its answer for the
request at hand. -/

structure SlashConfig where
  skip : Bool      -- what `config.Skipper(c)` answers for this request (`DefaultSkipper`: false)
  code : Nat       -- `RedirectCode`
deriving DecidableEq, Repr, Inhabited

inductive SlashCtor where
  | add                            -- `AddTrailingSlash()`
  | remove                         -- `RemoveTrailingSlash()`
  | addWith (c : SlashConfig)      -- `AddTrailingSlashWithConfig(c)`
  | removeWith (c : SlashConfig)   -- `RemoveTrailingSlashWithConfig(c)`
deriving DecidableEq, Repr, Inhabited

/-- the configuration the returned middleware works with (after the "Defaults" block) -/
def SlashCtor.config : SlashCtor → SlashConfig
  | .add => ⟨false, 0⟩
  | .remove => ⟨false, 0⟩
  | .addWith c => c
  | .removeWith c => c

def SlashCtor.isAdd : SlashCtor → Bool
  | .add => true
  | .addWith _ => true
  | _ => false

/-- the middleware a constructor returns, applied to one request -/
def slashMw (k : SlashCtor) (path qs reqURI : List Char) : Out :=
  if k.config.skip then .next path reqURI
  else if k.isAdd then addSlash k.config.code path qs reqURI
  else removeSlash k.config.code path qs reqURI

/-! ## the request URL

What a `*url.URL` of a request can carry.  Several parts can be PRESENT BUT EMPTY or present
without saying anything new: a target that ends in a bare `?` (`ForceQuery` with an empty
`RawQuery`), a `RawPath` that only repeats `Path`, a fragment or a host (absolute-form target, or
set by an earlier middleware).  The slash middlewares read `URL.Path` and `c.QueryString()`
(= `URL.RawQuery`) and nothing else; the static handler reads `URL.Path` only.  A bare `?` is
therefore not carried over into the target. -/

structure URL where
  path : List Char
  rawPath : List Char := []
  rawQuery : List Char := []
  forceQuery : Bool := false
  fragment : List Char := []
  host : List Char := []
deriving DecidableEq, Repr, Inhabited

/-- `c.QueryString()` -/
def URL.queryString (u : URL) : List Char := u.rawQuery

/-- a slash middleware applied to a request with this URL -/
def slashURL (k : SlashCtor) (u : URL) (reqURI : List Char) : Out :=
  slashMw k u.path u.queryString reqURI

/-- what else a request carries: protocol version (`GET /x HTTP/1.0`), the `Host` header
    (absent in HTTP/1.0 requests: empty), whether it came over TLS.  None of it is read by the
    redirecting code: the `Location` is a relative reference for every client. -/
structure Conn where
  protoMajor : Nat := 1
  protoMinor : Nat := 1
  host : List Char := []
  tls : Bool := false
deriving DecidableEq, Repr, Inhabited

def slashRequest (k : SlashCtor) (u : URL) (_ : Conn) (reqURI : List Char) : Out :=
  slashURL k u reqURI

/-! ## StaticDirectoryHandler -/

def hexVal? (c : Char) : Option Nat :=
  if '0' ≤ c ∧ c ≤ '9' then some (c.toNat - '0'.toNat)
  else if 'a' ≤ c ∧ c ≤ 'f' then some (c.toNat - 'a'.toNat + 10)
  else if 'A' ≤ c ∧ c ≤ 'F' then some (c.toNat - 'A'.toNat + 10)
  else none

/-- `url.PathUnescape` (byte level): `%XX` decoded, a `%` not followed by two hex digits is an
    error, `+` is kept -/
def pathUnescape : List Char → Option (List Char)
  | [] => some []
  | '%' :: a :: b :: r =>
    match hexVal? a, hexVal? b, pathUnescape r with
    | some x, some y, some r' => some (Char.ofNat (x * 16 + y) :: r')
    | _, _, _ => none
  | '%' :: _ => none
  | c :: r => (pathUnescape r).map (c :: ·)

/-- split at every `/` -/
def splitSlash : List Char → List (List Char)
  | [] => [[]]
  | c :: r =>
    match splitSlash r with
    | [] => [[c]]          -- unreachable
    | s :: ss => if c == '/' then [] :: s :: ss else (c :: s) :: ss

/-- the element stack of `path.Clean` (top of the stack first) -/
def cleanStack (rooted : Bool) : List (List Char) → List (List Char) → List (List Char)
  | st, [] => st
  | st, seg :: segs =>
    if seg == [] || seg == ['.'] then cleanStack rooted st segs
    else if seg == ['.', '.'] then
      match st with
      | top :: below =>
        if top == ['.', '.'] then cleanStack rooted (seg :: st) segs   -- only when not rooted
        else cleanStack rooted below segs
      | [] => if rooted then cleanStack rooted [] segs else cleanStack rooted [seg] segs
    else cleanStack rooted (seg :: st) segs

def joinSlash : List (List Char) → List Char
  | [] => []
  | [s] => s
  | s :: ss => s ++ '/' :: joinSlash ss

/-- `path.Clean` (= `filepath.Clean` on Linux) -/
def clean (p : List Char) : List Char :=
  let rooted := p.head? == some '/'
  let body := joinSlash (cleanStack rooted [] (splitSlash p)).reverse
  let r := if rooted then '/' :: body else body
  if r.isEmpty then ['.'] else r

inductive Stat where
  | missing | dir | file
deriving DecidableEq, Repr, Inhabited

/-- `os.DirFS(root)` as a finite tree: names of directories (root = `.`) and of regular files.
    `fs.ValidPath` rejects rooted names and names with `..` elements; after `Clean` the only
    such names are `/…`, `..` and `../…`. -/
structure Tree where
  dirs : List (List Char)
  files : List (List Char)
deriving Repr, Inhabited

def validCleaned (n : List Char) : Bool :=
  !(n.head? == some '/') && !(n == ['.', '.']) && !(n.take 3 == ['.', '.', '/'])

def stat (t : Tree) (name : List Char) : Stat :=
  if !validCleaned name then .missing
  else if t.dirs.contains name then .dir
  else if t.files.contains name then .file
  else .missing

def trimPrefixSlash : List Char → List Char
  | '/' :: r => r
  | l => l

def indexPage : List Char := "index.html".toList

/-- `filepath.Join(file, "index.html")` for a cleaned `file` -/
def joinIndex (file : List Char) : List Char := clean (file ++ '/' :: indexPage)

/-- `fsFile` -/
def fsFile (t : Tree) (name : List Char) : Out :=
  match stat t name with
  | .missing => .notFound
  | .file => .file
  | .dir => match stat t (joinIndex name) with
    | .file => .file
    | _ => .notFound    -- a directory called index.html is opened but cannot be served: not generated

/-- `StaticDirectoryHandler` after the (optional) unescaping of the `*` parameter: `p` is the
    file name asked for, `urlPath` is `c.Request().URL.Path` -/
def staticServe (t : Tree) (p urlPath : List Char) : Out :=
  let name := clean (trimPrefixSlash p)
  match stat t name with
  | .missing => .notFound
  | st =>
    if st == .dir && !urlPath.isEmpty && !endsWithSlash urlPath then
      redirect 301 (sanitizeURI (urlPath ++ ['/']))
    else fsFile t name

/-- `StaticDirectoryHandler(fs, false)` — what `Echo.Static`, `Echo.StaticFS`, `Group.Static`,
    `Group.StaticFS` register: `param` is `c.Param("*")` -/
def staticDir (t : Tree) (param urlPath : List Char) : Out :=
  match pathUnescape param with
  | none => .error
  | some p => staticServe t p urlPath

/-- `StaticDirectoryHandler(fs, disablePathUnescaping)` -/
def staticHandler (disable : Bool) (t : Tree) (param urlPath : List Char) : Out :=
  if disable then staticServe t param urlPath else staticDir t param urlPath

/-! ## how a browser reads a Location value (specification side) -/

/-- C0 control or space -/
def isC0Space (c : Char) : Bool := c.toNat ≤ 0x20

/-- drop a trailing run of characters satisfying `p` -/
def stripTrailing (p : Char → Bool) : List Char → List Char
  | [] => []
  | c :: r =>
    match stripTrailing p r with
    | [] => if p c then [] else [c]
    | r' => c :: r'

/-- WHATWG URL parser, preprocessing: strip leading and trailing C0 control or space, then
    remove all ASCII tab or newline -/
def browserView (l : List Char) : List Char :=
  (stripTrailing isC0Space (l.dropWhile isC0Space)).filter (fun c => !isTabNL c)

def isAlpha (c : Char) : Bool := ('a' ≤ c && c ≤ 'z') || ('A' ≤ c && c ≤ 'Z')
def isSchemeChar (c : Char) : Bool :=
  isAlpha c || ('0' ≤ c && c ≤ '9') || c == '+' || c == '-' || c == '.'

/-- scheme start state / scheme state: an ASCII alpha, then scheme characters, then `:` -/
def hasScheme (l : List Char) : Bool :=
  match l with
  | [] => false
  | c :: r => isAlpha c && (r.dropWhile isSchemeChar).head? == some ':'

/-- the browser reads the value as a path-absolute reference: it starts with `/`, the next
    character is neither `/` nor `\` (which would start an authority), and there is no scheme -/
def sameHost (loc : List Char) : Bool :=
  let l := browserView loc
  l.head? == some '/' &&
  (match l.drop 1 with
   | [] => true
   | c :: _ => !isSlash c) &&
  !hasScheme l

/-- weaker reading used for request paths that do not start with `/`: the reference is
    relative (no scheme) and does not start an authority (`//`, `/\`, `\/`, `\\`) -/
def staysOnHost (loc : List Char) : Bool :=
  let l := browserView loc
  !hasScheme l &&
  (match l with
   | c0 :: c1 :: _ => !(isSlash c0 && isSlash c1)
   | _ => true)

/-! ## wire -/
open Wire

def encOut : Out → List String
  | .next p u => ["N", encStr p, encStr u]
  | .redirect code loc => ["R", toString code, encStr loc, encBool (sameHost loc), encBool (staysOnHost loc)]
  | .error => ["E"]
  | .notFound => ["404"]
  | .file => ["F"]

inductive Op where
  | add (code : Nat) (path qs reqURI : List Char)
  | remove (code : Nat) (path qs reqURI : List Char)
  | static (t : Tree) (param urlPath : List Char)

def runOp : Op → Out
  | .add code p q u => addSlash code p q u
  | .remove code p q u => removeSlash code p q u
  | .static t param up => staticDir t param up

/-- a request to an application built from the public entry points:
    * one of the four slash-middleware constructors under `e.Pre`,
    * a static route (`Static` / `StaticFS` of Echo or Group, or `StaticDirectoryHandler`
      registered by hand, with or without path unescaping); `param` is what the router bound to
      `*` — mount points below literal prefixes and path parameters only differ in that value,
    * a slash middleware under `e.Pre` IN FRONT OF a static route: in forwarding mode the static
      handler sees the rewritten `URL.Path` (`routed`/`param`: what the router then did). -/
inductive Req where
  | slash (k : SlashCtor) (path qs reqURI : List Char)
  | static (disable : Bool) (t : Tree) (param urlPath : List Char)
  | preStatic (k : SlashCtor) (path qs reqURI : List Char) (disable : Bool) (t : Tree)
      (routed : Bool) (param : List Char)

def runReq : Req → Out
  | .slash k p q u => slashMw k p q u
  | .static d t param up => staticHandler d t param up
  | .preStatic k p q u d t routed param =>
    match slashMw k p q u with
    | .next p' _ => if routed then staticHandler d t param p' else .notFound
    | o => o

def pCtor : P SlashCtor := do
  let k ← tok
  let plain ← bool; let skip ← bool; let code ← nat
  match k, plain with
  | "A", true => pure .add
  | "D", true => pure .remove
  | "A", false => pure (.addWith ⟨skip, code⟩)
  | "D", false => pure (.removeWith ⟨skip, code⟩)
  | _, _ => failure

def pURL : P (URL × Conn) := do
  let p ← str; let rp ← str; let q ← str; let fq ← bool; let fr ← str; let h ← str
  let ma ← nat; let mi ← nat; let rh ← str; let tls ← bool
  pure (⟨p, rp, q, fq, fr, h⟩, ⟨ma, mi, rh, tls⟩)

def pReq : P Req := do
  let k ← tok
  match k with
  | "M" => do
    let c ← pCtor; let (url, _) ← pURL; let u ← str
    pure (.slash c url.path url.queryString u)
  | "S" => do
    let d ← bool; let dirs ← list str; let files ← list str; let param ← str; let up ← str
    pure (.static d ⟨dirs, files⟩ param up)
  | "P" => do
    let c ← pCtor; let (url, _) ← pURL; let u ← str
    let p := url.path; let q := url.queryString
    let d ← bool; let dirs ← list str; let files ← list str; let routed ← bool; let param ← str
    pure (.preStatic c p q u d ⟨dirs, files⟩ routed param)
  | _ => failure

/-- lines:
    `Q n line…` — n requests, one after the other, through ONE application (the same middleware
    instances): each line is one of the following; the answer is `n` followed by the n answers,
    `url = path rawPath rawQuery forceQuery fragment host protoMajor protoMinor hostHeader tls`,
    `M (A|D) plain skip code url requestURI` — a slash middleware (`plain`: the
    constructor without config; `skip`: the Skipper's answer),
    `S disableUnescape ndirs dirs… nfiles files… param urlPath` — a static route,
    `P (A|D) plain skip code url requestURI disableUnescape ndirs dirs… nfiles files… routed param`
    — slash middleware in front of a static route
      → `N path requestURI` | `R code location sameHost staysOnHost` | `E` | `404` | `F` -/
def pSeq : P (List Req) := do
  let k ← tok
  match k with
  | "Q" => list pReq
  | _ => failure

/-- requests one after the other through one application.  The constructors' closures hold the
    configuration and nothing else — no request leaves anything behind for the next — so the
    answers are the answers to each request on its own. -/
def runSeq (rs : List Req) : List Out := rs.map runReq

def runLine (line : String) : String :=
  match parseLine pSeq line with
  | none => "bad-op"
  | some rs => render (encList encOut (runSeq rs))

end C17
