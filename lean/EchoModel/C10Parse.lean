/-!
# C10 — `net.ParseIP` (Go 1.23: `net/ip.go` `parseIP` → `net/netip` `ParseAddr`)

`parseIP : Str → Option IP` mirrors, function by function,

* `netip.ParseAddr`      — `dispatch`: the first of `.`, `:`, `%` decides (IPv4, IPv6, error);
* `netip.parseIPv4Fields` — `v4Fields`: the byte loop with `val`, `digLen`, `pos`;
* `netip.parseIPv6`      — `parseV6` / `loop6` / `readHex` / `expand6`;
* `net.parseIP`          — a zone is an error, the result is the 16-byte form (`As16`): an IPv4
  text yields the IPv4-mapped `::ffff:a.b.c.d`.

A Go string is the list of its bytes (`Char`s below 256), exactly as in the rest of the C10 model:
non-ASCII "digits" are multi-byte sequences of bytes ≥ 0x80 and never digits here or in Go.

The correspondence run compares `parseIP` with `net.ParseIP` on every token of every C10 case
(model line `parse-mismatch` otherwise) and on a dedicated token stream (op kind 3).
-/
namespace C10

abbrev Byte := BitVec 8
/-- Go `net.IP` (`[]` is the nil IP) -/
abbrev IP := List Byte
/-- a Go string as the list of its bytes (each a `Char` < 256) -/
abbrev Str := List Char

def v4InV6Prefix : List Byte := [0, 0, 0, 0, 0, 0, 0, 0, 0, 0, 0xff, 0xff]

/-! ## IPv4: `parseIPv4Fields` -/

/-- `s[i] >= '0' && s[i] <= '9'` -/
def isDig (c : Char) : Bool := decide (48 ≤ c.toNat ∧ c.toNat ≤ 57)

/-- `int(s[i]) - '0'` -/
def digVal (c : Char) : Nat := c.toNat - 48

/-- the loop of `parseIPv4Fields` on the rest of the input.  `val`, `digLen` as in Go;
    `fs` = the fields stored so far (`pos = fs.length`).
    Go's test at a dot, `i == 0 || i == len(s)-1 || s[i-1] == '.'`, reads here
    `digLen = 0 ∨ r = []`: `digLen` is 0 exactly at the start and right after a dot (any other
    non-digit byte has already returned an error), and `i == len(s)-1` means nothing follows. -/
def v4Fields : Str → Nat → Nat → List Byte → Option (List Byte)
  | [], val, _, fs =>
    -- `if pos < 3 { too short }; fields[3] = uint8(val)`
    if fs.length < 3 then none else some (fs ++ [BitVec.ofNat 8 val])
  | c :: r, val, digLen, fs =>
    if isDig c then
      if digLen = 1 ∧ val = 0 then none            -- octet with leading zero
      else if val * 10 + digVal c > 255 then none  -- value > 255
      else v4Fields r (val * 10 + digVal c) (digLen + 1) fs
    else if c = '.' then
      if digLen = 0 ∨ r = [] then none             -- field must have at least one digit
      else if fs.length = 3 then none              -- address too long
      else v4Fields r 0 0 (fs ++ [BitVec.ofNat 8 val])
    else none                                      -- unexpected character

/-- `parseIPv4` followed by `As16` -/
def parseV4 (s : Str) : Option IP :=
  match v4Fields s 0 0 [] with
  | some f => some (v4InV6Prefix ++ f)
  | none => none

/-! ## IPv6: `parseIPv6` -/

/-- value of a hex digit byte (both cases) -/
def hexVal6 (c : Char) : Option Nat :=
  if 48 ≤ c.toNat ∧ c.toNat ≤ 57 then some (c.toNat - 48)
  else if 97 ≤ c.toNat ∧ c.toNat ≤ 102 then some (c.toNat - 97 + 10)
  else if 65 ≤ c.toNat ∧ c.toNat ≤ 70 then some (c.toNat - 65 + 10)
  else none

/-- the inner loop "hex number": `(acc, off, s[off:])`; `none` = a fifth digit.
    (Go's second test `acc > math.MaxUint16` can never fire: with at most four digits
    `acc < 16^4`, and the fifth digit fails the `off > 3` test first.) -/
def readHex : Str → Nat → Nat → Option (Nat × Nat × Str)
  | [], acc, off => some (acc, off, [])
  | c :: r, acc, off =>
    match hexVal6 c with
    | none => some (acc, off, c :: r)
    | some v => if off > 3 then none else readHex r (acc * 16 + v) (off + 1)

/-- the main loop `for i < 16` of `parseIPv6`; `ip` = the bytes stored so far (`i = ip.length`),
    `ell` = `ellipsis` (`none` = -1).  Every iteration that does not leave the loop stores
    exactly one group (2 bytes), so the fuel (8 at the start, with `i = 0`) is `(16 - i) / 2` and
    running out of fuel is the loop condition `i < 16` failing.
    Result: `(s, ip, ellipsis)` after the loop; `none` = an error was returned. -/
def loop6 : Nat → Str → List Byte → Option Nat → Option (Str × List Byte × Option Nat)
  | 0, s, ip, ell => some (s, ip, ell)
  | f + 1, s, ip, ell =>
    match readHex s 0 0 with
    | none => none                                   -- more than 4 digits in a group
    | some (acc, off, rest) =>
      if off = 0 then none                           -- no digits
      else if rest.head? = some '.' then
        -- trailing embedded IPv4: `parseIPv4Fields` on the whole rest `s`, group digits included
        if ell = none ∧ ip.length ≠ 12 then none
        else if ip.length + 4 > 16 then none
        else match v4Fields s 0 0 [] with
          | none => none
          | some f4 => some ([], ip ++ f4, ell)      -- `s = ""; i += 4; break`
      else
        let ip' := ip ++ [BitVec.ofNat 8 (acc / 256), BitVec.ofNat 8 acc]
        match rest with
        | [] => some ([], ip', ell)                  -- end of string
        | c :: r1 =>
          if c ≠ ':' then none                       -- want colon
          else match r1 with
            | [] => none                             -- colon must be followed by more
            | c2 :: r2 =>
              if c2 = ':' then
                if ell.isSome then none              -- multiple ::
                else if r2 = [] then some ([], ip', some ip'.length)
                else loop6 f r2 ip' (some ip'.length)
              else loop6 f r1 ip' ell

/-- after the loop: the whole string must be used; expand the ellipsis -/
def expand6 : Option (Str × List Byte × Option Nat) → Option IP
  | none => none
  | some (s, ip, ell) =>
    if s ≠ [] then none                              -- trailing garbage
    else if ip.length < 16 then
      match ell with
      | none => none                                 -- too short
      | some e => some (ip.take e ++ List.replicate (16 - ip.length) 0 ++ ip.drop e)
    else if ell.isSome then none                     -- :: must expand to at least one group
    else some ip

/-- `parseIPv6` followed by `net.parseIP`'s zone test.  A `%` makes `net.ParseIP` fail in every
    case: an empty zone is a parse error, a non-empty one is kept by `WithZone` (a 16-byte `Addr`
    is always `Is6`) and refused by `ip.Zone() != ""`, and a bad address part is an error anyway. -/
def parseV6 (s : Str) : Option IP :=
  if s.contains '%' then none
  else match s with
    | c1 :: c2 :: r =>
      if c1 = ':' ∧ c2 = ':' then
        -- leading ellipsis; might be only the ellipsis
        if r = [] then some (List.replicate 16 0) else expand6 (loop6 8 r [] (some 0))
      else expand6 (loop6 8 s [] none)
    | _ => expand6 (loop6 8 s [] none)

/-! ## `ParseAddr` -/

/-- the scan of `ParseAddr` over the suffix `t` of `s` -/
def dispatch (s : Str) : Str → Option IP
  | [] => none                                       -- unable to parse IP
  | c :: r =>
    if c = '.' then parseV4 s
    else if c = ':' then parseV6 s
    else if c = '%' then none                        -- missing IPv6 address
    else dispatch s r

/-- `net.ParseIP` (`none` = nil) -/
def parseIP (s : Str) : Option IP := dispatch s s

end C10
