import EchoModel.Wire
/-!
# C16 — static file serving (middleware/static.go, echo_fs.go, context_fs.go, group_fs.go)

Model of the name computation and the open / fallback decisions of

* `middleware.StaticWithConfig` (`mw`),
* `echo.StaticDirectoryHandler` behind `Echo.Static`, `Echo.StaticFS`, `Group.Static`,
  `Group.StaticFS` (`staticDir`),
* `fsFile` behind `Echo.File`, `Echo.FileFS`, `Context.File` (`fsFile`).

Implemented here as in Go 1.23 and validated by the correspondence run: `url.PathUnescape`
(`unescape`), `path.Clean` / `filepath.Clean` on Unix (`clean`), `path.Join` of two elements
(`join2`), `path.Base` (`base`), `strings.TrimRight/LastIndex/TrimPrefix/TrimSuffix`,
`fs.ValidPath` (`validPath`, including `utf8.ValidString`), `http.Dir.Open`'s
`Clean("/"+name)` join, `http.FS(fsys).Open` with its `mapOpenError`.

Not modelled (inputs of the model, supplied by the harness from the real run): routing, i.e.
`c.Path()`, `c.Param("*")`, `URL.Path`; what `next(c)` does.  The file system is abstract: a
finite tree (list of clean relative paths with `dir` / `file id`) rooted at a work directory,
the served root being the sub-directory `rootSegs` of it.  No symlinks, no NUL bytes, Unix
separators only.
-/
namespace C16

abbrev Str := List Char

/-! ## strings -/

def splitOn (sep : Char) : Str → List Str
  | [] => [[]]
  | c :: r =>
    if c == sep then [] :: splitOn sep r
    else match splitOn sep r with
      | h :: t => (c :: h) :: t
      | [] => [[c]]

def joinSep (sep : Char) : List Str → Str
  | [] => []
  | [x] => x
  | x :: y :: r => x ++ sep :: joinSep sep (y :: r)

def hasSuffix (s suf : Str) : Bool := suf.reverse.isPrefixOf s.reverse

/-- `strings.TrimPrefix(s, "/")` -/
def trimPrefixC (c : Char) : Str → Str
  | [] => []
  | x :: r => if x == c then r else x :: r

/-- `strings.TrimSuffix(s, suf)` -/
def trimSuffix (s suf : Str) : Str :=
  if hasSuffix s suf then s.take (s.length - suf.length) else s

/-- `strings.TrimRight(s, cutset)` -/
def trimRightSet (s : Str) (cutset : List Char) : Str :=
  (s.reverse.dropWhile (fun c => cutset.contains c)).reverse

/-! ## url.PathUnescape -/

def hexVal (c : Char) : Option Nat :=
  if '0' ≤ c ∧ c ≤ '9' then some (c.toNat - '0'.toNat)
  else if 'a' ≤ c ∧ c ≤ 'f' then some (c.toNat - 'a'.toNat + 10)
  else if 'A' ≤ c ∧ c ≤ 'F' then some (c.toNat - 'A'.toNat + 10)
  else none

/-- `url.PathUnescape`; `none` = `EscapeError` -/
def unescape : Str → Option Str
  | [] => some []
  | '%' :: a :: b :: r =>
    match hexVal a, hexVal b, unescape r with
    | some x, some y, some r' => some (Char.ofNat (x * 16 + y) :: r')
    | _, _, _ => none
  | c :: r =>
    if c == '%' then none
    else match unescape r with
      | some r' => some (c :: r')
      | none => none

/-! ## path.Clean, path.Join, path.Base -/

def dot : Str := ['.']
def dotdot : Str := ['.', '.']

/-- one path element processed by `Clean`; `st` is the output so far, last element first -/
def cleanStep (rooted : Bool) (st : List Str) (seg : Str) : List Str :=
  if seg = [] ∨ seg = dot then st
  else if seg = dotdot then
    match st with
    | [] => if rooted then [] else [seg]
    | top :: rest => if top = dotdot then seg :: st else rest
  else seg :: st

/-- the elements of the cleaned path -/
def cleanSegs (rooted : Bool) (segs : List Str) : List Str :=
  (segs.foldl (cleanStep rooted) []).reverse

def isRooted (p : Str) : Bool := p.head? == some '/'

/-- `path.Clean` (= `filepath.Clean` on Unix) -/
def clean (p : Str) : Str :=
  if p = [] then dot
  else
    let body := joinSep '/' (cleanSegs (isRooted p) (splitOn '/' p))
    if isRooted p then '/' :: body else if body = [] then dot else body

/-- `path.Join(a, b)` -/
def join2 (a b : Str) : Str :=
  if a = [] ∧ b = [] then []
  else if a = [] then clean b
  else clean (a ++ '/' :: b)

/-- the non-empty elements of a path -/
def segsOf (p : Str) : List Str := (splitOn '/' p).filter (· ≠ [])

/-- `path.Base`: `"."` for the empty path, the last non-empty element, `"/"` if there is none -/
def base (p : Str) : Str :=
  if p = [] then dot
  else match (segsOf p).getLast? with
    | some s => s
    | none => ['/']

/-! ## fs.ValidPath -/

def cont (b : Nat) : Bool := 0x80 ≤ b && b ≤ 0xbf

/-- `utf8.ValidString` on the byte values -/
def utf8Valid : List Nat → Bool
  | [] => true
  | b :: r =>
    if b < 0x80 then utf8Valid r
    else if 0xc2 ≤ b ∧ b ≤ 0xdf then
      match r with
      | c1 :: r' => cont c1 && utf8Valid r'
      | _ => false
    else if 0xe0 ≤ b ∧ b ≤ 0xef then
      match r with
      | c1 :: c2 :: r' =>
        (if b = 0xe0 then 0xa0 ≤ c1 && c1 ≤ 0xbf else if b = 0xed then 0x80 ≤ c1 && c1 ≤ 0x9f else cont c1) &&
          cont c2 && utf8Valid r'
      | _ => false
    else if 0xf0 ≤ b ∧ b ≤ 0xf4 then
      match r with
      | c1 :: c2 :: c3 :: r' =>
        (if b = 0xf0 then 0x90 ≤ c1 && c1 ≤ 0xbf else if b = 0xf4 then 0x80 ≤ c1 && c1 ≤ 0x8f else cont c1) &&
          cont c2 && cont c3 && utf8Valid r'
      | _ => false
    else false

/-- a real path element: not empty, not `.`, not `..` -/
def normalSeg (s : Str) : Bool := s ≠ [] && s ≠ dot && s ≠ dotdot

/-- `fs.ValidPath` -/
def validPath (n : Str) : Bool :=
  utf8Valid (n.map Char.toNat) && (n == dot || (splitOn '/' n).all normalSeg)

/-! ## the abstract file system -/

inductive Node where
  | dir
  | file (id : Nat)
deriving DecidableEq, Repr, Inhabited

/-- clean relative path (elements joined by `/`) ↦ node; the work directory itself is a `dir` -/
abbrev Tree := List (Str × Node)

/-- result of opening a name -/
inductive Look where
  | notExist                 -- an error with `os.IsNotExist`
  | invalid                  -- any other error
  | file (id : Nat)
  | dir (at_ : List Str)     -- the directory's elements from the work directory
deriving DecidableEq, Repr, Inhabited

def look (t : Tree) (segs : List Str) : Look :=
  if segs = [] then .dir []
  else match t.lookup (joinSep '/' segs) with
    | some (.file id) => .file id
    | some .dir => .dir segs
    | none => .notExist

/-- names in a directory (`Readdir`), directories with a trailing `/` as the listing shows them -/
def children (t : Tree) (dirSegs : List Str) : List Str :=
  t.filterMap fun (p, n) =>
    let ps := splitOn '/' p
    if ps.length = dirSegs.length + 1 ∧ ps.take dirSegs.length = dirSegs then
      match n with
      | .dir => some (ps.getLast! ++ ['/'])
      | .file _ => some ps.getLast!
    else none

/-- the `http.FileSystem` given to the middleware -/
inductive FsKind where
  | httpDir   -- `http.Dir(root)`
  | httpIoFS  -- `http.FS(fsys)` over an `fs.FS` that answers `ErrInvalid` to a name that is not `fs.ValidPath` (os.DirFS, fs.Sub)
  | httpMapFS -- `http.FS(fstest.MapFS)`: answers `ErrNotExist` to such a name
  | httpDirFS -- `http.FS(os.DirFS(dir))`: like `httpIoFS`, and a name with a NUL byte is `ErrInvalid` too
              -- (`filepath.Localize`); `httpIoFS` / `httpMapFS` just do not find such a name
deriving DecidableEq, Repr, Inhabited

/-- `fsys.Open(n)` of an `fs.FS` rooted at `rootSegs` -/
def ioOpen (t : Tree) (rootSegs : List Str) (n : Str) : Look :=
  if validPath n then look t (rootSegs ++ (if n = dot then [] else splitOn '/' n)) else .invalid

/-- `mapOpenError` of `net/http` for an error that is not `ErrNotExist` -/
def mapOpenErr (t : Tree) (rootSegs : List Str) (n : Str) : Look :=
  let parts := splitOn '/' n
  let rec go (k : Nat) (fuel : Nat) : Look :=
    match fuel with
    | 0 => .invalid
    | fuel + 1 =>
      if k ≥ parts.length then .invalid
      else if parts.getD k [] = [] then go (k + 1) fuel
      else match ioOpen t rootSegs (joinSep '/' (parts.take (k + 1))) with
        | .dir _ => go (k + 1) fuel
        | .file _ => .notExist
        | _ => .invalid
  go 0 parts.length

/-- the NUL byte: no file name contains it; `filepath.Localize` (behind `http.Dir` and
    `os.DirFS`) refuses a name with it, the OS answers `EINVAL` -/
def hasNul (s : Str) : Bool := s.contains (Char.ofNat 0)

/-- `os.DirFS(dir).Open(n)` -/
def ioOpenN (t : Tree) (rootSegs : List Str) (n : Str) : Look :=
  if hasNul n then .invalid else ioOpen t rootSegs n

/-- `mapOpenError` over `os.DirFS` -/
def mapOpenErrN (t : Tree) (rootSegs : List Str) (n : Str) : Look :=
  let parts := splitOn '/' n
  let rec go (k : Nat) (fuel : Nat) : Look :=
    match fuel with
    | 0 => .invalid
    | fuel + 1 =>
      if k ≥ parts.length then .invalid
      else if parts.getD k [] = [] then go (k + 1) fuel
      else match ioOpenN t rootSegs (joinSep '/' (parts.take (k + 1))) with
        | .dir _ => go (k + 1) fuel
        | .file _ => .notExist
        | _ => .invalid
  go 0 parts.length

def fsOpen (kind : FsKind) (t : Tree) (rootSegs : List Str) (name : Str) : Look :=
  match kind with
  | .httpDir =>
    -- `path.Clean("/"+name)[1:]`, `filepath.Localize` (rejects invalid UTF-8 and NUL), join under the root
    let c := clean ('/' :: name)
    if utf8Valid (c.map Char.toNat) && !hasNul c then look t (rootSegs ++ segsOf c) else .invalid
  | .httpDirFS =>
    let n := if name = ['/'] then dot else trimPrefixC '/' name
    match ioOpenN t rootSegs n with
    | .invalid => mapOpenErrN t rootSegs n
    | r => r
  | .httpIoFS =>
    let n := if name = ['/'] then dot else trimPrefixC '/' name
    match ioOpen t rootSegs n with
    | .invalid => mapOpenErr t rootSegs n
    | r => r
  | .httpMapFS =>
    let n := if name = ['/'] then dot else trimPrefixC '/' name
    match ioOpen t rootSegs n with
    | .invalid => .notExist
    | r => r

/-! ## the Static middleware -/

structure MwCfg where
  root : Str          -- `config.Root` after the defaults (`"."` when no Filesystem was given)
  index : Str
  html5 : Bool
  browse : Bool
  ignoreBase : Bool
  kind : FsKind
deriving Repr, Inhabited

/-- what `next(c)` does -/
inductive Next where
  | ok        -- a downstream handler answered, `nil`
  | notFound  -- `echo.ErrNotFound`
deriving DecidableEq, Repr, Inhabited

inductive Outcome where
  | passOK                                   -- fell through to `next`, which answered
  | pass404                                  -- fell through to `next`: 404
  | file (id : Nat)                          -- 200 with the bytes of that file
  | listing (title : Str) (names : List Str) -- 200 with a directory listing
  | error500
  | notFound404                              -- `ErrNotFound` of the fs handlers
  | redirect                                 -- 301 to the path with a trailing slash
  | panic
deriving DecidableEq, Repr, Inhabited

def passNext : Next → Outcome
  | .ok => .passOK
  | .notFound => .pass404

/-- the IgnoreBase rewrite of the joined name (after `fix: Static middleware IgnoreBase …`):
    the route base is stripped only when it is the last element of the request path and of
    the cleaned name -/
def ignoreBaseName (cPath p name : Str) : Str :=
  let routePath := base (trimRightSet cPath ['/', '*'])
  if base p = routePath ∧ base name = routePath then trimSuffix name routePath else name

/-- serve an opened `http.File` -/
def serveOpened (cfg : MwCfg) (t : Tree) (rootSegs : List Str) (name : Str) (next : Next)
    (opened : List Str) : Look → List Str × Outcome
  | .file id => (opened, .file id)
  | .dir d =>
    let iname := join2 name cfg.index
    match fsOpen cfg.kind t rootSegs iname with
    | .file id => (opened ++ [iname], .file id)
    | .dir _ => (opened ++ [iname], .error500)   -- not generated: Index naming a directory
    | _ =>
      if cfg.browse then (opened ++ [iname], .listing name (children t d))
      else (opened ++ [iname], passNext next)
  | .notExist => (opened, .error500)             -- unreachable from `mw`
  | .invalid => (opened, .error500)

/-- the file name the middleware computes for the (unescaped) request path `p`:
    `path.Join(config.Root, path.Clean("/"+p))`, then the IgnoreBase rewrite -/
def mwName (cfg : MwCfg) (cPath p : Str) : Str :=
  let name0 := join2 cfg.root (clean ('/' :: p))
  if cfg.ignoreBase then ignoreBaseName cPath p name0 else name0

/-- everything after the name computation: open, fall through / HTML5 fallback, index, listing -/
def mwServe (cfg : MwCfg) (t : Tree) (rootSegs : List Str) (name : Str) (next : Next) :
    List Str × Outcome :=
  match fsOpen cfg.kind t rootSegs name with
  | .invalid => ([name], .error500)
  | .notExist =>
    match next with
    | .ok => ([name], .passOK)
    | .notFound =>
      if cfg.html5 then
        let iname := join2 cfg.root cfg.index
        match fsOpen cfg.kind t rootSegs iname with
        | .notExist => ([name, iname], .error500)
        | .invalid => ([name, iname], .error500)
        | r => serveOpened cfg t rootSegs name next [name, iname] r
      else ([name], .pass404)
  | r => serveOpened cfg t rootSegs name next [name] r

/-- `StaticWithConfig`'s handler.  `cPath = c.Path()`, `star = c.Param("*")`, `urlPath =
    Request.URL.Path`.  Returns the names passed to `config.Filesystem.Open`, in order, and what
    the client gets. -/
def mw (cfg : MwCfg) (t : Tree) (rootSegs : List Str) (cPath star urlPath : Str) (next : Next) :
    List Str × Outcome :=
  let p0 := if hasSuffix cPath ['*'] then star else urlPath
  match unescape p0 with
  | none => ([], .error500)
  | some p => mwServe cfg t rootSegs (mwName cfg cPath p) next

/-! ## StaticDirectoryHandler and fsFile -/

def indexPage : Str := "index.html".toList

/-- `fsFile(c, file, filesystem)` on an `fs.FS` rooted at `rootSegs` -/
def fsFile (t : Tree) (rootSegs : List Str) (file : Str) : List Str × Outcome :=
  match ioOpen t rootSegs file with
  | .file id => ([file], .file id)
  | .dir _ =>
    let f2 := join2 file indexPage
    match ioOpen t rootSegs f2 with
    | .file id => ([file, f2], .file id)
    | .dir _ => ([file, f2], .error500)        -- not generated: a directory named index.html
    | _ => ([file, f2], .notFound404)
  | _ => ([file], .notFound404)

/-- `StaticDirectoryHandler(fileSystem, false)`: names opened on `fileSystem` and the outcome -/
def staticDir (t : Tree) (rootSegs : List Str) (star urlPath : Str) : List Str × Outcome :=
  match unescape star with
  | none => ([], .error500)
  | some p =>
    let name := clean (trimPrefixC '/' p)
    match ioOpen t rootSegs name with
    | .notExist => ([name], .notFound404)
    | .invalid => ([name], .notFound404)
    | .dir _ =>
      if urlPath ≠ [] ∧ urlPath.getLast? ≠ some '/' then ([name], .redirect)
      else let r := fsFile t rootSegs name; (name :: r.1, r.2)
    | .file _ => let r := fsFile t rootSegs name; (name :: r.1, r.2)

/-! ## round 4: defaults, `Static(root)`, Skipper, failing `Stat` / `Readdir`, helpers

Everything below is add-only: `mw`, `staticDir`, `fsFile` above stay as they are and the
fault-aware variants coincide with them when no fault is injected (proved in
`EchoProofs/C16Ext.lean`). -/

/-- `StaticConfig` as the application writes it; `fs = none` is `Filesystem == nil` -/
structure RawCfg where
  root : Str
  index : Str
  html5 : Bool
  browse : Bool
  ignoreBase : Bool
  fs : Option FsKind
deriving Repr, Inhabited

/-- the prologue of `StaticWithConfig`: `Root "" → "."`, `Index "" → "index.html"`,
    `Filesystem nil → http.Dir(Root)` with `Root` reset to `"."`.  Returns the effective
    configuration and, for the default file system, the directory `http.Dir` is rooted at. -/
def staticDefaults (c : RawCfg) : MwCfg × Option Str :=
  let root := if c.root = [] then dot else c.root
  let index := if c.index = [] then indexPage else c.index
  match c.fs with
  | none => (⟨dot, index, c.html5, c.browse, c.ignoreBase, .httpDir⟩, some root)
  | some k => (⟨root, index, c.html5, c.browse, c.ignoreBase, k⟩, none)

/-- `middleware.Static(root)`: `DefaultStaticConfig` with `Root` set -/
def staticCtor (root : Str) : RawCfg := ⟨root, indexPage, false, false, false, none⟩

/-- the name the harness gives the work directory in absolute paths (`/W/...`) -/
def workName : Str := ['W']

/-- where a directory name lands, as elements below the work directory: an absolute name is
    cleaned, a relative one is joined to the working directory `cwd` (elements below the work
    directory) first — `filepath.Join` / the OS resolving a relative name, lexically.
    `none` = not below the work directory. -/
def dirRootSegs (cwd : List Str) (dir : Str) : Option (List Str) :=
  let full := if isRooted dir then dir else '/' :: joinSep '/' (workName :: cwd) ++ '/' :: dir
  match segsOf (clean full) with
  | w :: rest => if w = workName then some rest else none
  | [] => none

/-- injected failures of the file objects a file system hands out -/
structure Faults where
  statFile : Bool   -- `Stat` of an opened regular file fails
  statDir : Bool    -- `Stat` of an opened directory fails
  readdir : Bool    -- `Readdir` of an opened directory fails
  noSeek : Bool     -- opened `fs.File` values do not implement `io.Seeker` (fs.FS handlers)
deriving Repr, Inhabited, DecidableEq

def noFaults : Faults := ⟨false, false, false, false⟩

def statFails (f : Faults) : Look → Bool
  | .file _ => f.statFile
  | .dir _ => f.statDir
  | _ => false

/-- `serveOpened` with the error returns of `file.Stat()`, `index.Stat()` and `dir.Readdir` -/
def serveOpenedF (f : Faults) (cfg : MwCfg) (t : Tree) (rootSegs : List Str) (name : Str)
    (next : Next) (opened : List Str) (l : Look) : List Str × Outcome :=
  if statFails f l then (opened, .error500)
  else match l with
  | .file id => (opened, .file id)
  | .dir d =>
    let iname := join2 name cfg.index
    match fsOpen cfg.kind t rootSegs iname with
    | .file id => if f.statFile then (opened ++ [iname], .error500) else (opened ++ [iname], .file id)
    | .dir _ => (opened ++ [iname], .error500)
    | _ =>
      if cfg.browse then
        (if f.readdir then (opened ++ [iname], .error500)
         else (opened ++ [iname], .listing name (children t d)))
      else (opened ++ [iname], passNext next)
  | .notExist => (opened, .error500)
  | .invalid => (opened, .error500)

def mwServeF (f : Faults) (cfg : MwCfg) (t : Tree) (rootSegs : List Str) (name : Str)
    (next : Next) : List Str × Outcome :=
  match fsOpen cfg.kind t rootSegs name with
  | .invalid => ([name], .error500)
  | .notExist =>
    match next with
    | .ok => ([name], .passOK)
    | .notFound =>
      if cfg.html5 then
        let iname := join2 cfg.root cfg.index
        match fsOpen cfg.kind t rootSegs iname with
        | .notExist => ([name, iname], .error500)
        | .invalid => ([name, iname], .error500)
        | r => serveOpenedF f cfg t rootSegs name next [name, iname] r
      else ([name], .pass404)
  | r => serveOpenedF f cfg t rootSegs name next [name] r

/-- the handler of `StaticWithConfig` including the Skipper branch (`skip` = what
    `config.Skipper(c)` answered) and injected file failures -/
def mwF (f : Faults) (skip : Bool) (cfg : MwCfg) (t : Tree) (rootSegs : List Str)
    (cPath star urlPath : Str) (next : Next) : List Str × Outcome :=
  if skip then ([], passNext next)
  else
    let p0 := if hasSuffix cPath ['*'] then star else urlPath
    match unescape p0 with
    | none => ([], .error500)
    | some p => mwServeF f cfg t rootSegs (mwName cfg cPath p) next

/-- `StaticWithConfig(raw)` from the raw configuration: defaults, then the handler.  `given` are
    the elements from the work directory to the root of a custom `Filesystem`; for the default
    file system the root is where `http.Dir(Root)` lands from the working directory `cwd`.
    `none` = the model cannot place the root below the work directory. -/
def mwRaw (f : Faults) (skip : Bool) (raw : RawCfg) (t : Tree) (cwd given : List Str)
    (cPath star urlPath : Str) (next : Next) : Option (List Str × Outcome) :=
  match staticDefaults raw with
  | (cfg, none) => some (mwF f skip cfg t given cPath star urlPath next)
  | (cfg, some dir) =>
    match dirRootSegs cwd dir with
    | some rs => some (mwF f skip cfg t rs cPath star urlPath next)
    | none => none

/-- how `fsFile` opens a name -/
inductive OpenMode where
  | io                       -- an `fs.FS` (`fs.ValidPath` enforced) rooted at `rootSegs`
  | os (cwd : List Str)      -- echo's default file system before `MustSubFS`: `os.Open(name)`,
                             -- any name, relative to the working directory
  | dirfs                    -- echo's default file system AFTER `MustSubFS` (`os.DirFS(root)`): an `fs.FS`
                             -- rooted at `rootSegs` that opens nothing unless the root is a directory NOW
deriving Repr, Inhabited

/-- the OS walks a name element by element: `x/..` needs `x` to be an existing directory (unlike
    the lexical `Clean`).  `cur` = where the walk stands, below the work directory. -/
def osWalkOK (t : Tree) : List Str → List Str → Bool
  | _, [] => true
  | cur, seg :: rest =>
    if seg = [] ∨ seg = dot then osWalkOK t cur rest
    else if seg = dotdot then
      (match look t cur with
       | .dir _ => osWalkOK t cur.dropLast rest
       | _ => false)
    else osWalkOK t (cur ++ [seg]) rest

/-- every `..` of the name is taken from an existing directory -/
def osDotDotOK (t : Tree) (cwd : List Str) (name : Str) : Bool :=
  if isRooted name then
    match segsOf name with
    | w :: rest => if w = workName then osWalkOK t [] rest else true
    | [] => true
  else osWalkOK t cwd (splitOn '/' name)

/-- `os.Open(name)`: the empty name and a regular file followed by a slash are errors -/
def osOpen (t : Tree) (cwd : List Str) (name : Str) : Look :=
  if name = [] then .notExist
  else if !osDotDotOK t cwd name then .notExist
  else match dirRootSegs cwd name with
    | none => .notExist
    | some segs =>
      match look t segs with
      | .file id => if name.getLast? = some '/' then .notExist else .file id
      | r => r

def openBy (m : OpenMode) (t : Tree) (rootSegs : List Str) (name : Str) : Look :=
  match m with
  | .io => ioOpen t rootSegs name
  | .os cwd => osOpen t cwd name
  | .dirfs =>
    match look t rootSegs with
    | .dir _ => ioOpen t rootSegs name
    | _ => .notExist

/-- serve an opened regular file: `fi, _ := f.Stat()` with a failing `Stat` leaves `fi` nil and
    `fi.IsDir()` panics; a file that is no `io.ReadSeeker` is refused -/
def fsFileF (f : Faults) (m : OpenMode) (t : Tree) (rootSegs : List Str) (file : Str) :
    List Str × Outcome :=
  match openBy m t rootSegs file with
  | .file id =>
    if f.statFile then ([file], .panic)
    else if f.noSeek then ([file], .error500)
    else ([file], .file id)
  | .dir _ =>
    if f.statDir then ([file], .panic)
    else
      let f2 := join2 file indexPage
      match openBy m t rootSegs f2 with
      | .file id =>
        if f.statFile then ([file, f2], .error500)
        else if f.noSeek then ([file, f2], .error500)
        else ([file, f2], .file id)
      | .dir _ => ([file, f2], .error500)
      | _ => ([file, f2], .notFound404)
  | _ => ([file], .notFound404)

/-- `StaticDirectoryHandler` over an `fs.FS` whose files may fail (`fs.Stat` = Open + Stat) -/
def staticDirF (f : Faults) (t : Tree) (rootSegs : List Str) (star urlPath : Str) :
    List Str × Outcome :=
  match unescape star with
  | none => ([], .error500)
  | some p =>
    let name := clean (trimPrefixC '/' p)
    match ioOpen t rootSegs name with
    | .notExist => ([name], .notFound404)
    | .invalid => ([name], .notFound404)
    | .dir _ =>
      if f.statDir then ([name], .notFound404)
      else if urlPath ≠ [] ∧ urlPath.getLast? ≠ some '/' then ([name], .redirect)
      else let r := fsFileF f .io t rootSegs name; (name :: r.1, r.2)
    | .file _ =>
      if f.statFile then ([name], .notFound404)
      else let r := fsFileF f .io t rootSegs name; (name :: r.1, r.2)

/-- `StaticDirectoryHandler(fsys, true)` (`disablePathUnescaping`: for an application whose router already
    unescapes path parameters, mounted by hand with `e.GET(prefix+"*", …)`): the path parameter is used as
    it is — no `url.PathUnescape`, so a literal `%` stays a `%` — everything else as `staticDirF` -/
def staticDirRawF (f : Faults) (t : Tree) (rootSegs : List Str) (p urlPath : Str) :
    List Str × Outcome :=
  let name := clean (trimPrefixC '/' p)
  match ioOpen t rootSegs name with
  | .notExist => ([name], .notFound404)
  | .invalid => ([name], .notFound404)
  | .dir _ =>
    if f.statDir then ([name], .notFound404)
    else if urlPath ≠ [] ∧ urlPath.getLast? ≠ some '/' then ([name], .redirect)
    else let r := fsFileF f .io t rootSegs name; (name :: r.1, r.2)
  | .file _ =>
    if f.statFile then ([name], .notFound404)
    else let r := fsFileF f .io t rootSegs name; (name :: r.1, r.2)

/-- `StaticDirectoryHandler` over `os.DirFS(root)` — what `subFS` makes of echo's default file system
    (`Echo.Static`, `Group.Static`, `MustSubFS(e.Filesystem, root)`).  `os.DirFS` is a string: it is
    attached whether or not `root` exists when the route is registered, and every `Open` / `Stat`
    goes to the OS with `root + "/" + name`.  So nothing is found unless the root IS a directory when
    the request is served (`ENOENT` for a missing root, `ENOTDIR` for a root that is a regular file —
    also for the name `.`), and everything below it is found as soon as it is one.  An undecodable
    path parameter is refused before the file system is asked. -/
def staticDirD (f : Faults) (t : Tree) (rootSegs : List Str) (star urlPath : Str) :
    List Str × Outcome :=
  match look t rootSegs with
  | .dir _ => staticDirF f t rootSegs star urlPath
  | _ =>
    match unescape star with
    | none => ([], .error500)
    | some p => ([clean (trimPrefixC '/' p)], .notFound404)

/-- `fs.Sub(parent, filepath.Clean(root))` (behind `MustSubFS` for a non-default file system):
    the elements of the sub-root below the parent's root; `none` = `MustSubFS` panics -/
def subRootSegs (root : Str) : Option (List Str) :=
  let c := clean root
  if validPath c then some (if c = dot then [] else splitOn '/' c) else none

/-- echo's default file system narrowed step by step (`e.Filesystem = MustSubFS(e.Filesystem, r1)`,
    then `e.Static(prefix, r2)`, `g.Static`, another `MustSubFS` …): `subFS` on a `*defaultFS` joins
    each root to the directory the file system is rooted at NOW (its `prefix`), an absolute root
    replaces it.  Result: the elements of the final root below the work directory. -/
def deriveRoots (cwd : List Str) : List Str → Option (List Str)
  | [] => some cwd
  | r :: rest =>
    match dirRootSegs cwd r with
    | some d => deriveRoots d rest
    | none => none

/-! ### when a configuration value is read

An application can change its environment between four moments: `echo.New()`, the registration
of a route, the first request, any later request.  Two things matter for static serving: the
process working directory and the value of `Echo.Filesystem`. -/

/-- the value of something at the four moments -/
structure Times (α : Type) where
  atNew : α
  atRegister : α
  atFirstRequest : α
  atRequest : α
deriving Repr

/-- `Echo.Static` / `Group.Static` / `MustSubFS` on the DEFAULT file system: the working directory is
    read once, by `echo.New()` (`newDefaultFS`: `prefix = os.Getwd()`); every later root is joined to
    that prefix when the route is registered and the result is an absolute directory. -/
def staticRouteRoot (cwd : Times (List Str)) (roots : List Str) : Option (List Str) :=
  deriveRoots cwd.atNew roots

/-- the Static middleware with the default file system is `http.Dir(Root)`: a relative `Root` is
    resolved by the OS on every `Open`, i.e. against the working directory of that moment; so is a
    relative name given to `Echo.File` on the default file system (`os.Open`) -/
def openTimeRoot (cwd : Times (List Str)) (root : Str) : Option (List Str) :=
  dirRootSegs cwd.atRequest root

/-- a Static / StaticFS route (Echo or Group) keeps the file system it was given — for
    `Static` the sub file system of `Echo.Filesystem` taken at registration; a `File` route and
    `Context.File` read `Echo.Filesystem` when the request is served -/
def staticRouteFS {α : Type} (fs : Times α) : α := fs.atRegister
def fileRouteFS {α : Type} (fs : Times α) : α := fs.atRequest

/-- a part of the directory tree that is not always there: a directory (with its content) an
    application creates or removes while it runs — an uploads or build-output directory, a typo that is
    repaired later.  `present` says at which of the four moments it exists. -/
structure Late where
  present : Times Bool
  entries : Tree
deriving Repr

/-- the directory tree at the four moments -/
def treeAt (base : Tree) (l : Late) : Times Tree :=
  let w (b : Bool) : Tree := if b then base ++ l.entries else base
  ⟨w l.present.atNew, w l.present.atRegister, w l.present.atFirstRequest, w l.present.atRequest⟩

/-- Every static handler — the middleware (`http.Dir`, any `http.FileSystem`), the Static / StaticFS
    routes (`os.DirFS`, `fs.Sub`), the File helpers — asks the file system when the request is served
    and keeps nothing from earlier moments: neither whether the root existed when the middleware was
    constructed / the route was registered, nor what an earlier request found. -/
def servedTree (tt : Times Tree) : Tree := tt.atRequest

/-- `quoteEscaper.Replace(name)`: backslash and double quote get a backslash in front -/
def quoteEscape : Str → Str
  | [] => []
  | c :: r =>
    if c = '\\' then '\\' :: '\\' :: quoteEscape r
    else if c = '"' then '\\' :: '"' :: quoteEscape r
    else c :: quoteEscape r

/-- the `Content-Disposition` value set by `Context.Attachment` / `Context.Inline` -/
def dispHeader (typ name : Str) : Str :=
  typ ++ "; filename=\"".toList ++ quoteEscape name ++ ['"']

/-- `contentDisposition`: set the header, then `c.File(file)`; the served file does not depend
    on the display name -/
def dispFile (f : Faults) (m : OpenMode) (t : Tree) (rootSegs : List Str) (file typ name : Str) :
    Str × (List Str × Outcome) :=
  (dispHeader typ name, fsFileF f m t rootSegs file)

/-! ## wire -/
open Wire

def pNode : P Node := do
  let k ← nat
  match k with
  | 0 => pure .dir
  | _ => pure (.file (k - 1))

def pTree : P Tree := list (do let p ← str; let n ← pNode; pure (p, n))

def pKind : P FsKind := do
  let k ← nat
  match k with
  | 0 => pure .httpDir | 1 => pure .httpIoFS | 2 => pure .httpMapFS | 3 => pure .httpDirFS | _ => failure

def pNext : P Next := do
  let b ← bool
  pure (if b then .ok else .notFound)

def encOutcome : Outcome → List String
  | .passOK => ["next-ok"]
  | .pass404 => ["next-404"]
  | .file id => ["file", toString id]
  | .listing title names => "list" :: encStr title :: encList (fun n => [encStr n]) names
  | .error500 => ["err500"]
  | .notFound404 => ["404"]
  | .redirect => ["redirect"]
  | .panic => ["panic"]

def encResult (rec : Bool) (r : List Str × Outcome) : String :=
  render ((if rec then encList (fun n => [encStr n]) r.1 else []) ++ encOutcome r.2)

def pFaults : P Faults := do
  let a ← bool
  let b ← bool
  let c ← bool
  let d ← bool
  pure ⟨a, b, c, d⟩

/-- where the root of a Static(FS) route is: given by the harness, or a `MustSubFS` root string
    below the work directory -/
inductive RootSpec where
  | given (rs : List Str)
  | sub (root : Str)
  | derived (cwd : List Str) (roots : List Str)   -- default file system narrowed by these roots in turn
  | derivedT (cwd : Times (List Str)) (roots : List Str)  -- the same, the working directory at the four moments

inductive Op where
  | mw (rec : Bool) (cfg : MwCfg) (t : Tree) (rootSegs : List Str) (cPath star urlPath : Str) (next : Next)
  | dir (rec : Bool) (t : Tree) (rootSegs : List Str) (star urlPath : Str)
  | file (rec : Bool) (t : Tree) (rootSegs : List Str) (name : Str)
  | mwRaw (rec : Bool) (t : Tree) (given : List Str) (f : Faults) (skip : Bool) (raw : RawCfg)
      (cwd : List Str) (cPath star urlPath : Str) (next : Next)
  | dirF (rec : Bool) (t : Tree) (root : RootSpec) (f : Faults) (star urlPath : Str)
  | fileF (rec : Bool) (t : Tree) (rootSegs : List Str) (f : Faults) (m : OpenMode) (name : Str)
      (disp : Option (Str × Str))
  | dirRaw (rec : Bool) (t : Tree) (rootSegs : List Str) (f : Faults) (star urlPath : Str)

def pOp : P Op := do
  let k ← nat
  let rec_ ← bool
  let t ← pTree
  let rs ← list str
  match k with
  | 0 =>
    let root ← str
    let index ← str
    let h ← bool
    let b ← bool
    let ib ← bool
    let kind ← pKind
    let cp ← str
    let st ← str
    let up ← str
    let nx ← pNext
    pure (.mw rec_ ⟨root, index, h, b, ib, kind⟩ t rs cp st up nx)
  | 1 =>
    let st ← str
    let up ← str
    pure (.dir rec_ t rs st up)
  | 2 =>
    let n ← str
    pure (.file rec_ t rs n)
  | 4 =>
    let f ← pFaults
    let skip ← bool
    let root ← str
    let index ← str
    let h ← bool
    let b ← bool
    let ib ← bool
    let kind ← opt pKind
    let cwd ← list str
    let cp ← str
    let st ← str
    let up ← str
    let nx ← pNext
    pure (.mwRaw rec_ t rs f skip ⟨root, index, h, b, ib, kind⟩ cwd cp st up nx)
  | 5 =>
    let f ← pFaults
    let mode ← nat
    let spec ← (match mode with
      | 0 => pure (RootSpec.given rs)
      | 1 => do let r ← str; pure (RootSpec.sub r)
      | 2 => do let cwd ← list str; let roots ← list str; pure (RootSpec.derived cwd roots)
      | _ => do
        let a ← list str; let b ← list str; let c ← list str; let d ← list str
        let roots ← list str
        pure (RootSpec.derivedT ⟨a, b, c, d⟩ roots))
    let st ← str
    let up ← str
    pure (.dirF rec_ t spec f st up)
  | 6 =>
    let f ← pFaults
    let mk ← nat
    let m ← (match mk with
      | 0 => pure OpenMode.io
      | 1 => do let c ← list str; pure (OpenMode.os c)
      | _ => pure OpenMode.dirfs)
    let n ← str
    let disp ← opt (do let a ← str; let b ← str; pure (a, b))
    pure (.fileF rec_ t rs f m n disp)
  | 7 =>
    let f ← pFaults
    let st ← str
    let up ← str
    pure (.dirRaw rec_ t rs f st up)
  | _ => failure

def Op.mapTree (g : Tree → Tree) : Op → Op
  | .mw r cfg t rs cp st up nx => .mw r cfg (g t) rs cp st up nx
  | .dir r t rs st up => .dir r (g t) rs st up
  | .file r t rs n => .file r (g t) rs n
  | .mwRaw r t given f skip raw cwd cp st up nx => .mwRaw r (g t) given f skip raw cwd cp st up nx
  | .dirF r t spec f st up => .dirF r (g t) spec f st up
  | .fileF r t rs f m n d => .fileF r (g t) rs f m n d
  | .dirRaw r t rs f st up => .dirRaw r (g t) rs f st up

/-- optional tail of a line: `b b b b n (path node)*` — a part of the tree and the moments it exists at -/
def pLate : P (Option Late) := fun s =>
  match s with
  | [] => some (none, [])
  | _ => (do
      let a ← bool; let b ← bool; let c ← bool; let d ← bool
      let es ← pTree
      pure (some (⟨⟨a, b, c, d⟩, es⟩ : Late))) s

def pLine : P (Op × Option Late) := do
  let op ← pOp
  let l ← pLate
  pure (op, l)

def runOp : Op → String
  | .mw r cfg t rs cp st up nx => encResult r (mw cfg t rs cp st up nx)
  | .dir r t rs st up => encResult r (staticDir t rs st up)
  | .file r t rs n => encResult r (fsFile t rs n)
  | .mwRaw r t given f skip raw cwd cp st up nx =>
    match mwRaw f skip raw t cwd given cp st up nx with
    | some res => encResult r res
    | none => "root-outside-work-directory"
  | .dirF r t (.given rs) f st up => encResult r (staticDirF f t rs st up)
  | .dirF r t (.sub root) f st up =>
    match subRootSegs root with
    | some rs => encResult r (staticDirF f t rs st up)
    | none => "config-panic"
  | .dirF r t (.derived cwd roots) f st up =>
    match deriveRoots cwd roots with
    | some rs => encResult r (staticDirD f t rs st up)
    | none => "root-outside-work-directory"
  | .dirF r t (.derivedT cwd roots) f st up =>
    match staticRouteRoot cwd roots with
    | some rs => encResult r (staticDirD f t rs st up)
    | none => "root-outside-work-directory"
  | .fileF r t rs f m n none => encResult r (fsFileF f m t rs n)
  | .fileF r t rs f m n (some (typ, dn)) =>
    let d := dispFile f m t rs n typ dn
    render [encStr d.1] ++ " " ++ encResult r d.2
  | .dirRaw r t rs f st up => encResult r (staticDirRawF f t rs st up)

/-- lines: `kind rec tree rootSegs … [late]` → `[n name*] outcome`; with a `late` tail the handlers see
    the tree of the moment the request is served -/
def runLine (line : String) : String :=
  match parseLine pLine line with
  | none => "bad-op"
  | some (op, none) => runOp op
  | some (op, some l) => runOp (op.mapTree fun t => servedTree (treeAt t l))

end C16
