import EchoModel.Wire
/-!
# C16 — static file serving (middleware/static.go, echo_fs.go, context_fs.go, group_fs.go)

Model of the name computation and the open / fallback decisions of

* `middleware.StaticWithConfig` (`mw`),
* `echo.StaticDirectoryHandler` behind `Echo.Static`, `Echo.StaticFS`, `Group.Static`,
  `Group.StaticFS` (`staticDir`),
* `fsFile` behind `Echo.File`, `Echo.FileFS`, `Context.File` (`fsFile`).

Implemented here as in Go 1.23 and validated by the correspondence run: `url.PathUnescape`
(`unescape`), `path.Clean` / `filepath.Clean` on Unix (`clean`), `path.Join` of two elements
(`join2`), `path.Base` (`base`), `strings.TrimRight/LastIndex/TrimPrefix/TrimSuffix`,
`fs.ValidPath` (`validPath`, including `utf8.ValidString`), `http.Dir.Open`'s
`Clean("/"+name)` join, `http.FS(fsys).Open` with its `mapOpenError`.

Not modelled (inputs of the model, supplied by the harness from the real run): routing, i.e.
`c.Path()`, `c.Param("*")`, `URL.Path`; what `next(c)` does.  The file system is abstract: a
finite tree (list of clean relative paths with `dir` / `file id`) rooted at a work directory,
the served root being the sub-directory `rootSegs` of it.  No symlinks, no NUL bytes, Unix
separators only.
-/
namespace C16

abbrev Str := List Char

/-! ## strings -/

def splitOn (sep : Char) : Str → List Str
  | [] => [[]]
  | c :: r =>
    if c == sep then [] :: splitOn sep r
    else match splitOn sep r with
      | h :: t => (c :: h) :: t
      | [] => [[c]]

def joinSep (sep : Char) : List Str → Str
  | [] => []
  | [x] => x
  | x :: y :: r => x ++ sep :: joinSep sep (y :: r)

def hasSuffix (s suf : Str) : Bool := suf.reverse.isPrefixOf s.reverse

/-- `strings.TrimPrefix(s, "/")` -/
def trimPrefixC (c : Char) : Str → Str
  | [] => []
  | x :: r => if x == c then r else x :: r

/-- `strings.TrimSuffix(s, suf)` -/
def trimSuffix (s suf : Str) : Str :=
  if hasSuffix s suf then s.take (s.length - suf.length) else s

/-- `strings.TrimRight(s, cutset)` -/
def trimRightSet (s : Str) (cutset : List Char) : Str :=
  (s.reverse.dropWhile (fun c => cutset.contains c)).reverse

/-! ## url.PathUnescape -/

def hexVal (c : Char) : Option Nat :=
  if '0' ≤ c ∧ c ≤ '9' then some (c.toNat - '0'.toNat)
  else if 'a' ≤ c ∧ c ≤ 'f' then some (c.toNat - 'a'.toNat + 10)
  else if 'A' ≤ c ∧ c ≤ 'F' then some (c.toNat - 'A'.toNat + 10)
  else none

/-- `url.PathUnescape`; `none` = `EscapeError` -/
def unescape : Str → Option Str
  | [] => some []
  | '%' :: a :: b :: r =>
    match hexVal a, hexVal b, unescape r with
    | some x, some y, some r' => some (Char.ofNat (x * 16 + y) :: r')
    | _, _, _ => none
  | c :: r =>
    if c == '%' then none
    else match unescape r with
      | some r' => some (c :: r')
      | none => none

/-! ## path.Clean, path.Join, path.Base -/

def dot : Str := ['.']
def dotdot : Str := ['.', '.']

/-- one path element processed by `Clean`; `st` is the output so far, last element first -/
def cleanStep (rooted : Bool) (st : List Str) (seg : Str) : List Str :=
  if seg = [] ∨ seg = dot then st
  else if seg = dotdot then
    match st with
    | [] => if rooted then [] else [seg]
    | top :: rest => if top = dotdot then seg :: st else rest
  else seg :: st

/-- the elements of the cleaned path -/
def cleanSegs (rooted : Bool) (segs : List Str) : List Str :=
  (segs.foldl (cleanStep rooted) []).reverse

def isRooted (p : Str) : Bool := p.head? == some '/'

/-- `path.Clean` (= `filepath.Clean` on Unix) -/
def clean (p : Str) : Str :=
  if p = [] then dot
  else
    let body := joinSep '/' (cleanSegs (isRooted p) (splitOn '/' p))
    if isRooted p then '/' :: body else if body = [] then dot else body

/-- `path.Join(a, b)` -/
def join2 (a b : Str) : Str :=
  if a = [] ∧ b = [] then []
  else if a = [] then clean b
  else clean (a ++ '/' :: b)

/-- the non-empty elements of a path -/
def segsOf (p : Str) : List Str := (splitOn '/' p).filter (· ≠ [])

/-- `path.Base`: `"."` for the empty path, the last non-empty element, `"/"` if there is none -/
def base (p : Str) : Str :=
  if p = [] then dot
  else match (segsOf p).getLast? with
    | some s => s
    | none => ['/']

/-! ## fs.ValidPath -/

def cont (b : Nat) : Bool := 0x80 ≤ b && b ≤ 0xbf

/-- `utf8.ValidString` on the byte values -/
def utf8Valid : List Nat → Bool
  | [] => true
  | b :: r =>
    if b < 0x80 then utf8Valid r
    else if 0xc2 ≤ b ∧ b ≤ 0xdf then
      match r with
      | c1 :: r' => cont c1 && utf8Valid r'
      | _ => false
    else if 0xe0 ≤ b ∧ b ≤ 0xef then
      match r with
      | c1 :: c2 :: r' =>
        (if b = 0xe0 then 0xa0 ≤ c1 && c1 ≤ 0xbf else if b = 0xed then 0x80 ≤ c1 && c1 ≤ 0x9f else cont c1) &&
          cont c2 && utf8Valid r'
      | _ => false
    else if 0xf0 ≤ b ∧ b ≤ 0xf4 then
      match r with
      | c1 :: c2 :: c3 :: r' =>
        (if b = 0xf0 then 0x90 ≤ c1 && c1 ≤ 0xbf else if b = 0xf4 then 0x80 ≤ c1 && c1 ≤ 0x8f else cont c1) &&
          cont c2 && cont c3 && utf8Valid r'
      | _ => false
    else false

/-- a real path element: not empty, not `.`, not `..` -/
def normalSeg (s : Str) : Bool := s ≠ [] && s ≠ dot && s ≠ dotdot

/-- `fs.ValidPath` -/
def validPath (n : Str) : Bool :=
  utf8Valid (n.map Char.toNat) && (n == dot || (splitOn '/' n).all normalSeg)

/-! ## the abstract file system -/

inductive Node where
  | dir
  | file (id : Nat)
deriving DecidableEq, Repr, Inhabited

/-- clean relative path (elements joined by `/`) ↦ node; the work directory itself is a `dir` -/
abbrev Tree := List (Str × Node)

/-- result of opening a name -/
inductive Look where
  | notExist                 -- an error with `os.IsNotExist`
  | invalid                  -- any other error
  | file (id : Nat)
  | dir (at_ : List Str)     -- the directory's elements from the work directory
deriving DecidableEq, Repr, Inhabited

def look (t : Tree) (segs : List Str) : Look :=
  if segs = [] then .dir []
  else match t.lookup (joinSep '/' segs) with
    | some (.file id) => .file id
    | some .dir => .dir segs
    | none => .notExist

/-- names in a directory (`Readdir`), directories with a trailing `/` as the listing shows them -/
def children (t : Tree) (dirSegs : List Str) : List Str :=
  t.filterMap fun (p, n) =>
    let ps := splitOn '/' p
    if ps.length = dirSegs.length + 1 ∧ ps.take dirSegs.length = dirSegs then
      match n with
      | .dir => some (ps.getLast! ++ ['/'])
      | .file _ => some ps.getLast!
    else none

/-- the `http.FileSystem` given to the middleware -/
inductive FsKind where
  | httpDir   -- `http.Dir(root)`
  | httpIoFS  -- `http.FS(fsys)` over an `fs.FS` that answers `ErrInvalid` to a name that is not `fs.ValidPath` (os.DirFS, fs.Sub)
  | httpMapFS -- `http.FS(fstest.MapFS)`: answers `ErrNotExist` to such a name
deriving DecidableEq, Repr, Inhabited

/-- `fsys.Open(n)` of an `fs.FS` rooted at `rootSegs` -/
def ioOpen (t : Tree) (rootSegs : List Str) (n : Str) : Look :=
  if validPath n then look t (rootSegs ++ (if n = dot then [] else splitOn '/' n)) else .invalid

/-- `mapOpenError` of `net/http` for an error that is not `ErrNotExist` -/
def mapOpenErr (t : Tree) (rootSegs : List Str) (n : Str) : Look :=
  let parts := splitOn '/' n
  let rec go (k : Nat) (fuel : Nat) : Look :=
    match fuel with
    | 0 => .invalid
    | fuel + 1 =>
      if k ≥ parts.length then .invalid
      else if parts.getD k [] = [] then go (k + 1) fuel
      else match ioOpen t rootSegs (joinSep '/' (parts.take (k + 1))) with
        | .dir _ => go (k + 1) fuel
        | .file _ => .notExist
        | _ => .invalid
  go 0 parts.length

def fsOpen (kind : FsKind) (t : Tree) (rootSegs : List Str) (name : Str) : Look :=
  match kind with
  | .httpDir =>
    -- `path.Clean("/"+name)[1:]`, `filepath.Localize` (rejects invalid UTF-8), join under the root
    let c := clean ('/' :: name)
    if utf8Valid (c.map Char.toNat) then look t (rootSegs ++ segsOf c) else .invalid
  | .httpIoFS =>
    let n := if name = ['/'] then dot else trimPrefixC '/' name
    match ioOpen t rootSegs n with
    | .invalid => mapOpenErr t rootSegs n
    | r => r
  | .httpMapFS =>
    let n := if name = ['/'] then dot else trimPrefixC '/' name
    match ioOpen t rootSegs n with
    | .invalid => .notExist
    | r => r

/-! ## the Static middleware -/

structure MwCfg where
  root : Str          -- `config.Root` after the defaults (`"."` when no Filesystem was given)
  index : Str
  html5 : Bool
  browse : Bool
  ignoreBase : Bool
  kind : FsKind
deriving Repr, Inhabited

/-- what `next(c)` does -/
inductive Next where
  | ok        -- a downstream handler answered, `nil`
  | notFound  -- `echo.ErrNotFound`
deriving DecidableEq, Repr, Inhabited

inductive Outcome where
  | passOK                                   -- fell through to `next`, which answered
  | pass404                                  -- fell through to `next`: 404
  | file (id : Nat)                          -- 200 with the bytes of that file
  | listing (title : Str) (names : List Str) -- 200 with a directory listing
  | error500
  | notFound404                              -- `ErrNotFound` of the fs handlers
  | redirect                                 -- 301 to the path with a trailing slash
  | panic
deriving DecidableEq, Repr, Inhabited

def passNext : Next → Outcome
  | .ok => .passOK
  | .notFound => .pass404

/-- the IgnoreBase rewrite of the joined name (after `fix: Static middleware IgnoreBase …`):
    the route base is stripped only when it is the last element of the request path and of
    the cleaned name -/
def ignoreBaseName (cPath p name : Str) : Str :=
  let routePath := base (trimRightSet cPath ['/', '*'])
  if base p = routePath ∧ base name = routePath then trimSuffix name routePath else name

/-- serve an opened `http.File` -/
def serveOpened (cfg : MwCfg) (t : Tree) (rootSegs : List Str) (name : Str) (next : Next)
    (opened : List Str) : Look → List Str × Outcome
  | .file id => (opened, .file id)
  | .dir d =>
    let iname := join2 name cfg.index
    match fsOpen cfg.kind t rootSegs iname with
    | .file id => (opened ++ [iname], .file id)
    | .dir _ => (opened ++ [iname], .error500)   -- not generated: Index naming a directory
    | _ =>
      if cfg.browse then (opened ++ [iname], .listing name (children t d))
      else (opened ++ [iname], passNext next)
  | .notExist => (opened, .error500)             -- unreachable from `mw`
  | .invalid => (opened, .error500)

/-- the file name the middleware computes for the (unescaped) request path `p`:
    `path.Join(config.Root, path.Clean("/"+p))`, then the IgnoreBase rewrite -/
def mwName (cfg : MwCfg) (cPath p : Str) : Str :=
  let name0 := join2 cfg.root (clean ('/' :: p))
  if cfg.ignoreBase then ignoreBaseName cPath p name0 else name0

/-- everything after the name computation: open, fall through / HTML5 fallback, index, listing -/
def mwServe (cfg : MwCfg) (t : Tree) (rootSegs : List Str) (name : Str) (next : Next) :
    List Str × Outcome :=
  match fsOpen cfg.kind t rootSegs name with
  | .invalid => ([name], .error500)
  | .notExist =>
    match next with
    | .ok => ([name], .passOK)
    | .notFound =>
      if cfg.html5 then
        let iname := join2 cfg.root cfg.index
        match fsOpen cfg.kind t rootSegs iname with
        | .notExist => ([name, iname], .error500)
        | .invalid => ([name, iname], .error500)
        | r => serveOpened cfg t rootSegs name next [name, iname] r
      else ([name], .pass404)
  | r => serveOpened cfg t rootSegs name next [name] r

/-- `StaticWithConfig`'s handler.  `cPath = c.Path()`, `star = c.Param("*")`, `urlPath =
    Request.URL.Path`.  Returns the names passed to `config.Filesystem.Open`, in order, and what
    the client gets. -/
def mw (cfg : MwCfg) (t : Tree) (rootSegs : List Str) (cPath star urlPath : Str) (next : Next) :
    List Str × Outcome :=
  let p0 := if hasSuffix cPath ['*'] then star else urlPath
  match unescape p0 with
  | none => ([], .error500)
  | some p => mwServe cfg t rootSegs (mwName cfg cPath p) next

/-! ## StaticDirectoryHandler and fsFile -/

def indexPage : Str := "index.html".toList

/-- `fsFile(c, file, filesystem)` on an `fs.FS` rooted at `rootSegs` -/
def fsFile (t : Tree) (rootSegs : List Str) (file : Str) : List Str × Outcome :=
  match ioOpen t rootSegs file with
  | .file id => ([file], .file id)
  | .dir _ =>
    let f2 := join2 file indexPage
    match ioOpen t rootSegs f2 with
    | .file id => ([file, f2], .file id)
    | .dir _ => ([file, f2], .error500)        -- not generated: a directory named index.html
    | _ => ([file, f2], .notFound404)
  | _ => ([file], .notFound404)

/-- `StaticDirectoryHandler(fileSystem, false)`: names opened on `fileSystem` and the outcome -/
def staticDir (t : Tree) (rootSegs : List Str) (star urlPath : Str) : List Str × Outcome :=
  match unescape star with
  | none => ([], .error500)
  | some p =>
    let name := clean (trimPrefixC '/' p)
    match ioOpen t rootSegs name with
    | .notExist => ([name], .notFound404)
    | .invalid => ([name], .notFound404)
    | .dir _ =>
      if urlPath ≠ [] ∧ urlPath.getLast? ≠ some '/' then ([name], .redirect)
      else let r := fsFile t rootSegs name; (name :: r.1, r.2)
    | .file _ => let r := fsFile t rootSegs name; (name :: r.1, r.2)

/-! ## wire -/
open Wire

def pNode : P Node := do
  let k ← nat
  match k with
  | 0 => pure .dir
  | _ => pure (.file (k - 1))

def pTree : P Tree := list (do let p ← str; let n ← pNode; pure (p, n))

def pKind : P FsKind := do
  let k ← nat
  match k with
  | 0 => pure .httpDir | 1 => pure .httpIoFS | 2 => pure .httpMapFS | _ => failure

def pNext : P Next := do
  let b ← bool
  pure (if b then .ok else .notFound)

def encOutcome : Outcome → List String
  | .passOK => ["next-ok"]
  | .pass404 => ["next-404"]
  | .file id => ["file", toString id]
  | .listing title names => "list" :: encStr title :: encList (fun n => [encStr n]) names
  | .error500 => ["err500"]
  | .notFound404 => ["404"]
  | .redirect => ["redirect"]
  | .panic => ["panic"]

def encResult (rec : Bool) (r : List Str × Outcome) : String :=
  render ((if rec then encList (fun n => [encStr n]) r.1 else []) ++ encOutcome r.2)

inductive Op where
  | mw (rec : Bool) (cfg : MwCfg) (t : Tree) (rootSegs : List Str) (cPath star urlPath : Str) (next : Next)
  | dir (rec : Bool) (t : Tree) (rootSegs : List Str) (star urlPath : Str)
  | file (rec : Bool) (t : Tree) (rootSegs : List Str) (name : Str)

def pOp : P Op := do
  let k ← nat
  let rec_ ← bool
  let t ← pTree
  let rs ← list str
  match k with
  | 0 =>
    let root ← str
    let index ← str
    let h ← bool
    let b ← bool
    let ib ← bool
    let kind ← pKind
    let cp ← str
    let st ← str
    let up ← str
    let nx ← pNext
    pure (.mw rec_ ⟨root, index, h, b, ib, kind⟩ t rs cp st up nx)
  | 1 =>
    let st ← str
    let up ← str
    pure (.dir rec_ t rs st up)
  | 2 =>
    let n ← str
    pure (.file rec_ t rs n)
  | _ => failure

/-- lines: `kind rec tree rootSegs …` → `[n name*] outcome` -/
def runLine (line : String) : String :=
  match parseLine pOp line with
  | none => "bad-op"
  | some (.mw r cfg t rs cp st up nx) => encResult r (mw cfg t rs cp st up nx)
  | some (.dir r t rs st up) => encResult r (staticDir t rs st up)
  | some (.file r t rs n) => encResult r (fsFile t rs n)

end C16
