import EchoModel.Wire
/-!
# C12 — CSRF middleware (middleware/csrf.go, extractor.go, util.go `randomString`)

Byte strings are `List Nat` (one `Nat` < 256 per byte).

Modelled: `CSRFWithConfig` defaults (TokenLength 0 ↦ 32, TokenLookup "" ↦
"header:X-CSRF-Token"), `CreateExtractors` (split on `,` and `:`; a source without `:` is an
error ↦ panic at construction; unknown sources are silently ignored), `valuesFromHeader`
(canonical key, optional prefix cut with `EqualFold`, stop after the value with index ≥ 19),
`valuesFromQuery`, `valuesFromForm` (first 20 values), `valuesFromParam` (the harness route
has no path parameters: always "missing"), `valuesFromCookie`, the safe-method switch
(exact, case-sensitive strings), the comparison loop with `lastTokenErr`/`lastExtractorErr`,
the error mapping (403 invalid / 400 missing), the publication (Set-Cookie + context), and
`randomString` over an explicit byte stream (after the F15 repair: buffer size computed in
`int`).  `ErrorHandler` is nil or one of two custom handlers (write own response and return nil / return
own error); `Skipper` is the default (never skips).

Standard-library behaviour implemented here and validated by the correspondence run:
`textproto.CanonicalMIMEHeaderKey`, `strings.Split`, `strings.EqualFold` for an ASCII prefix,
`http.Request.ParseForm`'s rule (body parsed for POST/PUT/PATCH only; `Form` = body values
followed by query values), `subtle.ConstantTimeCompare` (= equality).  Passed in from the
harness: the request cookies as parsed by `http.Request.Cookies()`, the decoded query and
body pairs, the header map, and the bytes the random source will deliver.
-/
namespace C12

abbrev Str := List Nat

def lit (s : String) : Str := s.toList.map Char.toNat

/-! ## randomString -/

def charset : Str := lit "ABCDEFGHIJKLMNOPQRSTUVWXYZabcdefghijklmnopqrstuvwxyz"

/-- `randomStringMaxByte = 255 - (256 % 52)` -/
def maxByte : Nat := 255 - (256 % 52)

def accepted (rb : Nat) : Bool := decide (rb ≤ maxByte)

/-- `randomStringCharset[rb % 52]` -/
def letterOf (rb : Nat) : Nat := charset.getD (rb % 52) 0

/-- the inner `for _, rb := range r` loop: `need` letters are still missing.  Returns the
    letters produced from this chunk and how many are still missing afterwards. -/
def scanChunk : Nat → List Nat → List Nat × Nat
  | 0, _ => ([], 0)
  | need, [] => ([], need)
  | need + 1, rb :: r =>
    if accepted rb then
      (if need = 0 then ([letterOf rb], 0)
       else let (out, left) := scanChunk need r; (letterOf rb :: out, left))
    else scanChunk (need + 1) r

/-- the outer `for` loop of `randomString`: read `chunk` bytes (`io.ReadFull`; a short read
    panics — `none`), scan them, repeat while letters are missing.  `fuel` bounds the rounds. -/
def fillLoop (chunk : Nat) : Nat → Nat → List Nat → Option (List Nat)
  | 0, _, _ => none
  | fuel + 1, need, stream =>
    if stream.length < chunk then none
    else
      let sc := scanChunk need (stream.take chunk)
      if sc.2 = 0 then some sc.1
      else match fillLoop chunk fuel sc.2 (stream.drop chunk) with
        | some rest => some (sc.1 ++ rest)
        | none => none

/-- `randomString(length)` for `length ≥ 1` drawing from `stream`; `none` = the random source
    ran dry (the real code panics).  Buffer: `length + length/4` bytes (computed in `int`). -/
def randomString (length : Nat) (stream : List Nat) : Option Str :=
  fillLoop (length + length / 4) (stream.length + 1) length stream

/-! ## extractors -/

/-- `strings.Split(s, sep)` for a one-byte separator -/
def splitOn (sep : Nat) : Str → List Str
  | [] => [[]]
  | c :: r =>
    if c = sep then [] :: splitOn sep r
    else match splitOn sep r with
      | p :: ps => (c :: p) :: ps
      | [] => [[c]]

inductive Extractor where
  | header (name : Str) (pfx : Str)
  | query (name : Str)
  | form (name : Str)
  | param (name : Str)
  | cookie (name : Str)
deriving DecidableEq, Repr

def isTokenByte (c : Nat) : Bool :=
  (48 ≤ c && c ≤ 57) || (65 ≤ c && c ≤ 90) || (97 ≤ c && c ≤ 122) ||
  (lit "!#$%&'*+-.^_`|~").contains c

def canonLoop : Bool → Str → Str
  | _, [] => []
  | upper, c :: r =>
    let c' := if upper && (97 ≤ c && c ≤ 122) then c - 32
              else if !upper && (65 ≤ c && c ≤ 90) then c + 32 else c
    c' :: canonLoop (c' == 45) r

/-- `textproto.CanonicalMIMEHeaderKey` (keys with a byte outside the token set are left alone) -/
def canonicalKey (s : Str) : Str := if s.all isTokenByte then canonLoop true s else s

/-- one source of `createExtractors`; `none` = "could not be split" error; `some none` = ignored -/
def parseSource (src : Str) : Option (Option Extractor) :=
  match splitOn 58 src with
  | kind :: name :: rest =>
    if kind = lit "query" then some (some (.query name))
    else if kind = lit "param" then some (some (.param name))
    else if kind = lit "cookie" then some (some (.cookie name))
    else if kind = lit "form" then some (some (.form name))
    else if kind = lit "header" then
      some (some (.header (canonicalKey name) (match rest with | p :: _ => p | [] => [])))
    else some none
  | _ => none

def parseSources : List Str → Option (List Extractor)
  | [] => some []
  | s :: ss =>
    match parseSource s with
    | none => none
    | some o =>
      match parseSources ss with
      | none => none
      | some es => some (match o with | some e => e :: es | none => es)

/-- `CreateExtractors(lookups)` for a non-empty lookup string -/
def createExtractors (lookups : Str) : Option (List Extractor) := parseSources (splitOn 44 lookups)

structure Req where
  method : Str
  cookies : List (Str × Str)   -- `Request.Cookies()`: (name, value) in order
  headers : List (Str × Str)   -- header map: (canonical key, value), values of a key in order
  query : List (Str × Str)     -- decoded query pairs
  form : List (Str × Str)      -- decoded pairs of the urlencoded body
  rnd : List Nat               -- what the random source delivers during this request
deriving Repr, Inhabited

def valuesOf (k : Str) (l : List (Str × Str)) : List Str :=
  (l.filter (fun p => p.1 = k)).map (·.2)

def asciiLower (c : Nat) : Nat := if 65 ≤ c ∧ c ≤ 90 then c + 32 else c

/-- `strings.EqualFold(a, b)` where `b` is ASCII -/
def equalFold (a b : Str) : Bool := a.map asciiLower == b.map asciiLower

/-- the loop of `valuesFromHeader`; `i` is the index of the value in `Header.Values` -/
def headerScan (pfx : Str) : Nat → List Str → List Str
  | _, [] => []
  | i, v :: vs =>
    if pfx.length = 0 then
      v :: (if i ≥ 19 then [] else headerScan pfx (i + 1) vs)
    else if v.length > pfx.length && equalFold (v.take pfx.length) pfx then
      v.drop pfx.length :: (if i ≥ 19 then [] else headerScan pfx (i + 1) vs)
    else headerScan pfx (i + 1) vs

/-- `Request.Form[name]` after `ParseForm` -/
def formValues (r : Req) (name : Str) : List Str :=
  (if r.method = lit "POST" ∨ r.method = lit "PUT" ∨ r.method = lit "PATCH"
    then valuesOf name r.form else []) ++ valuesOf name r.query

/-- the loop of `valuesFromCookie`; `i` is the index in `c.Cookies()` -/
def cookieScan (name : Str) : Nat → List (Str × Str) → List Str
  | _, [] => []
  | i, ck :: cs =>
    if ck.1 = name then ck.2 :: (if i ≥ 19 then [] else cookieScan name (i + 1) cs)
    else cookieScan name (i + 1) cs

/-- a `ValuesExtractor`: `none` = an extractor error (all of them map to 400), else the
    (non-empty) list of client tokens -/
def extract (r : Req) : Extractor → Option (List Str)
  | .header name pfx =>
    let vals := valuesOf name r.headers
    if vals.isEmpty then none
    else let res := headerScan pfx 0 vals; if res.isEmpty then none else some res
  | .query name =>
    let vals := valuesOf name r.query
    if vals.isEmpty then none else some (vals.take 20)
  | .form name =>
    let vals := formValues r name
    if vals.isEmpty then none else some (vals.take 20)
  | .param _ => none
  | .cookie name =>
    let res := cookieScan name 0 r.cookies
    if res.isEmpty then none else some res

/-! ## the middleware -/

structure Cfg where
  tokenLength : Nat
  extractors : List Extractor
  cookieName : Str
  /-- `CSRFConfig.ErrorHandler`: 0 = nil (the error is returned as it is); 1 = a custom handler
      that writes its own 418 response and returns nil; 2 = a custom handler that returns its
      own 409 error.  In every case the middleware returns what the handler returns and `next`
      is not called. -/
  errorHandler : Nat := 0
deriving Repr

/-- status of the response to a request rejected with `s`, through the configured ErrorHandler -/
def handlerStatus (c : Cfg) (s : Nat) : Nat :=
  match c.errorHandler with
  | 0 => s
  | 1 => 418
  | _ => 409

def safeMethod (m : Str) : Bool :=
  m = lit "GET" || m = lit "HEAD" || m = lit "OPTIONS" || m = lit "TRACE"

/-- state of the validation loop -/
structure Loop where
  matched : Bool := false
  lastExtractorErr : Bool := false
  lastTokenErr : Bool := false
deriving DecidableEq, Repr

/-- inner loop over the client tokens of one extractor: `true` = a token matched -/
def anyMatch (token : Str) : List Str → Bool
  | [] => false
  | t :: ts => if token = t then true else anyMatch token ts

/-- the `outer:` loop -/
def validate (token : Str) (r : Req) : List Extractor → Loop → Loop
  | [], st => st
  | e :: es, st =>
    match extract r e with
    | none => validate token r es { st with lastExtractorErr := true }
    | some toks =>
      if anyMatch token toks then { matched := true, lastExtractorErr := false, lastTokenErr := false }
      else validate token r es { st with lastTokenErr := true }   -- toks is never empty

inductive Result where
  | panic                                   -- random source ran dry
  | rejected (status : Nat)                 -- error returned, handler not run
  | passed (setCookie : Str) (ctx : Str)    -- handler ran; Set-Cookie value and c.Get(ContextKey)
deriving DecidableEq, Repr

/-- first cookie with the configured name: `c.Cookie(config.CookieName)` -/
def findCookie (name : Str) : List (Str × Str) → Option Str
  | [] => none
  | ck :: cs => if ck.1 = name then some ck.2 else findCookie name cs

/-- the token of the request: the cookie's value, else a fresh random string -/
def tokenOf (c : Cfg) (r : Req) : Option Str :=
  match findCookie c.cookieName r.cookies with
  | some v => some v
  | none => randomString c.tokenLength r.rnd

def serve (c : Cfg) (r : Req) : Result :=
  match tokenOf c r with
  | none => .panic
  | some token =>
    if safeMethod r.method then .passed token token
    else
      let st := validate token r c.extractors {}
      if st.lastTokenErr then .rejected (handlerStatus c 403)
      else if st.lastExtractorErr then .rejected (handlerStatus c 400)
      else .passed token token

/-! ## wire -/
open Wire

structure RawCfg where
  tokenLength : Nat
  lookup : Str
  cookieName : Str
  errorHandler : Nat

/-- `CSRFWithConfig` defaults; `none` = `CreateExtractors` failed (constructor panics) -/
def mkCfg (rc : RawCfg) : Option Cfg :=
  let lookup := if rc.lookup = [] then lit "header:X-CSRF-Token" else rc.lookup
  match createExtractors lookup with
  | none => none
  | some es =>
    some { tokenLength := if rc.tokenLength = 0 then 32 else rc.tokenLength
           extractors := es
           cookieName := if rc.cookieName = [] then lit "_csrf" else rc.cookieName
           errorHandler := rc.errorHandler }

def pPair : P (Str × Str) := do
  let k ← bytes
  let v ← bytes
  pure (k, v)

def pReq : P Req := do
  let m ← bytes
  let cs ← list pPair
  let hs ← list pPair
  let q ← list pPair
  let f ← list pPair
  let rnd ← bytes
  pure ⟨m, cs, hs, q, f, rnd⟩

def encResult : Result → List String
  | .panic => ["2"]
  | .rejected s => ["0", toString s]
  | .passed sc ctx => ["1", encBytes sc, encBytes ctx]

/-- line: `tokenLength lookup cookieName errorHandler n (method cookies headers query form rnd)*`
    → `cpanic` | `n (2 | 0 status | 1 setCookie ctx)*` -/
def runLine (line : String) : String :=
  match parseLine (do
      let n ← nat; let l ← bytes; let cn ← bytes; let eh ← nat
      let rs ← list pReq
      pure (RawCfg.mk n l cn eh, rs)) line with
  | none => "bad-op"
  | some (rc, rs) =>
    match mkCfg rc with
    | none => "cpanic"
    | some c => render (encList (fun r => encResult (serve c r)) rs)

end C12
