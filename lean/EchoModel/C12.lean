import EchoModel.Wire
/-!
# C12 — CSRF middleware (middleware/csrf.go, extractor.go, util.go `randomString`)

Byte strings are `List Nat` (one `Nat` < 256 per byte).

Modelled: `CSRFWithConfig` defaults (TokenLength 0 ↦ 32, TokenLookup "" ↦
"header:X-CSRF-Token"), `CreateExtractors` (split on `,` and `:`; a source without `:` is an
error ↦ panic at construction; unknown sources are silently ignored), `valuesFromHeader`
(canonical key, optional prefix cut with `EqualFold`, stop after the value with index ≥ 19),
`valuesFromQuery`, `valuesFromForm` (first 20 values), `valuesFromParam` (names and values of the
matched route's path parameters are passed in), `valuesFromCookie`, the safe-method switch
(exact, case-sensitive strings), the comparison loop with `lastTokenErr`/`lastExtractorErr`,
the error mapping (403 invalid / 400 missing), the publication (Set-Cookie + context), and
`randomString` over an explicit byte stream (after the F15 repair: buffer size computed in
`int`).  `ErrorHandler` is nil or one of two custom handlers (write own response and return nil / return
own error).

Round 4 additions: the convenience constructor `CSRF()` (`defaultRaw`), a configured `Skipper`
(`handle`), the Set-Cookie attributes the config controls (`cookieAttrs`: Path, Domain, Expires =
now + MaxAge, Secure — forced by SameSite=None —, HttpOnly, SameSite), the `param:` source with
the route's path parameters, `CreateExtractors("")`, `randomString` with the rest of the stream
(`randomStringR`) and a *stack* of middlewares that draw from one random source in turn
(`serveStack`: CSRF instances and `RequestID()`, whose default generator is `randomString(32)`).

Standard-library behaviour implemented here and validated by the correspondence run:
`textproto.CanonicalMIMEHeaderKey`, `strings.Split`, `strings.EqualFold` for an ASCII prefix,
`http.Request.ParseForm`'s rule (urlencoded body parsed for POST/PUT/PATCH only; `Form` = body
values followed by query values) and `ParseMultipartForm`'s (multipart fields for every method,
after the query values), `subtle.ConstantTimeCompare` (= equality).  Passed in from the
harness: the request cookies as parsed by `http.Request.Cookies()`, the decoded query and
body pairs, the header map, and the bytes the random source will deliver.
-/
namespace C12

abbrev Str := List Nat

def lit (s : String) : Str := s.toList.map Char.toNat

/-! ## randomString -/

def charset : Str := lit "ABCDEFGHIJKLMNOPQRSTUVWXYZabcdefghijklmnopqrstuvwxyz"

/-- `randomStringMaxByte = 255 - (256 % 52)` -/
def maxByte : Nat := 255 - (256 % 52)

def accepted (rb : Nat) : Bool := decide (rb ≤ maxByte)

/-- `randomStringCharset[rb % 52]` -/
def letterOf (rb : Nat) : Nat := charset.getD (rb % 52) 0

/-- the inner `for _, rb := range r` loop: `need` letters are still missing.  Returns the
    letters produced from this chunk and how many are still missing afterwards. -/
def scanChunk : Nat → List Nat → List Nat × Nat
  | 0, _ => ([], 0)
  | need, [] => ([], need)
  | need + 1, rb :: r =>
    if accepted rb then
      (if need = 0 then ([letterOf rb], 0)
       else let (out, left) := scanChunk need r; (letterOf rb :: out, left))
    else scanChunk (need + 1) r

/-- the outer `for` loop of `randomString`: read `chunk` bytes (`io.ReadFull`; a short read
    panics — `none`), scan them, repeat while letters are missing.  `fuel` bounds the rounds. -/
def fillLoop (chunk : Nat) : Nat → Nat → List Nat → Option (List Nat)
  | 0, _, _ => none
  | fuel + 1, need, stream =>
    if stream.length < chunk then none
    else
      let sc := scanChunk need (stream.take chunk)
      if sc.2 = 0 then some sc.1
      else match fillLoop chunk fuel sc.2 (stream.drop chunk) with
        | some rest => some (sc.1 ++ rest)
        | none => none

/-- `randomString(length)` for `length ≥ 1` drawing from `stream`; `none` = the random source
    ran dry (the real code panics).  Buffer: `length + length/4` bytes (computed in `int`). -/
def randomString (length : Nat) (stream : List Nat) : Option Str :=
  fillLoop (length + length / 4) (stream.length + 1) length stream

/-! ## extractors -/

/-- `strings.Split(s, sep)` for a one-byte separator -/
def splitOn (sep : Nat) : Str → List Str
  | [] => [[]]
  | c :: r =>
    if c = sep then [] :: splitOn sep r
    else match splitOn sep r with
      | p :: ps => (c :: p) :: ps
      | [] => [[c]]

inductive Extractor where
  | header (name : Str) (pfx : Str)
  | query (name : Str)
  | form (name : Str)
  | param (name : Str)
  | cookie (name : Str)
deriving DecidableEq, Repr

def isTokenByte (c : Nat) : Bool :=
  (48 ≤ c && c ≤ 57) || (65 ≤ c && c ≤ 90) || (97 ≤ c && c ≤ 122) ||
  (lit "!#$%&'*+-.^_`|~").contains c

def canonLoop : Bool → Str → Str
  | _, [] => []
  | upper, c :: r =>
    let c' := if upper && (97 ≤ c && c ≤ 122) then c - 32
              else if !upper && (65 ≤ c && c ≤ 90) then c + 32 else c
    c' :: canonLoop (c' == 45) r

/-- `textproto.CanonicalMIMEHeaderKey` (keys with a byte outside the token set are left alone) -/
def canonicalKey (s : Str) : Str := if s.all isTokenByte then canonLoop true s else s

/-- one source of `createExtractors`; `none` = "could not be split" error; `some none` = ignored -/
def parseSource (src : Str) : Option (Option Extractor) :=
  match splitOn 58 src with
  | kind :: name :: rest =>
    if kind = lit "query" then some (some (.query name))
    else if kind = lit "param" then some (some (.param name))
    else if kind = lit "cookie" then some (some (.cookie name))
    else if kind = lit "form" then some (some (.form name))
    else if kind = lit "header" then
      some (some (.header (canonicalKey name) (match rest with | p :: _ => p | [] => [])))
    else some none
  | _ => none

def parseSources : List Str → Option (List Extractor)
  | [] => some []
  | s :: ss =>
    match parseSource s with
    | none => none
    | some o =>
      match parseSources ss with
      | none => none
      | some es => some (match o with | some e => e :: es | none => es)

/-- `CreateExtractors(lookups)`; the empty string yields no extractor and no error -/
def createExtractors (lookups : Str) : Option (List Extractor) :=
  if lookups = [] then some [] else parseSources (splitOn 44 lookups)

structure Req where
  method : Str
  cookies : List (Str × Str)   -- `Request.Cookies()`: (name, value) in order
  headers : List (Str × Str)   -- header map: (canonical key, value), values of a key in order
  query : List (Str × Str)     -- decoded query pairs
  form : List (Str × Str)      -- decoded pairs of the urlencoded body
  rnd : List Nat               -- what the random source delivers during this request
  params : List (Str × Str) := []  -- `c.ParamNames()` / `c.ParamValues()` of the matched route, in order
  multipart : Bool := false        -- the body (`form`) is multipart/form-data instead of urlencoded
deriving Repr, Inhabited

def valuesOf (k : Str) (l : List (Str × Str)) : List Str :=
  (l.filter (fun p => p.1 = k)).map (·.2)

def asciiLower (c : Nat) : Nat := if 65 ≤ c ∧ c ≤ 90 then c + 32 else c

/-- `strings.EqualFold(a, b)` where `b` is ASCII -/
def equalFold (a b : Str) : Bool := a.map asciiLower == b.map asciiLower

/-- the loop of `valuesFromHeader`; `i` is the index of the value in `Header.Values` -/
def headerScan (pfx : Str) : Nat → List Str → List Str
  | _, [] => []
  | i, v :: vs =>
    if pfx.length = 0 then
      v :: (if i ≥ 19 then [] else headerScan pfx (i + 1) vs)
    else if v.length > pfx.length && equalFold (v.take pfx.length) pfx then
      v.drop pfx.length :: (if i ≥ 19 then [] else headerScan pfx (i + 1) vs)
    else headerScan pfx (i + 1) vs

/-- `Request.Form[name]` after `ParseMultipartForm`: a urlencoded body is parsed for
    POST/PUT/PATCH only and its values come before the query values; the fields of a
    multipart/form-data body are appended after the query values **whatever the method** -/
def formValues (r : Req) (name : Str) : List Str :=
  if r.multipart then valuesOf name r.query ++ valuesOf name r.form
  else (if r.method = lit "POST" ∨ r.method = lit "PUT" ∨ r.method = lit "PATCH"
    then valuesOf name r.form else []) ++ valuesOf name r.query

/-- the loop of `valuesFromCookie`; `i` is the index in `c.Cookies()` -/
def cookieScan (name : Str) : Nat → List (Str × Str) → List Str
  | _, [] => []
  | i, ck :: cs =>
    if ck.1 = name then ck.2 :: (if i ≥ 19 then [] else cookieScan name (i + 1) cs)
    else cookieScan name (i + 1) cs

/-- a `ValuesExtractor`: `none` = an extractor error (all of them map to 400), else the
    (non-empty) list of client tokens -/
def extract (r : Req) : Extractor → Option (List Str)
  | .header name pfx =>
    let vals := valuesOf name r.headers
    if vals.isEmpty then none
    else let res := headerScan pfx 0 vals; if res.isEmpty then none else some res
  | .query name =>
    let vals := valuesOf name r.query
    if vals.isEmpty then none else some (vals.take 20)
  | .form name =>
    let vals := formValues r name
    if vals.isEmpty then none else some (vals.take 20)
  | .param name =>
    -- same loop shape as the cookie extractor: `i` is the index among ALL path parameters
    let res := cookieScan name 0 r.params
    if res.isEmpty then none else some res
  | .cookie name =>
    let res := cookieScan name 0 r.cookies
    if res.isEmpty then none else some res

/-! ## the middleware -/

structure Cfg where
  tokenLength : Nat
  extractors : List Extractor
  cookieName : Str
  /-- `CSRFConfig.ErrorHandler`: 0 = nil (the error is returned as it is); 1 = a custom handler
      that writes its own 418 response and returns nil; 2 = a custom handler that returns its
      own 409 error.  In every case the middleware returns what the handler returns and `next`
      is not called. -/
  errorHandler : Nat := 0
  /-- the cookie options as `CSRFWithConfig` holds them after its defaults (MaxAge 0 ↦ 86400,
      SameSite=None ⇒ Secure) -/
  cookiePath : Str := []
  cookieDomain : Str := []
  cookieMaxAge : Nat := 86400
  cookieSecure : Bool := false
  cookieHTTPOnly : Bool := false
  /-- `http.SameSite`: 0 = zero value, 1 = SameSiteDefaultMode, 2 = Lax, 3 = Strict, 4 = None -/
  cookieSameSite : Nat := 0
  /-- a `Skipper` is configured that skips exactly the requests carrying a non-empty first
      `X-Skip` header value (the harness's Skipper); `false` = `DefaultSkipper` (never skips) -/
  skipper : Bool := false
  /-- `ContextKey` after the default ("" ↦ "csrf"): the key of `c.Set(key, token)` -/
  contextKey : Str := [99, 115, 114, 102]
deriving DecidableEq, Repr

/-- status of the response to a request rejected with `s`, through the configured ErrorHandler -/
def handlerStatus (c : Cfg) (s : Nat) : Nat :=
  match c.errorHandler with
  | 0 => s
  | 1 => 418
  | _ => 409

def safeMethod (m : Str) : Bool :=
  m = lit "GET" || m = lit "HEAD" || m = lit "OPTIONS" || m = lit "TRACE"

/-- state of the validation loop -/
structure Loop where
  matched : Bool := false
  lastExtractorErr : Bool := false
  lastTokenErr : Bool := false
deriving DecidableEq, Repr

/-- inner loop over the client tokens of one extractor: `true` = a token matched -/
def anyMatch (token : Str) : List Str → Bool
  | [] => false
  | t :: ts => if token = t then true else anyMatch token ts

/-- the `outer:` loop -/
def validate (token : Str) (r : Req) : List Extractor → Loop → Loop
  | [], st => st
  | e :: es, st =>
    match extract r e with
    | none => validate token r es { st with lastExtractorErr := true }
    | some toks =>
      if anyMatch token toks then { matched := true, lastExtractorErr := false, lastTokenErr := false }
      else validate token r es { st with lastTokenErr := true }   -- toks is never empty

inductive Result where
  | panic                                   -- random source ran dry
  | rejected (status : Nat)                 -- error returned, handler not run
  | passed (setCookie : Str) (ctx : Str)    -- handler ran; Set-Cookie value and c.Get(ContextKey)
deriving DecidableEq, Repr

/-- first cookie with the configured name: `c.Cookie(config.CookieName)` -/
def findCookie (name : Str) : List (Str × Str) → Option Str
  | [] => none
  | ck :: cs => if ck.1 = name then some ck.2 else findCookie name cs

/-- the token of the request: the cookie's value, else a fresh random string -/
def tokenOf (c : Cfg) (r : Req) : Option Str :=
  match findCookie c.cookieName r.cookies with
  | some v => some v
  | none => randomString c.tokenLength r.rnd

def serve (c : Cfg) (r : Req) : Result :=
  match tokenOf c r with
  | none => .panic
  | some token =>
    if safeMethod r.method then .passed token token
    else
      let st := validate token r c.extractors {}
      if st.lastTokenErr then .rejected (handlerStatus c 403)
      else if st.lastExtractorErr then .rejected (handlerStatus c 400)
      else .passed token token

/-! ## publication: the attributes of the Set-Cookie -/

/-- what `c.SetCookie(cookie)` publishes besides name and value; `maxAge` stands for
    `Expires = time.Now() + MaxAge s`; `sameSite` 0 = no SameSite attribute -/
structure CookieAttrs where
  path : Str
  domain : Str
  maxAge : Nat
  secure : Bool
  httpOnly : Bool
  sameSite : Nat
deriving DecidableEq, Repr

/-- lines 187-203 of csrf.go: Path/Domain only when configured (the zero value of
    `http.Cookie` is the empty string anyway), SameSite only when it is not
    `SameSiteDefaultMode` (1) — and the zero value 0 writes no attribute either -/
def cookieAttrs (c : Cfg) : CookieAttrs :=
  { path := c.cookiePath
    domain := c.cookieDomain
    maxAge := c.cookieMaxAge
    secure := c.cookieSecure
    httpOnly := c.cookieHTTPOnly
    sameSite := if c.cookieSameSite = 1 then 0 else c.cookieSameSite }

/-! ## Skipper -/

/-- the harness's Skipper: `c.Request().Header.Get("X-Skip") != ""` -/
def skipReq (r : Req) : Bool :=
  match valuesOf (lit "X-Skip") r.headers with
  | v :: _ => !v.isEmpty
  | [] => false

inductive Outcome where
  | skipped                 -- `config.Skipper(c)`: `next(c)` at once — no cookie, no context value
  | served (res : Result)
deriving DecidableEq, Repr

/-- the middleware closure, Skipper included -/
def handle (c : Cfg) (r : Req) : Outcome :=
  if c.skipper && skipReq r then .skipped else .served (serve c r)

/-! ## randomString with the rest of the stream; several consumers of one random source -/

/-- `fillLoop` that also returns what is left of the stream (whole chunks are consumed) -/
def fillLoopR (chunk : Nat) : Nat → Nat → List Nat → Option (List Nat × List Nat)
  | 0, _, _ => none
  | fuel + 1, need, stream =>
    if stream.length < chunk then none
    else
      let sc := scanChunk need (stream.take chunk)
      if sc.2 = 0 then some (sc.1, stream.drop chunk)
      else match fillLoopR chunk fuel sc.2 (stream.drop chunk) with
        | some (rest, left) => some (sc.1 ++ rest, left)
        | none => none

/-- `randomString(length)` together with the bytes the next reader of the source will see -/
def randomStringR (length : Nat) (stream : List Nat) : Option (Str × List Nat) :=
  fillLoopR (length + length / 4) (stream.length + 1) length stream

/-- a middleware in front of the handler that may draw from the random source -/
inductive Mw where
  | csrf (c : Cfg)
  | requestID            -- `middleware.RequestID()`: X-Request-Id of the request, else `randomString(32)`
deriving Repr

/-- what one middleware of the stack published for the handler / the response -/
inductive Pub where
  | csrf (setCookie ctx : Str) (a : CookieAttrs)
  | skipped
  | rid (id : Str)
deriving DecidableEq, Repr

inductive StackOut where
  | panic
  | rejected (status : Nat)
  | passed (pubs : List Pub)      -- the handler ran
deriving DecidableEq, Repr

def StackOut.push (p : Pub) : StackOut → StackOut
  | .passed ps => .passed (p :: ps)
  | o => o

/-- the stream after the CSRF instance `c` handled `r` (it draws only for a request without its cookie) -/
def restAfter (c : Cfg) (r : Req) (s : List Nat) : List Nat :=
  if c.skipper && skipReq r then s
  else match findCookie c.cookieName r.cookies with
    | some _ => s
    | none => match randomStringR c.tokenLength s with
      | some (_, rest) => rest
      | none => s

/-- the request id `RequestID()` uses: the first X-Request-Id value of the request if not empty -/
def requestIDOf (r : Req) : Option Str :=
  match valuesOf (lit "X-Request-Id") r.headers with
  | v :: _ => if v.isEmpty then none else some v
  | [] => none

/-- the middlewares in registration order (outermost first) in front of a handler, all drawing
    from the stream `s` (`r.rnd` is not used: every instance sees the stream left by its
    predecessors) -/
def serveStack : List Mw → Req → List Nat → StackOut
  | [], _, _ => .passed []
  | .requestID :: rest, r, s =>
    match requestIDOf r with
    | some v => (serveStack rest r s).push (.rid v)
    | none =>
      match randomStringR 32 s with
      | none => .panic
      | some (id, s') => (serveStack rest r s').push (.rid id)
  | .csrf c :: rest, r, s =>
    match handle c { r with rnd := s } with
    | .skipped => (serveStack rest r s).push .skipped
    | .served .panic => .panic
    | .served (.rejected st) => .rejected st
    | .served (.passed sc ctx) => (serveStack rest r (restAfter c r s)).push (.csrf sc ctx (cookieAttrs c))

/-! ## what the handler finds in the context (round 5)

Every CSRF instance does `c.Set(config.ContextKey, token)` and never READS the context.  When
two instances on one request path share a ContextKey (both left at the default "csrf") the
innermost one owns it: the handler finds the token of the last instance that published under
the key.  A middleware registered before CSRF may have put anything under the key (`init`). -/

/-- the value under `key` when the handler runs: `cur` is what was there before the stack -/
def ctxOf (key : Str) : List (Mw × Pub) → Option Str → Option Str
  | [], cur => cur
  | (.csrf c, .csrf _ ctx _) :: rest, cur => ctxOf key rest (if c.contextKey = key then some ctx else cur)
  | _ :: rest, cur => ctxOf key rest cur

/-- what the harness observes for one middleware of the stack after a passed request -/
inductive ViewItem where
  | rid (id : Str)
  /-- a CSRF instance: its Set-Cookie (value + attributes; `none` = no Set-Cookie with its name)
      and `c.Get(ContextKey)` as the handler finds it -/
  | csrf (setCookie : Option (Str × CookieAttrs)) (ctx : Option Str)
deriving DecidableEq, Repr

/-- the context before the stack: nothing, or one preset pair -/
def initCtx (init : Option (Str × Str)) (key : Str) : Option Str :=
  match init with
  | some (k, v) => if k = key then some v else none
  | none => none

def viewItems (all : List (Mw × Pub)) (init : Option (Str × Str)) : List (Mw × Pub) → List ViewItem
  | [] => []
  | (.csrf c, .csrf sc _ a) :: rest =>
    .csrf (some (sc, a)) (ctxOf c.contextKey all (initCtx init c.contextKey)) :: viewItems all init rest
  | (.csrf c, _) :: rest =>
    .csrf none (ctxOf c.contextKey all (initCtx init c.contextKey)) :: viewItems all init rest
  | (.requestID, .rid id) :: rest => .rid id :: viewItems all init rest
  | (.requestID, _) :: rest => .rid [] :: viewItems all init rest

/-- the observation of a passed request: per middleware, in stack order -/
def handlerView (ms : List Mw) (pubs : List Pub) (init : Option (Str × Str)) : List ViewItem :=
  viewItems (ms.zip pubs) init (ms.zip pubs)

/-! ## wire -/
open Wire

/-- `CSRFConfig` as handed to the constructor -/
structure RawCfg where
  tokenLength : Nat
  lookup : Str
  cookieName : Str
  errorHandler : Nat
  cookiePath : Str := []
  cookieDomain : Str := []
  cookieMaxAge : Nat := 0
  cookieSecure : Bool := false
  cookieHTTPOnly : Bool := false
  cookieSameSite : Nat := 0
  skipper : Bool := false
  contextKey : Str := []
deriving Repr

/-- `DefaultCSRFConfig`: what `CSRF()` hands to `CSRFWithConfig` -/
def defaultRaw : RawCfg :=
  { tokenLength := 32, lookup := lit "header:X-CSRF-Token", cookieName := lit "_csrf", errorHandler := 0,
    cookieMaxAge := 86400, cookieSameSite := 1, contextKey := lit "csrf" }

/-- `CSRFWithConfig` defaults; `none` = `CreateExtractors` failed (constructor panics) -/
def mkCfg (rc : RawCfg) : Option Cfg :=
  let lookup := if rc.lookup = [] then lit "header:X-CSRF-Token" else rc.lookup
  match createExtractors lookup with
  | none => none
  | some es =>
    some { tokenLength := if rc.tokenLength = 0 then 32 else rc.tokenLength
           extractors := es
           cookieName := if rc.cookieName = [] then lit "_csrf" else rc.cookieName
           errorHandler := rc.errorHandler
           cookiePath := rc.cookiePath
           cookieDomain := rc.cookieDomain
           cookieMaxAge := if rc.cookieMaxAge = 0 then 86400 else rc.cookieMaxAge
           cookieSecure := rc.cookieSecure || rc.cookieSameSite == 4
           cookieHTTPOnly := rc.cookieHTTPOnly
           cookieSameSite := rc.cookieSameSite
           skipper := rc.skipper
           contextKey := if rc.contextKey = [] then lit "csrf" else rc.contextKey }

def pPair : P (Str × Str) := do
  let k ← bytes
  let v ← bytes
  pure (k, v)

def pReq : P Req := do
  let m ← bytes
  let cs ← list pPair
  let hs ← list pPair
  let q ← list pPair
  let f ← list pPair
  let ps ← list pPair
  let mp ← bool
  let rnd ← bytes
  pure { method := m, cookies := cs, headers := hs, query := q, form := f, rnd := rnd, params := ps, multipart := mp }

/-- one middleware of the stack: `1` = RequestID(); `2` = CSRF() (no config); `0 cfg…` = CSRFWithConfig -/
def pMw : P (Option RawCfg) := do
  let k ← nat
  match k with
  | 1 => pure none
  | 2 => pure (some defaultRaw)
  | 0 => do
    let n ← nat; let l ← bytes; let cn ← bytes; let eh ← nat
    let path ← bytes; let dom ← bytes; let age ← nat
    let sec ← bool; let ho ← bool; let ss ← nat; let sk ← bool; let ck ← bytes
    pure (some { tokenLength := n, lookup := l, cookieName := cn, errorHandler := eh, cookiePath := path,
                 cookieDomain := dom, cookieMaxAge := age, cookieSecure := sec, cookieHTTPOnly := ho,
                 cookieSameSite := ss, skipper := sk, contextKey := ck })
  | _ => failure

/-- construct the stack; `none` = some constructor panics -/
def mkStack : List (Option RawCfg) → Option (List Mw)
  | [] => some []
  | none :: rest => (mkStack rest).map (Mw.requestID :: ·)
  | some rc :: rest =>
    match mkCfg rc, mkStack rest with
    | some c, some ms => some (.csrf c :: ms)
    | _, _ => none

def encOptBytes : Option Str → String
  | none => "<none>"
  | some v => encBytes v

def encItem : ViewItem → List String
  | .rid id => ["r", encBytes id]
  | .csrf (some (sc, a)) ctx => ["c", encBytes sc, encOptBytes ctx, encBytes a.path, encBytes a.domain, toString a.maxAge,
      encBool a.secure, encBool a.httpOnly, toString a.sameSite]
  | .csrf none ctx => ["c", "<none>", encOptBytes ctx, "-", "-", "-", "-", "-", "-"]

/-! ## the Set-Cookie lines on the wire (round 6)

`c.SetCookie` ADDS a header line; a CSRF instance never removes or rewrites a line — not the lines
the application wrote before it ran, not those of an outer instance whose cookie name merely
looks like its own.  `wireCookies before l` = the names and values of the Set-Cookie lines after
the stack ran, in order. -/

def wireCookies (before : List (Str × Str)) : List (Mw × Pub) → List (Str × Str)
  | [] => before
  | (.csrf c, .csrf sc _ _) :: rest => wireCookies (before ++ [(c.cookieName, sc)]) rest
  | _ :: rest => wireCookies before rest

/-- the cookie name of the first CSRF instance of the stack -/
def firstCookieName : List Mw → Str
  | [] => []
  | .csrf c :: _ => c.cookieName
  | _ :: rest => firstCookieName rest

/-- the application's own cookies in the harness (`app`): `session` and `<first cookie>_state` from a
    middleware registered before the stack, `after` from the handler -/
def appBefore (ms : List Mw) (app : Bool) : List (Str × Str) :=
  if app then [(lit "session", lit "abc"), (firstCookieName ms ++ lit "_state", lit "keep")] else []

def wireNames (ms : List Mw) (pubs : List Pub) (app : Bool) : List Str :=
  ((wireCookies (appBefore ms app) (ms.zip pubs)) ++ (if app then [(lit "after", lit "1")] else [])).map (·.1)

/-- lexicographic order on byte strings (the observation lists the names sorted: the order of
    the header lines is not part of the tie) -/
def strLe : Str → Str → Bool
  | [], _ => true
  | _ :: _, [] => false
  | a :: as, b :: bs => a < b || (a == b && strLe as bs)

def insertSorted (x : Str) : List Str → List Str
  | [] => [x]
  | y :: ys => if strLe x y then x :: y :: ys else y :: insertSorted x ys

def sortNames : List Str → List Str
  | [] => []
  | x :: xs => insertSorted x (sortNames xs)

def encOut (ms : List Mw) (init : Option (Str × Str)) (app : Bool) : StackOut → List String
  | .panic => ["2"]
  | .rejected s => ["0", toString s]
  | .passed ps => "1" :: (encList encItem (handlerView ms ps init) ++
      encList (fun n => [encBytes n]) (sortNames (wireNames ms ps app)))

/-- what the public `CreateExtractors(lookup)` returns for the configured string as it is:
    `x<number of extractors>` or `xerr` -/
def encExtractors (lookup : Str) : String :=
  match createExtractors lookup with
  | none => "xerr"
  | some es => "x" ++ toString es.length

/-- line: `rawLookup preset? app nMw mw* n (method cookies headers query form params multipart rnd)*`
    → `x… cpanic` | `x… n (2 | 0 status | 1 k item*)*`; `preset?` = `0` | `1 key value`: what a
    middleware registered before the stack put into the context -/
def runLine (line : String) : String :=
  match parseLine (do
      let raw ← bytes
      let init ← opt pPair
      let app ← bool
      let ms ← list pMw
      let rs ← list pReq
      pure (raw, init, app, ms, rs)) line with
  | none => "bad-op"
  | some (raw, init, app, ms, rs) =>
    match mkStack ms with
    | none => encExtractors raw ++ " cpanic"
    | some st => encExtractors raw ++ " " ++ render (encList (fun r => encOut st init app (serveStack st r r.rnd)) rs)

end C12
