import EchoModel.Router
import EchoModel.RouterSpec
/-!
# Executable tree invariant and the residual set a radix tree represents

These definitions are evaluated by the model driver on every generated route table
(translation validation of `Router.build`) and are what the refinement theorems in
`EchoProofs/Tree/*` are stated about.
-/
namespace Router.Spec

/-- number of markers (`:name`, `*`) of a token list -/
def arity : List Tok → Nat
  | [] => 0
  | .lit _ :: ts => arity ts
  | _ :: ts => arity ts + 1


end Router.Spec

namespace Router.Tree
open Router Router.Spec

/-- the L1 entry of a route record stored at a node -/
def entryOf (method : Str) (rm : RouteMethod) : Entry :=
  ⟨(norm rm.ppath).1, method, rm.ppath, rm.pnames, rm.hid⟩

/-- entries of the records of one node: its methods and its not-found record -/
def ownEntries (ms : List (Str × RouteMethod)) (nf : Option RouteMethod) : List Entry :=
  ms.map (fun x => entryOf x.1 x.2) ++ (match nf with | some rm => [entryOf routeNotFound rm] | none => [])

def lits (s : Str) : List Tok := s.map Tok.lit

def prepend (ts : List Tok) (r : R) : R := r.map fun x => (ts ++ x.1, x.2)

/-- first tokens contributed by a node of the given kind with the given prefix -/
def headToks : Kind → Str → List Tok
  | .static, pre => lits pre
  | .param, _ => [.param]
  | .any, _ => [.any]

mutual
/-- residuals of the records in the subtree of a node, relative to the point after its prefix -/
def below : Node → R
  | .mk _ _ ms nf _ _ st pa an =>
    (ownEntries ms nf).map (fun e => ([], e)) ++ belowList st ++ belowOpt pa ++ belowOpt an
def belowList : List Node → R
  | [] => []
  | c :: cs => resid c ++ belowList cs
def belowOpt : Option Node → R
  | none => []
  | some c => resid c
/-- residuals relative to the point before the node's own prefix -/
def resid : Node → R
  | .mk k pre ms nf op pc st pa an => prepend (headToks k pre) (below (.mk k pre ms nf op pc st pa an))
end

/-- residuals when only the piece `s` of the node's (static) prefix is still to be read -/
def residFrom (s : Str) (n : Node) : R := prepend (lits s) (below n)


def labelsDistinct : List Node → Bool
  | [] => true
  | c :: cs => cs.all (fun d => d.label != c.label) && labelsDistinct cs

mutual
def tiNode (D : Nat) (above : List Tok) : Node → Bool
  | .mk k pre ms nf _ pc st pa an =>
    decide (arity (above ++ headToks k pre) ≤ D)
    && (!ms.isEmpty || nf.isSome || !st.isEmpty || pa.isSome || an.isSome)   -- no dead leaves
    && (match k with
        | .static => true
        | .param => pre == [':']
        | .any => pre == ['*'] && st.isEmpty && pa.isNone && an.isNone
                  && pc == arity (above ++ headToks k pre))
    && ms.all (fun x => x.1 != routeNotFound && (norm x.2.ppath).1 == above ++ headToks k pre
                        && x.2.pnames.length == arity (above ++ headToks k pre))
    && (match nf with
        | some rm => (norm rm.ppath).1 == above ++ headToks k pre
                     && rm.pnames.length == arity (above ++ headToks k pre)
        | none => true)
    && labelsDistinct st
    && tiList D (above ++ headToks k pre) st
    && tiOpt D (above ++ headToks k pre) .param pa
    && tiOpt D (above ++ headToks k pre) .any an
def tiList (D : Nat) (here : List Tok) : List Node → Bool
  | [] => true
  | c :: cs => c.kind == .static && !c.pre.isEmpty && tiNode D here c && tiList D here cs
def tiOpt (D : Nat) (here : List Tok) (k : Kind) : Option Node → Bool
  | none => true
  | some c => c.kind == k && tiNode D here c
end


/-- no two residuals with the same remaining tokens and the same method (executable form of
    the "no structurally identical duplicates" hypothesis) -/
def uniqB : R → Bool
  | [] => true
  | x :: xs => xs.all (fun y => !(x.1 == y.1 && x.2.method == y.2.method)) && uniqB xs

/-- the facts about `Router.build` that the refinement theorem needs, evaluated for one table:
    the tree satisfies the invariant, it represents exactly the registered entries, and the
    table has no structural duplicates -/
def tableInvariant (rs : List Route) : Bool × Bool :=
  let t := build rs
  (tiNode (maxParam rs) [] t && decide (t.kind = .static),
   (resid t).isPerm (initial (rs.map mkEntry)) && uniqB (initial (rs.map mkEntry)))

/-- a pattern the tree can represent faithfully: no escaped colon (`\\:` — a literal colon shares its tree
    label with a parameter, findings F2/F3) and no text after `*`.  Scans like `normAux`. -/
def okPatternAux : Nat → Str → Bool
  | 0, _ => true
  | _ + 1, [] => true
  | f + 1, c :: rest =>
    if c = '\\' ∧ rest.head? = some ':' then false
    else if c = ':' then okPatternAux f (rest.dropWhile (· ≠ '/'))
    else if c = '*' then rest.isEmpty
    else okPatternAux f rest

def okPattern (p : Str) : Bool :=
  let p := normalizeSlash p
  okPatternAux (p.length + 1) p

/-- **well-formed table**: every pattern is representable and no two routes have the same method and
    the same normalised pattern (such a pair is one route registered twice: the later replaces the
    earlier).  For these tables `tableInvariant` is expected to hold always (theorem in progress:
    `EchoProofs/Tree/Insert.lean`); the driver reports the three facts for every table. -/
def wfTable (rs : List Route) : Bool :=
  rs.all (fun r => okPattern r.path) && uniqB (initial (rs.map mkEntry))

/-- two registrations of one route: same method, same normalised pattern -/
def sameKey (a b : Route) : Bool := a.method == b.method && (norm a.path).1 == (norm b.path).1

/-- registering a route again replaces the earlier registration (`addMethod` overwrites the record of
    that method at that node): the table that is *in force* keeps the last registration of each route -/
def dedupLast : List Route → List Route
  | [] => []
  | r :: rs => if rs.any (sameKey r) then dedupLast rs else r :: dedupLast rs

/-- every pattern is representable (re-registrations allowed) -/
def okTable (rs : List Route) : Bool := rs.all (fun r => okPattern r.path)

/-- the per-table facts with re-registrations taken into account: the tree satisfies the invariant and
    represents exactly the table in force (`dedupLast`).  Equal to `tableInvariant` on tables without
    re-registered routes. -/
def tableInvariantD (rs : List Route) : Bool × Bool :=
  let t := build rs
  (tiNode (maxParam rs) [] t && decide (t.kind = .static),
   (resid t).isPerm (initial ((dedupLast rs).map mkEntry)))

end Router.Tree
