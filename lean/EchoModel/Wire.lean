/-!
# Wire: the line protocol shared by the Go harness and the Lean model driver

One case per line, tokens separated by single spaces.

* natural numbers: decimal digits; integers: optional leading `-`
* byte strings: `s` followed by lower-case hex (`s` alone is the empty string); every byte
  becomes the `Char` with that code point (Latin-1 view of a Go string)
* booleans: `0` / `1`
* lists: a length token followed by that many elements

Trusted glue: exercised by every comparison of the correspondence run.
-/
namespace Wire

abbrev P := StateT (List String) Option

def tok : P String := fun s => match s with
  | [] => none
  | t :: r => some (t, r)

def nat : P Nat := do
  let t ← tok
  match t.toNat? with
  | some n => pure n
  | none => failure

def int : P Int := do
  let t ← tok
  match t.toInt? with
  | some n => pure n
  | none => failure

def bool : P Bool := do
  let n ← nat
  pure (n != 0)

def hexVal (c : Char) : Option Nat :=
  if '0' ≤ c ∧ c ≤ '9' then some (c.toNat - '0'.toNat)
  else if 'a' ≤ c ∧ c ≤ 'f' then some (c.toNat - 'a'.toNat + 10)
  else none

def unhex : List Char → Option (List Nat)
  | [] => some []
  | [_] => none
  | a :: b :: r => do
    let x ← hexVal a
    let y ← hexVal b
    let rest ← unhex r
    pure ((x * 16 + y) :: rest)

/-- a byte string as a list of byte values -/
def bytes : P (List Nat) := do
  let t ← tok
  match t.toList with
  | 's' :: r => match unhex r with
    | some l => pure l
    | none => failure
  | _ => failure

/-- a byte string as `List Char` (each byte one `Char` of that code point) -/
def str : P (List Char) := do
  let b ← bytes
  pure (b.map Char.ofNat)

def listN {α} (p : P α) : Nat → P (List α)
  | 0 => pure []
  | n + 1 => do
    let x ← p
    let xs ← listN p n
    pure (x :: xs)

def list {α} (p : P α) : P (List α) := do
  let n ← nat
  listN p n

def opt {α} (p : P α) : P (Option α) := do
  let b ← bool
  if b then (do let x ← p; pure (some x)) else pure none

def hexDigit (n : Nat) : Char :=
  if n < 10 then Char.ofNat ('0'.toNat + n) else Char.ofNat ('a'.toNat + (n - 10))

def encBytes (l : List Nat) : String :=
  String.ofList ('s' :: l.flatMap fun b => [hexDigit ((b / 16) % 16), hexDigit (b % 16)])

def encStr (l : List Char) : String := encBytes (l.map Char.toNat)

def encBool (b : Bool) : String := if b then "1" else "0"

def encList {α} (f : α → List String) (l : List α) : List String :=
  toString l.length :: l.flatMap f

def encOpt {α} (f : α → List String) : Option α → List String
  | none => ["0"]
  | some x => "1" :: f x

def render (toks : List String) : String := " ".intercalate toks

/-- run a parser on a whole line; all tokens must be consumed -/
def parseLine {α} (p : P α) (line : String) : Option α :=
  let toks := (line.splitOn " ").filter (· ≠ "")
  match p toks with
  | some (x, []) => some x
  | _ => none

end Wire
