import EchoModel.Wire
/-!
# C11 — CORS (middleware/cors.go, middleware/util.go matchScheme / matchSubdomain)

Strings are `List Char`, one `Char` per byte.

* `glob` is the meaning of the regular expression `CORSWithConfig` compiles for an AllowOrigins
  entry: `regexp.QuoteMeta`, then `\*` → `.*`, `\?` → `.`, anchored with `^…$`.  After quoting,
  every byte of the entry except `*` and `?` stands for itself, `*` for any run of characters
  (also the empty one), `?` for exactly one character, and the whole origin must be consumed.
  Go's `regexp` works on runes and `.` excludes `\n`; on printable ASCII a rune is a byte, so
  `glob` is exact there.  The correspondence run validates `glob` against the real `regexp` on
  ASCII origins and patterns (the harness generates no others).  Structural recursion on the
  pattern (the `*` case scans the suffixes of the origin) so that `decide` can evaluate it.
* `matchScheme` / `matchSubdomain` exactly as in util.go **after the F9 repair**: `strings.Index`
  of `:` resp. `://`, the 253-byte limit on the origin's authority, `strings.Split` on `.`,
  both label lists reversed, and the loop that accepts at a `*` label — which must now be the
  last (= left-most) label of the pattern (`return i == len(patComp)-1`).
* the allow loop of cors.go in its order (`*` with the unsafe-credentials flag, `*`, literal
  equality, `matchSubdomain`), then — only if nothing matched, the origin is at most 261 bytes
  long and contains `://` — the compiled patterns; 401 / 204 for disallowed origins; the
  preflight branch.  This core (`serve`) is the middleware with `AllowOriginFunc` unset and the
  default Skipper, projected on status / handler / ACAO / ACAC / Vary.
* round 4: an entry that is not valid UTF-8 does not compile (`regexp.Compile` fails, the entry is
  silently dropped from the pattern list but still takes part in the literal and sub-domain
  comparisons of the allow loop).  `validUtf8` implements `utf8.ValidString` on the byte list and
  is validated by the run on entries assembled from valid, truncated, overlong, surrogate and
  out-of-range sequences.  (QuoteMeta escapes every metacharacter, so invalid UTF-8 is the only way
  the compilation of an entry fails.)
* round 4: `serveFull` is the complete closure of `CORSWithConfig`: Skipper first; the router's
  `Allow` value from the context on OPTIONS (header `Allow`, and `Access-Control-Allow-Methods`
  when `AllowMethods` was left empty); `AllowOriginFunc` (a parameter: allow / deny / error) which
  replaces the allow-list; `Access-Control-Expose-Headers` on simple requests;
  `Access-Control-Allow-Methods` / `-Allow-Headers` (configured list or echo of the request's
  `Access-Control-Request-Headers`) / `-Max-Age` on preflights; `CORS()` = `CORSWithConfig(DefaultCORSConfig)`,
  whose non-empty AllowMethods count as custom.  `serveFull_core` ties it to `serve`.
* round 8: `DefaultCORSConfig` is a package VARIABLE.  `Cfg.dfltOrigins` / `Full.dfltMethods` hold what the
  constructor found in it (`["*"]` / the six methods unless the application assigned something else); `setup` runs
  a script of assignments and constructor calls over the variable's current value (`Defaults`), `Call.build` is the
  instance a call yields: `CORS()` takes every field of the value, `CORSWithConfig` the Skipper, the allow-list and
  the method list where its argument leaves them empty.  Both lists empty: nothing is allowed.
-/
namespace C11

abbrev Str := List Char

/-! ## glob: the compiled pattern -/

/-- `f` holds for some suffix of the string (including the string itself and `[]`) -/
def anySuffix (f : Str → Bool) : Str → Bool
  | [] => f []
  | c :: t => f (c :: t) || anySuffix f t

def glob : Str → Str → Bool
  | [], s => s.isEmpty
  | a :: p, s =>
    if a = '*' then anySuffix (glob p) s
    else match s with
      | [] => false
      | c :: t => (a = '?' || a = c) && glob p t

/-! ## util.go -/

/-- `strings.Index(s, string(ch))` -/
def indexChar (ch : Char) : Str → Option Nat
  | [] => none
  | c :: r => if c = ch then some 0 else (indexChar ch r).map (· + 1)

/-- `strings.Index(s, sub)` for a non-empty `sub` -/
def indexOf (sub : Str) : Str → Option Nat
  | [] => none
  | c :: r => if sub.isPrefixOf (c :: r) then some 0 else (indexOf sub r).map (· + 1)

def sep : Str := [':', '/', '/']      -- "://"

/-- first field and remaining fields of `strings.Split(s, string(ch))` -/
def split1 (ch : Char) : Str → Str × List Str
  | [] => ([], [])
  | c :: r =>
    let x := split1 ch r
    if c = ch then ([], x.1 :: x.2) else (c :: x.1, x.2)

/-- `strings.Split(s, string(ch))` -/
def splitOn (ch : Char) (s : Str) : List Str := (split1 ch s).1 :: (split1 ch s).2

def matchScheme (domain pattern : Str) : Bool :=
  match indexChar ':' domain, indexChar ':' pattern with
  | some didx, some pidx => domain.take didx == pattern.take pidx
  | _, _ => false

/-- `for i, v := range domComp { … }` over the reversed label lists; the index `i` is the number
    of labels already consumed, so `i == len(patComp)-1` is "no pattern label is left" -/
def labelLoop : List Str → List Str → Bool
  | [], _ => false                       -- loop ends: return false
  | _ :: _, [] => false                  -- len(patComp) <= i
  | v :: ds, p :: ps =>
    if p = ['*'] then ps.isEmpty         -- F9 repair: return i == len(patComp)-1
    else if p ≠ v then false
    else labelLoop ds ps

def matchSubdomain (domain pattern : Str) : Bool :=
  if !matchScheme domain pattern then false
  else
    match indexOf sep domain, indexOf sep pattern with
    | some didx, some pidx =>
      let domAuth := domain.drop (didx + 3)
      if domAuth.length > 253 then false
      else
        let patAuth := pattern.drop (pidx + 3)
        labelLoop (splitOn '.' domAuth).reverse (splitOn '.' patAuth).reverse
    | _, _ => false

/-! ## cors.go -/

structure Cfg where
  origins : List Str       -- AllowOrigins as configured
  creds : Bool             -- AllowCredentials
  unsafeWild : Bool        -- UnsafeWildcardOriginWithAllowCredentials
  /-- round 8: `DefaultCORSConfig.AllowOrigins` as it was when the constructor ran (the package variable can be
      assigned by the application); `["*"]` unless it was changed -/
  dfltOrigins : List Str := [['*']]
deriving Repr, Inhabited

structure Req where
  preflight : Bool         -- method == OPTIONS
  origins : List Str       -- values of the Origin header (Header.Get takes the first)
deriving Repr, Inhabited

structure Obs where
  status : Nat
  ran : Bool               -- next handler ran
  acao : Option Str        -- Access-Control-Allow-Origin
  acac : Bool              -- Access-Control-Allow-Credentials: true
  vary : List Str
deriving DecidableEq, Repr, Inhabited

def star : Str := ['*']

/-- `if len(config.AllowOrigins) == 0 { config.AllowOrigins = DefaultCORSConfig.AllowOrigins }` — the list in force;
    it is empty (nothing is allowed) when both the configured and the package variable's list are empty -/
def effOrigins (cfg : Cfg) : List Str := if cfg.origins = [] then cfg.dfltOrigins else cfg.origins

/-- `for _, o := range config.AllowOrigins { … break }`; result `[]` = allowOrigin stays "" -/
def allowLoop (cfg : Cfg) (origin : Str) : List Str → Str
  | [] => []
  | o :: rest =>
    if o = star ∧ cfg.creds = true ∧ cfg.unsafeWild = true then origin
    else if o = star ∨ o = origin then o
    else if matchSubdomain origin o then origin
    else allowLoop cfg origin rest

/-! ### which entries compile: `utf8.ValidString` -/

/-- the decoder of `utf8.ValidString` as a state machine over the bytes: `need` continuation bytes
    are still owed, the next one must lie in `[lo, hi]` (the first continuation byte of a sequence
    has a narrowed range after E0 / ED / F0 / F4: no overlong forms, no surrogates, nothing above
    U+10FFFF); every later one in `[80, BF]` -/
def utf8Go : Nat → Nat → Nat → Str → Bool
  | need, _, _, [] => need == 0
  | 0, _, _, a :: r =>
    let n := a.toNat
    if n < 0x80 then utf8Go 0 0 0 r
    else if 0xC2 ≤ n ∧ n ≤ 0xDF then utf8Go 1 0x80 0xBF r
    else if n = 0xE0 then utf8Go 2 0xA0 0xBF r
    else if n = 0xED then utf8Go 2 0x80 0x9F r
    else if 0xE1 ≤ n ∧ n ≤ 0xEF then utf8Go 2 0x80 0xBF r
    else if n = 0xF0 then utf8Go 3 0x90 0xBF r
    else if n = 0xF4 then utf8Go 3 0x80 0x8F r
    else if 0xF1 ≤ n ∧ n ≤ 0xF3 then utf8Go 3 0x80 0xBF r
    else false
  | need + 1, lo, hi, a :: r =>
    if lo ≤ a.toNat ∧ a.toNat ≤ hi then utf8Go need 0x80 0xBF r else false

/-- `utf8.ValidString` on a byte list -/
def validUtf8 (s : Str) : Bool := utf8Go 0 0 0 s

/-- `regexp.Compile("^" + quoted-and-translated entry + "$")` succeeds -/
def compiles (p : Str) : Bool := validUtf8 p

/-- the entries a regexp was compiled for (`*` is skipped; an entry that does not compile is ignored) -/
def patterns (cfg : Cfg) : List Str := (effOrigins cfg).filter (fun p => decide (p ≠ star) && compiles p)

/-- value of `allowOrigin` after the allow loop and the pattern loop (`[]` = not allowed) -/
def allowOrigin (cfg : Cfg) (origin : Str) : Str :=
  let a := allowLoop cfg origin (effOrigins cfg)
  if a ≠ [] then a
  else if origin.length ≤ 253 + 3 + 5 ∧ (indexOf sep origin).isSome then
    if (patterns cfg).any (fun p => glob p origin) then origin else []
  else []

def varyOrigin : Str := "Origin".toList
def varyPreflight : List Str :=
  ["Access-Control-Request-Method".toList, "Access-Control-Request-Headers".toList]

/-- one request through the middleware in front of a handler that answers 200 -/
def serve (cfg : Cfg) (req : Req) : Obs :=
  let origin := req.origins.headD []
  if origin = [] then
    if !req.preflight then ⟨200, true, none, false, [varyOrigin]⟩
    else ⟨204, false, none, false, [varyOrigin]⟩
  else
    let a := allowOrigin cfg origin
    if a = [] then
      if !req.preflight then ⟨401, false, none, false, [varyOrigin]⟩
      else ⟨204, false, none, false, [varyOrigin]⟩
    else if !req.preflight then ⟨200, true, some a, cfg.creds, [varyOrigin]⟩
    else ⟨204, false, some a, cfg.creds, varyOrigin :: varyPreflight⟩

/-! ## the complete middleware -/

/-- what `AllowOriginFunc` answers -/
inductive FRes where
  | allow
  | deny
  | err (status : Nat)      -- the error it returned, as the status echo's error handler gives it
deriving DecidableEq, Repr, Inhabited

def defaultMethods : List Str :=
  ["GET".toList, "HEAD".toList, "PUT".toList, "PATCH".toList, "POST".toList, "DELETE".toList]

structure Full where
  core : Cfg
  func : Option (Str → FRes)   -- AllowOriginFunc
  methods : List Str           -- AllowMethods as configured
  headers : List Str           -- AllowHeaders
  expose : List Str            -- ExposeHeaders
  maxAge : Int                 -- MaxAge
  /-- round 8: `DefaultCORSConfig.AllowMethods` as it was when the constructor ran -/
  dfltMethods : List Str := defaultMethods

structure FReq where
  core : Req
  skip : Bool                  -- what the configured Skipper answers for this request
  routerAllow : Str            -- `c.Get(echo.ContextKeyHeaderAllow)` when it is a string, "" otherwise
  reqHeaders : Str             -- first Access-Control-Request-Headers value, "" when absent

structure FObs where
  core : Obs
  allow : Option Str           -- Allow
  acam : Option Str            -- Access-Control-Allow-Methods
  acah : Option Str            -- Access-Control-Allow-Headers
  aceh : Option Str            -- Access-Control-Expose-Headers
  maxAge : Option Str          -- Access-Control-Max-Age
deriving DecidableEq, Repr, Inhabited

/-- `strings.Join(l, ",")` -/
def joinComma : List Str → Str
  | [] => []
  | [a] => a
  | a :: b :: r => a ++ ',' :: joinComma (b :: r)

/-- `DefaultCORSConfig` as `CORS()` passes it on: its AllowMethods are set, hence "custom" -/
def defaultFull : Full := ⟨⟨[star], false, false, [star]⟩, none, defaultMethods, [], [], 0, defaultMethods⟩

/-- `maxAge := "0"; if config.MaxAge > 0 { maxAge = strconv.Itoa(config.MaxAge) }` -/
def maxAgeStr (n : Int) : Str := if n > 0 then (toString n.toNat).toList else ['0']

/-- the origin decision: `AllowOriginFunc` when set (AllowOrigins is then ignored), else the allow-list;
    `.error st` = the function's error is returned by the middleware -/
def decideOrigin (fc : Full) (origin : Str) : Except Nat Str :=
  match fc.func with
  | some f =>
    match f origin with
    | .err st => .error st
    | .allow => .ok origin
    | .deny => .ok []
  | none => .ok (allowOrigin fc.core origin)

def noHeaders (o : Obs) (allow : Option Str) : FObs := ⟨o, allow, none, none, none, none⟩

/-- one request through the complete middleware in front of a handler that answers 200 -/
def serveFull (fc : Full) (fr : FReq) : FObs :=
  if fr.skip then noHeaders ⟨200, true, none, false, []⟩ none
  else
    let pre := fr.core.preflight
    let rAllow : Str := if pre then fr.routerAllow else []        -- routerAllowMethods
    let allowHdr : Option Str := if rAllow = [] then none else some rAllow
    let origin := fr.core.origins.headD []
    if origin = [] then
      if !pre then noHeaders ⟨200, true, none, false, [varyOrigin]⟩ allowHdr
      else noHeaders ⟨204, false, none, false, [varyOrigin]⟩ allowHdr
    else
      match decideOrigin fc origin with
      | .error st => noHeaders ⟨st, false, none, false, [varyOrigin]⟩ allowHdr
      | .ok a =>
        if a = [] then
          if !pre then noHeaders ⟨401, false, none, false, [varyOrigin]⟩ allowHdr
          else noHeaders ⟨204, false, none, false, [varyOrigin]⟩ allowHdr
        else if !pre then
          ⟨⟨200, true, some a, fc.core.creds, [varyOrigin]⟩, allowHdr, none, none,
            (if joinComma fc.expose = [] then none else some (joinComma fc.expose)), none⟩
        else
          ⟨⟨204, false, some a, fc.core.creds, varyOrigin :: varyPreflight⟩, allowHdr,
            some (if fc.methods = [] ∧ rAllow ≠ [] then rAllow
                  else joinComma (if fc.methods = [] then fc.dfltMethods else fc.methods)),
            (if joinComma fc.headers ≠ [] then some (joinComma fc.headers)
             else if fr.reqHeaders ≠ [] then some fr.reqHeaders else none),
            none,
            (if fc.maxAge = 0 then none else some (maxAgeStr fc.maxAge))⟩

/-! ## several instances on the path of one request (round 5)

`e.Use(CORS…)` plus a group- or route-level instance, or two instances on one route: echo runs
them outermost first; an instance that does not call `next` ends the request, one that does leaves
its headers in the shared response (`Header().Set` of an inner instance overwrites, `Vary` is
added to).  Every instance reads the same request; the context value under
`echo.ContextKeyHeaderAllow` is read by each instance when it runs (an `e.Pre` instance runs
before the router has set it), so it is an input per layer, like the Skipper's answer. -/

structure Layer where
  cfg : Full
  skip : Bool
  routerAllow : Str

/-- the request as this layer sees it: same method, same headers -/
def layerReq (fr : FReq) (l : Layer) : FReq := { fr with skip := l.skip, routerAllow := l.routerAllow }

/-- what one layer does with the request on its own -/
def Layer.run (fr : FReq) (l : Layer) : FObs := serveFull l.cfg (layerReq fr l)

/-- the handler behind the stack answers 200 -/
def handlerObs : FObs := noHeaders ⟨200, true, none, false, []⟩ none

/-- `outer` called `next`; `inner` is what the rest of the chain did with the shared response -/
def mergeObs (outer inner : FObs) : FObs :=
  ⟨⟨inner.core.status, inner.core.ran, inner.core.acao <|> outer.core.acao,
     inner.core.acac || outer.core.acac, outer.core.vary ++ inner.core.vary⟩,
   inner.allow <|> outer.allow, inner.acam <|> outer.acam, inner.acah <|> outer.acah,
   inner.aceh <|> outer.aceh, inner.maxAge <|> outer.maxAge⟩

/-- one request through a stack of instances (outermost first) in front of the handler -/
def serveStack (fr : FReq) : List Layer → FObs
  | [] => handlerObs
  | l :: rest =>
    let o := l.run fr
    if o.core.ran then mergeObs o (serveStack fr rest) else o

/-! ## the state of the shared response when the first instance is entered (round 7)

A middleware registered earlier may have put CORS-looking headers into the response (a proxy
layer, a second library) or may already have STARTED it (`WriteHeader` / `Write` / `Flush`) before
calling `next`.  The middleware does not look at any of that: the decision is the same.  What the
client sees: headers present at entry stay unless an instance overwrites them; once the response
is started, the status on the wire and the headers sent with it are final — whatever the instances
set afterwards is not sent. -/

structure Entry where
  committed : Option Nat      -- status already written (`none`: response not started)
  acao : Option Str           -- Access-Control-Allow-Origin already in the response
  acac : Bool                 -- Access-Control-Allow-Credentials already there
  vary : List Str             -- Vary values already there
deriving DecidableEq, Repr, Inhabited

def entryObs (en : Entry) : FObs := noHeaders ⟨200, true, en.acao, en.acac, en.vary⟩ none

/-- what the client sees of one request through the stack, given the response state at entry -/
def serveEntry (en : Entry) (fr : FReq) (ls : List Layer) : FObs :=
  let o := serveStack fr ls
  match en.committed with
  | some st => noHeaders ⟨st, o.core.ran, en.acao, en.acac, en.vary⟩ none
  | none => mergeObs (entryObs en) o

/-! ## the package variable `DefaultCORSConfig` and the order of the set-up calls (round 8)

`DefaultCORSConfig` is an exported package variable; assigning it (or single fields of it) before calling
`CORS()` is the documented way of changing the defaults.  Both constructors read it WHEN THEY ARE CALLED:

* `CORS()` is `CORSWithConfig(DefaultCORSConfig)` — every field of the current value;
* `CORSWithConfig(config)` takes `Skipper`, `AllowOrigins` and `AllowMethods` from the current value where `config`
  leaves them nil / empty (taken over AllowMethods do not count as custom).

The value is copied into the closure: an assignment after the call does not reach an instance already built, and a
constructor call leaves nothing behind that a later call could see.  The set-up of an application is therefore a
script of assignments and constructor calls over ONE piece of state, the current value of the variable (`setup`). -/

/-- a value of `DefaultCORSConfig`; `skip` is what its Skipper answers for the request at hand -/
structure Defaults where
  origins : List Str
  creds : Bool
  unsafeWild : Bool
  func : Option (Str → FRes)
  methods : List Str
  headers : List Str
  expose : List Str
  maxAge : Int
  skip : Bool

/-- the value the package is shipped with -/
def pristine : Defaults := ⟨[star], false, false, none, defaultMethods, [], [], 0, false⟩

/-- `CORSWithConfig(config)` called while the variable holds `d`: the closure's configuration -/
def withConfig (d : Defaults) (fc : Full) : Full :=
  { fc with core := { fc.core with dfltOrigins := d.origins }, dfltMethods := d.methods }

/-- the variable's value as a `CORSConfig` argument -/
def Defaults.asConfig (d : Defaults) : Full :=
  ⟨⟨d.origins, d.creds, d.unsafeWild, d.origins⟩, d.func, d.methods, d.headers, d.expose, d.maxAge, d.methods⟩

/-- `CORS()` called while the variable holds `d` -/
def corsDefault (d : Defaults) : Full := withConfig d d.asConfig

/-- a constructor call: `ctor` 1 = `CORS()` (the argument is ignored), otherwise `CORSWithConfig(cfg)`;
    `ownSkip` = `none` when `cfg.Skipper` is nil, else what the configured Skipper answers for the request;
    `routerAllow`: what the instance will find in the context -/
structure Call where
  ctor : Nat
  cfg : Full
  ownSkip : Option Bool
  routerAllow : Str

/-- the instance a constructor call yields while the variable holds `d` -/
def Call.build (d : Defaults) (k : Call) : Layer :=
  if k.ctor = 1 then ⟨corsDefault d, d.skip, k.routerAllow⟩
  else ⟨withConfig d k.cfg, k.ownSkip.getD d.skip, k.routerAllow⟩

inductive SetupOp where
  | assign (d : Defaults)             -- `middleware.DefaultCORSConfig = …`
  | call (keep : Bool) (k : Call)     -- a constructor call; `keep`: the instance is put on the request's path
                                      -- (in call order, outermost first), otherwise it is used elsewhere / dropped

/-- the value of the variable after a script -/
def current : Defaults → List SetupOp → Defaults
  | d, [] => d
  | _, .assign d' :: r => current d' r
  | d, .call _ _ :: r => current d r

/-- the instances on the request's path after a script that starts with the variable holding `d` -/
def setup : Defaults → List SetupOp → List Layer
  | _, [] => []
  | _, .assign d' :: r => setup d' r
  | d, .call keep k :: r => if keep then k.build d :: setup d r else setup d r

/-! ## wire -/
open Wire

def encObs (o : Obs) : String :=
  render ([toString o.status, encBool o.ran] ++ encOpt (fun s => [encStr s]) o.acao ++
    [encBool o.acac] ++ encList (fun s => [encStr s]) o.vary)

def encFObs (o : FObs) : String :=
  render ([encObs o.core] ++ encOpt (fun s => [encStr s]) o.allow ++ encOpt (fun s => [encStr s]) o.acam ++
    encOpt (fun s => [encStr s]) o.acah ++ encOpt (fun s => [encStr s]) o.aceh ++
    encOpt (fun s => [encStr s]) o.maxAge)

/-- `func` token: 0 = AllowOriginFunc not set, 1 = it allows this origin, 2 = it refuses it,
    n ≥ 100 = it returns an error that echo's error handler answers with status n -/
def pFunc : P (Option (Str → FRes)) := do
  let n ← nat
  pure (if n = 0 then none else some (fun _ => if n = 1 then .allow else if n = 2 then .deny else .err n))

/-- configuration tokens: `creds unsafe n allow* func n methods* n headers* n expose* maxAge` (as written by the
    application: the defaults are not filled in) -/
def pFull : P Full := do
  let creds ← bool
  let uw ← bool
  let allow ← list str
  let func ← pFunc
  let methods ← list str
  let headers ← list str
  let expose ← list str
  let maxAge ← int
  pure ⟨⟨allow, creds, uw, [star]⟩, func, methods, headers, expose, maxAge, defaultMethods⟩

/-- a value of the package variable: `skip` + configuration tokens -/
def pDefaults : P Defaults := do
  let skip ← bool
  let fc ← pFull
  pure ⟨fc.core.origins, fc.core.creds, fc.core.unsafeWild, fc.func, fc.methods, fc.headers, fc.expose, fc.maxAge, skip⟩

/-- a constructor call: `ownSkipper skip routerAllow ctor` + configuration tokens (`ctor` 1 = `CORS()`: the
    configuration tokens are ignored); `ownSkipper` 0 = `config.Skipper` is nil -/
def pCall : P Call := do
  let own ← bool
  let skip ← bool
  let rAllow ← str
  let ctor ← nat
  let fc ← pFull
  pure ⟨ctor, fc, if own then some skip else none, rAllow⟩

/-- one step of the set-up: `0` + a value of the variable (assignment) or `1 keep` + a constructor call -/
def pSetupOp : P SetupOp := do
  let kind ← nat
  if kind = 0 then
    let d ← pDefaults
    pure (.assign d)
  else
    let keep ← bool
    let k ← pCall
    pure (.call keep k)

/-- round 6: the request as the middleware reads it off the whole request head.  Only three things
    are consulted: whether the method is exactly `OPTIONS`, the values of `Origin` (the first one
    counts) and the first `Access-Control-Request-Headers` value; header names arrive in net/http's
    canonical form.  Everything else — `Access-Control-Request-Method`, `Sec-Fetch-*`, `Host`,
    `Cookie`, `Authorization`, `X-Requested-With`, … — is in the input and ignored. -/
def hdrValues (headers : List (Str × Str)) (name : Str) : List Str :=
  (headers.filter fun h => h.1 = name).map (·.2)

def reqOf (method : Str) (headers : List (Str × Str)) : FReq :=
  ⟨⟨method = "OPTIONS".toList, hdrValues headers "Origin".toList⟩, false, [],
   (hdrValues headers "Access-Control-Request-Headers".toList).headD []⟩

def pPair : P (Str × Str) := do
  let a ← str
  let b ← str
  pure (a, b)

def pEntry : P Entry := do
  let c ← nat
  let acao ← opt str
  let acac ← bool
  let vary ← list str
  pure ⟨if c = 0 then none else some c, acao, acac, vary⟩

/-- line: `committed (0 | 1 acao) acac nVary vary*` (response state at entry; committed 0 = not started), then
    `method nHeaders (name value)* nOps op*` (the set-up script, starting from the pristine `DefaultCORSConfig`;
    the kept constructor calls are the instances on the path, outermost first, at least one)
    →  `status ran (0 | 1 acao) acac k vary* (0|1 allow) (0|1 acam) (0|1 acah) (0|1 aceh) (0|1 maxage)` -/
def runLine (line : String) : String :=
  match parseLine (do
      let en ← pEntry
      let method ← str
      let headers ← list pPair
      let ops ← list pSetupOp
      pure (en, reqOf method headers, ops)) line with
  | none => "bad-op"
  | some (en, fr, ops) => encFObs (serveEntry en fr (setup pristine ops))

end C11
