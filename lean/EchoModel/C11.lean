import EchoModel.Wire
/-!
# C11 — CORS (middleware/cors.go, middleware/util.go matchScheme / matchSubdomain)

Strings are `List Char`, one `Char` per byte.

* `glob` is the meaning of the regular expression `CORSWithConfig` compiles for an AllowOrigins
  entry: `regexp.QuoteMeta`, then `\*` → `.*`, `\?` → `.`, anchored with `^…$`.  After quoting,
  every byte of the entry except `*` and `?` stands for itself, `*` for any run of characters
  (also the empty one), `?` for exactly one character, and the whole origin must be consumed.
  Go's `regexp` works on runes and `.` excludes `\n`; on printable ASCII a rune is a byte, so
  `glob` is exact there.  The correspondence run validates `glob` against the real `regexp` on
  ASCII origins and patterns (the harness generates no others).  Structural recursion on the
  pattern (the `*` case scans the suffixes of the origin) so that `decide` can evaluate it.
* `matchScheme` / `matchSubdomain` exactly as in util.go **after the F9 repair**: `strings.Index`
  of `:` resp. `://`, the 253-byte limit on the origin's authority, `strings.Split` on `.`,
  both label lists reversed, and the loop that accepts at a `*` label — which must now be the
  last (= left-most) label of the pattern (`return i == len(patComp)-1`).
* the allow loop of cors.go in its order (`*` with the unsafe-credentials flag, `*`, literal
  equality, `matchSubdomain`), then — only if nothing matched, the origin is at most 261 bytes
  long and contains `://` — the compiled patterns; 401 / 204 for disallowed origins; the
  preflight branch.  `AllowOriginFunc` is not modelled (the property is about AllowOrigins).
-/
namespace C11

abbrev Str := List Char

/-! ## glob: the compiled pattern -/

/-- `f` holds for some suffix of the string (including the string itself and `[]`) -/
def anySuffix (f : Str → Bool) : Str → Bool
  | [] => f []
  | c :: t => f (c :: t) || anySuffix f t

def glob : Str → Str → Bool
  | [], s => s.isEmpty
  | a :: p, s =>
    if a = '*' then anySuffix (glob p) s
    else match s with
      | [] => false
      | c :: t => (a = '?' || a = c) && glob p t

/-! ## util.go -/

/-- `strings.Index(s, string(ch))` -/
def indexChar (ch : Char) : Str → Option Nat
  | [] => none
  | c :: r => if c = ch then some 0 else (indexChar ch r).map (· + 1)

/-- `strings.Index(s, sub)` for a non-empty `sub` -/
def indexOf (sub : Str) : Str → Option Nat
  | [] => none
  | c :: r => if sub.isPrefixOf (c :: r) then some 0 else (indexOf sub r).map (· + 1)

def sep : Str := [':', '/', '/']      -- "://"

/-- first field and remaining fields of `strings.Split(s, string(ch))` -/
def split1 (ch : Char) : Str → Str × List Str
  | [] => ([], [])
  | c :: r =>
    let x := split1 ch r
    if c = ch then ([], x.1 :: x.2) else (c :: x.1, x.2)

/-- `strings.Split(s, string(ch))` -/
def splitOn (ch : Char) (s : Str) : List Str := (split1 ch s).1 :: (split1 ch s).2

def matchScheme (domain pattern : Str) : Bool :=
  match indexChar ':' domain, indexChar ':' pattern with
  | some didx, some pidx => domain.take didx == pattern.take pidx
  | _, _ => false

/-- `for i, v := range domComp { … }` over the reversed label lists; the index `i` is the number
    of labels already consumed, so `i == len(patComp)-1` is "no pattern label is left" -/
def labelLoop : List Str → List Str → Bool
  | [], _ => false                       -- loop ends: return false
  | _ :: _, [] => false                  -- len(patComp) <= i
  | v :: ds, p :: ps =>
    if p = ['*'] then ps.isEmpty         -- F9 repair: return i == len(patComp)-1
    else if p ≠ v then false
    else labelLoop ds ps

def matchSubdomain (domain pattern : Str) : Bool :=
  if !matchScheme domain pattern then false
  else
    match indexOf sep domain, indexOf sep pattern with
    | some didx, some pidx =>
      let domAuth := domain.drop (didx + 3)
      if domAuth.length > 253 then false
      else
        let patAuth := pattern.drop (pidx + 3)
        labelLoop (splitOn '.' domAuth).reverse (splitOn '.' patAuth).reverse
    | _, _ => false

/-! ## cors.go -/

structure Cfg where
  origins : List Str       -- AllowOrigins as configured
  creds : Bool             -- AllowCredentials
  unsafeWild : Bool        -- UnsafeWildcardOriginWithAllowCredentials
deriving Repr, Inhabited

structure Req where
  preflight : Bool         -- method == OPTIONS
  origins : List Str       -- values of the Origin header (Header.Get takes the first)
deriving Repr, Inhabited

structure Obs where
  status : Nat
  ran : Bool               -- next handler ran
  acao : Option Str        -- Access-Control-Allow-Origin
  acac : Bool              -- Access-Control-Allow-Credentials: true
  vary : List Str
deriving DecidableEq, Repr, Inhabited

def star : Str := ['*']

/-- `if len(config.AllowOrigins) == 0 { config.AllowOrigins = DefaultCORSConfig.AllowOrigins }` -/
def effOrigins (cfg : Cfg) : List Str := if cfg.origins = [] then [star] else cfg.origins

/-- `for _, o := range config.AllowOrigins { … break }`; result `[]` = allowOrigin stays "" -/
def allowLoop (cfg : Cfg) (origin : Str) : List Str → Str
  | [] => []
  | o :: rest =>
    if o = star ∧ cfg.creds = true ∧ cfg.unsafeWild = true then origin
    else if o = star ∨ o = origin then o
    else if matchSubdomain origin o then origin
    else allowLoop cfg origin rest

/-- the entries a regexp was compiled for (`*` is skipped; ASCII entries always compile) -/
def patterns (cfg : Cfg) : List Str := (effOrigins cfg).filter (· ≠ star)

/-- value of `allowOrigin` after the allow loop and the pattern loop (`[]` = not allowed) -/
def allowOrigin (cfg : Cfg) (origin : Str) : Str :=
  let a := allowLoop cfg origin (effOrigins cfg)
  if a ≠ [] then a
  else if origin.length ≤ 253 + 3 + 5 ∧ (indexOf sep origin).isSome then
    if (patterns cfg).any (fun p => glob p origin) then origin else []
  else []

def varyOrigin : Str := "Origin".toList
def varyPreflight : List Str :=
  ["Access-Control-Request-Method".toList, "Access-Control-Request-Headers".toList]

/-- one request through the middleware in front of a handler that answers 200 -/
def serve (cfg : Cfg) (req : Req) : Obs :=
  let origin := req.origins.headD []
  if origin = [] then
    if !req.preflight then ⟨200, true, none, false, [varyOrigin]⟩
    else ⟨204, false, none, false, [varyOrigin]⟩
  else
    let a := allowOrigin cfg origin
    if a = [] then
      if !req.preflight then ⟨401, false, none, false, [varyOrigin]⟩
      else ⟨204, false, none, false, [varyOrigin]⟩
    else if !req.preflight then ⟨200, true, some a, cfg.creds, [varyOrigin]⟩
    else ⟨204, false, some a, cfg.creds, varyOrigin :: varyPreflight⟩

/-! ## wire -/
open Wire

def encObs (o : Obs) : String :=
  render ([toString o.status, encBool o.ran] ++ encOpt (fun s => [encStr s]) o.acao ++
    [encBool o.acac] ++ encList (fun s => [encStr s]) o.vary)

/-- line: `creds unsafe n allow* preflight m originValue*`
    →  `status ran (0 | 1 acao) acac k vary*` -/
def runLine (line : String) : String :=
  match parseLine (do
      let creds ← bool
      let uw ← bool
      let allow ← list str
      let pre ← bool
      let ov ← list str
      pure (Cfg.mk allow creds uw, Req.mk pre ov)) line with
  | none => "bad-op"
  | some (cfg, req) => encObs (serve cfg req)

end C11
