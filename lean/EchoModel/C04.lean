import EchoModel.RouterWire
/-!
# C04 — the middleware onion (echo.go ServeHTTP / add / applyMiddleware, group.go)

A configuration is the result of a *registration program* (`Op`s executed by `exec`, which
mirrors `Echo.Pre/Use/Host/Group/Add` and `Group.Use/Group/Add`, including the snapshot of
the middleware list a route closes over and the two RouteNotFound catch-all routes that
`Group.Use` registers).  A request is served by *function composition* exactly like
`applyMiddleware`: middleware `i` is `fun next c => in i; r := next c; out i; r`.
Pre middleware may rewrite the request path before the router runs.
-/
namespace C04
open Router

abbrev Mw := Nat

inductive Ev where
  | enter (i : Mw)                 -- middleware i going in
  | leave (i : Mw) (err : Bool)    -- middleware i unwinding; did it see an error from below?
  | hnd (hid : Nat)                -- a user handler ran
  | rtr (code : Nat)               -- echo's own NotFound / MethodNotAllowed / OPTIONS handler ran
deriving DecidableEq, Repr, Inhabited

/-- request-scoped state threaded through the chain: the trace so far and the current path -/
structure Ctx where
  trace : List Ev
  path : Str
deriving Repr, Inhabited

abbrev Handler := Ctx → Ctx × Bool      -- returns the new state and whether an error was returned

/-- a Pre middleware may carry rewrite rules `from ↦ to` for the path, the method (like
    `middleware.MethodOverride`) and the Host -/
structure MwSpec where
  id : Mw
  rw : Option (Str × Str) := none
  rwM : Option (Str × Str) := none
  rwH : Option (Str × Str) := none
deriving Repr, Inhabited

/-- the path after middleware `m` applied its rewrite rule (if it has one) -/
def rwStep (m : MwSpec) (p : Str) : Str :=
  match m.rw with
  | some (a, b) => if p = a then b else p
  | none => p

/-- the instrumented middleware wrapper -/
def wrap (m : MwSpec) (next : Handler) : Handler := fun c =>
  let r := next ⟨c.trace ++ [.enter m.id], rwStep m c.path⟩
  (⟨r.1.trace ++ [.leave m.id r.2], r.1.path⟩, r.2)

/-- `applyMiddleware`: composes right to left, so the first registered is outermost -/
def applyMiddleware (h : Handler) (ms : List MwSpec) : Handler := ms.foldr wrap h

structure RouteRec where
  host : Str
  method : Str
  path : Str
  hid : Nat           -- 0 = echo.NotFoundHandler (the catch-all routes of Group.Use)
  fails : Bool        -- the handler returns an error
  mws : List Mw       -- middleware snapshot the route closed over
deriving Repr, Inhabited

structure Group where
  host : Str
  pfx : Str
  mws : List Mw
deriving Repr, Inhabited

structure Cfg where
  pre : List MwSpec := []
  use : List Mw := []
  hosts : List Str := []
  routes : List RouteRec := []
  groups : List Group := []
deriving Repr, Inhabited

inductive Op where
  | pre (m : MwSpec)
  | use (i : Mw)
  | host (name : Str) (mws : List Mw)
  | group (parent : Option Nat) (pfx : Str) (mws : List Mw)
  | groupUse (g : Nat) (mws : List Mw)
  | add (g : Option Nat) (method path : Str) (hid : Nat) (fails : Bool) (mws : List Mw)
deriving Repr, Inhabited

/-- `Echo.add` on the router selected by `findRouter(host)` -/
def addRoute (c : Cfg) (host method path : Str) (hid : Nat) (fails : Bool) (mws : List Mw) : Cfg :=
  let h := if c.hosts.contains host then host else []
  { c with routes := c.routes ++ [⟨h, method, normalizeSlash path, hid, fails, mws⟩] }

/-- `Group.Use`: extend the list; when it is non-empty register the two catch-all routes -/
def groupUse (c : Cfg) (gid : Nat) (ms : List Mw) : Cfg :=
  match c.groups[gid]? with
  | none => c
  | some g =>
    let g' := { g with mws := g.mws ++ ms }
    let c := { c with groups := c.groups.set gid g' }
    if g'.mws.isEmpty then c
    else
      let c := addRoute c g'.host routeNotFound g'.pfx 0 true g'.mws
      addRoute c g'.host routeNotFound (g'.pfx ++ "/*".toList) 0 true g'.mws

def exec (c : Cfg) : Op → Cfg
  | .pre m => { c with pre := c.pre ++ [m] }
  | .use i => { c with use := c.use ++ [i] }
  | .host name ms =>
    -- e.routers[name] = NewRouter(e): an existing router of that host is replaced
    let c := { c with hosts := if c.hosts.contains name then c.hosts else c.hosts ++ [name],
                      routes := c.routes.filter (·.host ≠ name),
                      groups := c.groups ++ [⟨name, [], []⟩] }
    groupUse c (c.groups.length - 1) ms
  | .group parent pfx ms =>
    match parent with
    | none =>
      let c := { c with groups := c.groups ++ [⟨[], pfx, []⟩] }
      groupUse c (c.groups.length - 1) ms
    | some p =>
      match c.groups[p]? with
      | none => c
      | some g =>
        let c := { c with groups := c.groups ++ [⟨g.host, g.pfx ++ pfx, []⟩] }
        groupUse c (c.groups.length - 1) (g.mws ++ ms)
  | .groupUse g ms => groupUse c g ms
  | .add g method path hid fails ms =>
    match g with
    | none => addRoute c [] method path hid fails ms
    | some gid =>
      match c.groups[gid]? with
      | none => c
      | some gr => addRoute c gr.host method (gr.pfx ++ path) hid fails (gr.mws ++ ms)

def run (ops : List Op) : Cfg := ops.foldl exec {}

/-- the table of a host: indices into `cfg.routes` serve as handler ids of the router -/
def tableOf (c : Cfg) (host : Str) : List Route :=
  (c.routes.zipIdx.filter (·.1.host = host)).map fun (r, i) => ⟨r.method, r.path, i⟩

/-- what the router selects for a request: the innermost event, whether it returns an
    error, and the route-level middleware snapshot around it -/
def selected (c : Cfg) (host method path : Str) : Ev × Bool × List Mw :=
  let h := if c.hosts.contains host then host else []
  let t := tableOf c h
  match find (build t) method path (List.replicate (maxParam t) []) with
  | .dispatch rm _ =>
    match c.routes[rm.hid]? with
    | some r => if r.hid = 0 then (.rtr 404, true, r.mws) else (.hnd r.hid, r.fails, r.mws)
    | none => (.rtr 500, true, [])
  | .notFound _ => (.rtr 404, true, [])
  | .methodNotAllowed _ _ =>
    if method = methodOptions then (.rtr 204, false, []) else (.rtr 405, true, [])
  | .panic => (.rtr 500, true, [])

def plain (ms : List Mw) : List MwSpec := ms.map fun i => ⟨i, none, none, none⟩

/-- the innermost handler: records its event and returns its result -/
def terminal (ev : Ev) (err : Bool) : Handler := fun x => (⟨x.trace ++ [ev], x.path⟩, err)

/-- routing happens when the chain reaches this point: it sees the path as rewritten so far -/
def routed (c : Cfg) (host method : Str) : Handler := fun ctx =>
  let (ev, err, ms) := selected c host method ctx.path
  applyMiddleware (terminal ev err) (plain ms) ctx

/-- `Echo.ServeHTTP`: Pre middleware around (routing, then Use middleware around the routed handler) -/
def serve (c : Cfg) (host method path : Str) : List Ev :=
  ((applyMiddleware (applyMiddleware (routed c host method) (plain c.use)) c.pre) ⟨[], path⟩).1.trace

/-- one rule `from ↦ to` applied to a request field -/
def rwField (rule : Option (Str × Str)) (x : Str) : Str :=
  match rule with
  | some (a, b) => if x = a then b else x
  | none => x

/-- the method / Host the router sees after the Pre chain: every Pre middleware rewrites the request
    when it is entered, before it calls `next`, and routing happens innermost -/
def methodAfterPre (ms : List MwSpec) (m : Str) : Str := ms.foldl (fun x mw => rwField mw.rwM x) m
def hostAfterPre (ms : List MwSpec) (h : Str) : Str := ms.foldl (fun x mw => rwField mw.rwH x) h

/-- `Echo.ServeHTTP` with Pre middleware that may also rewrite the method and the Host: host router and
    method are looked at *after* the Pre chain (`e.findRouter(r.Host).Find(r.Method, GetPath(r), c)` sits
    inside the handler the Pre chain wraps) -/
def serveRq (c : Cfg) (host method path : Str) : List Ev :=
  serve c (hostAfterPre c.pre host) (methodAfterPre c.pre method) path

/-! ## wire -/
open Wire

def pMws : P (List Mw) := list nat

def pOp : P Op := do
  let k ← nat
  match k with
  | 0 =>
    let i ← nat
    let rw ← opt (do let a ← str; let b ← str; pure (a, b))
    let rwM ← opt (do let a ← str; let b ← str; pure (a, b))
    let rwH ← opt (do let a ← str; let b ← str; pure (a, b))
    pure (.pre ⟨i, rw, rwM, rwH⟩)
  | 1 => do let i ← nat; pure (.use i)
  | 2 => do let n ← str; let ms ← pMws; pure (.host n ms)
  | 3 => do let p ← opt nat; let pf ← str; let ms ← pMws; pure (.group p pf ms)
  | 4 => do let g ← nat; let ms ← pMws; pure (.groupUse g ms)
  | 5 => do
    let g ← opt nat; let m ← str; let p ← str; let h ← nat; let f ← bool; let ms ← pMws
    pure (.add g m p h f ms)
  | _ => failure

def encEv : Ev → String
  | .enter i => s!"I{i}"
  | .leave i e => s!"O{i}e{if e then 1 else 0}"
  | .hnd h => s!"H{h}"
  | .rtr c => s!"R{c}"

/-- line: `nops op* host method path` → trace events -/
def runLine (line : String) : String :=
  match parseLine (do let ops ← list pOp; let h ← str; let m ← str; let p ← str; pure (ops, h, m, p)) line with
  | none => "bad-op"
  | some (ops, h, m, p) => render ((serveRq (run ops) h m p).map encEv)

end C04
