import EchoModel.Wire
import EchoModel.C08
/-!
# C09 — which fields struct binding may write, and in which order (bind.go)

Modelled: the field walk of `DefaultBinder.bindData` over an arbitrary destination shape
(`bindF` / `bindS`), the three non-struct destination classes (maps, everything else), and
`DefaultBinder.Bind` = path params, then query (GET / DELETE / HEAD only), then `BindBody`
(ContentLength == 0 ⇒ nothing; media type = text before the first `;`, trimmed; JSON / XML /
form / multipart; otherwise 415).

Leaf conversion is C08's `structElem` (no float leaves here, so no external parser).
NOT modelled (parameters supplied with each case by the harness, computed with the standard
library on the same request): what `encoding/json` / `encoding/xml` leave in the destination
(`json`, `xml` : state after decoding + success flag), the parsed urlencoded / multipart body
(`formBody`, `multipart`).  `Request.ParseForm` is modelled as documented: for POST, PUT and
PATCH the form data are the body pairs followed by the URL query pairs, otherwise the URL query.

Round 4: destinations implementing the multi-value interface `UnmarshalParams([]string)`
(`Shape.multi`: `unmarshalInputsToField` hands ALL values over before `inputValue[0]` is touched),
multipart file fields (`Shape.file`: `*multipart.FileHeader`, `[]*multipart.FileHeader`,
`[]multipart.FileHeader` are set from the uploaded files whose field name equals the `form` tag
EXACTLY — no case folding for files — and a plain `multipart.FileHeader` field with a `form` tag
is rejected as soon as the request carries any file), and `BindBody` called on its own.

`strings.EqualFold` is modelled for ASCII keys only (`foldEq`); the harness compares with the
model only requests whose keys are ASCII and in which no two keys are equal under folding
without an exact match (Go map iteration order would decide).
-/
namespace C09
open C08 (Elem SVal FVal structElem structElems zeroOf parseElem multiParse)

inductive Src where
  | param | query | form | header
deriving DecidableEq, Repr, Inhabited

structure Tags where
  param : List Char      -- [] = the field has no such tag
  query : List Char
  form : List Char
  header : List Char
deriving DecidableEq, Repr, Inhabited

def Tags.get (t : Tags) : Src → List Char
  | .param => t.param | .query => t.query | .form => t.form | .header => t.header

structure FMeta where
  tags : Tags
  anonymous : Bool      -- embedded field
  exported : Bool       -- reflect: CanSet()
deriving DecidableEq, Repr, Inhabited

/-- the four field types `isFieldMultipartFile` knows -/
inductive FileKind where
  | ptr          -- *multipart.FileHeader
  | ptrSlice     -- []*multipart.FileHeader
  | slice        -- []multipart.FileHeader
  | plain        -- multipart.FileHeader: "binding to multipart.FileHeader struct is not supported"
deriving DecidableEq, Repr, Inhabited

mutual
inductive Shape where
  | scalar (e : Elem)
  | ptr (e : Elem)             -- *T, T scalar
  | slice (e : Elem)           -- []T
  | other                      -- map / interface / func / array … field: setWithProperType says "unknown type"
  | unm                        -- struct type implementing BindUnmarshaler / TextUnmarshaler
  | multi                      -- struct type implementing bindMultipleUnmarshaler (`UnmarshalParams([]string)`) only
  | file (k : FileKind)        -- multipart.FileHeader in one of its four spellings
  | struct (fs : Fields)
  | ptrStruct (fs : Fields)    -- *struct
inductive Fields where
  | nil
  | cons (m : FMeta) (s : Shape) (rest : Fields)
end

inductive Val where
  | leaf (v : FVal)            -- scalar / pointer to scalar / slice / unmarshaler payload
  | struct (vs : List Val)     -- struct, or non-nil pointer to a struct
  | nilStruct                  -- nil pointer to a struct
  | other
deriving Repr, Inhabited

inductive Err where
  | bad          -- becomes HTTP 400
  | panic        -- inputValue[0] / v[0] on an empty value list (not producible by net/http)
deriving DecidableEq, Repr, Inhabited

mutual
def zeroS : Shape → Val
  | .scalar e => .leaf (.one (zeroOf e))
  | .ptr _ => .leaf .nil
  | .slice _ => .leaf .nil
  | .other => .other
  | .unm => .leaf (.one (.opq []))
  | .multi => .leaf (.many [])
  | .file .ptr => .leaf .nil
  | .file .ptrSlice => .leaf .nil
  | .file .slice => .leaf .nil
  | .file .plain => .leaf (.one (.opq []))
  | .struct fs => .struct (zeroF fs)
  | .ptrStruct _ => .nilStruct
def zeroF : Fields → List Val
  | .nil => []
  | .cons _ s rest => zeroS s :: zeroF rest
end

/-! ## request data -/

abbrev Data := List (List Char × List (List Char))

def lowerC (c : Char) : Char :=
  if 65 ≤ c.toNat ∧ c.toNat ≤ 90 then Char.ofNat (c.toNat + 32) else c

/-- `strings.EqualFold` on ASCII -/
def foldEq (a b : List Char) : Bool := a.map lowerC == b.map lowerC

/-- `data[tag]`, then the case-insensitive search over all keys -/
def lookup (data : Data) (tag : List Char) : Option (List (List Char)) :=
  match data.find? (fun kv => kv.1 == tag) with
  | some kv => some kv.2
  | none =>
    match data.find? (fun kv => foldEq kv.1 tag) with
    | some kv => some kv.2
    | none => none

def noExt : C08.Ext := fun _ _ => none

/-- the loop body of `bindData` after `exists`: unmarshalers, pointer allocation, slices,
    `setWithProperType` -/
def setField (sh : Shape) (v : Val) (values : List (List Char)) : Val × Option Err :=
  match values with
  | [] => (v, some .panic)
  | x0 :: _ =>
    match sh with
    | .scalar e =>
      match structElem noExt e x0 with
      | some y => (.leaf (.one y), none)
      | none => (v, some .bad)
    | .ptr e =>
      match structElem noExt e x0 with
      | some y => (.leaf (.one y), none)
      | none =>      -- unmarshalInputToField has already allocated a nil pointer
        ((match v with | .leaf .nil => .leaf (.one (zeroOf e)) | w => w), some .bad)
    | .slice e =>
      match structElems noExt e values with
      | some ys => (.leaf (.many ys), none)
      | none => (v, some .bad)
    | .unm =>
      match parseElem noExt .unm x0 with
      | some y => (.leaf (.one y), none)
      | none => (v, some .bad)
    | .multi => (v, some .bad)          -- not reached: `taggedStep` handles `.multi` before `inputValue[0]`
    | .file .ptr =>                     -- allocated by unmarshalInputsToField, then "unknown type" (struct)
      ((match v with | .leaf .nil => .leaf (.one (.opq [])) | w => w), some .bad)
    | .file _ => (v, some .bad)         -- slices: the temporary slice fails on its first element; plain: struct
    | .other => (v, some .bad)
    | .struct _ => (v, some .bad)
    | .ptrStruct fs =>   -- allocated, then "unknown type"
      ((match v with | .nilStruct => .struct (zeroF fs) | w => w), some .bad)

/-- `data[tag]` for the uploaded files: exact key only -/
def fileLookup (files : Data) (tag : List Char) : Option (List (List Char)) :=
  (files.find? (fun kv => kv.1 == tag)).map (·.2)

/-- `if hasFiles { isFieldMultipartFile …; setMultipartFileHeaderTypes … }`:
    `some r` = the iteration ends here with `r` (error, or field set and `continue`),
    `none` = fall through to the ordinary value lookup -/
def fileStep (files : Data) (tag : List Char) (sh : Shape) (v : Val) : Option (Val × Option Err) :=
  if files = [] then none
  else
    match sh with
    | .file .plain => some (v, some .bad)
    | .file k =>
      match fileLookup files tag with
      | some (f0 :: fs) =>
        match k with
        | .ptr => some (.leaf (.one (.opq f0)), none)
        | _ => some (.leaf (.many ((f0 :: fs).map .opq)), none)
      | _ => none
    | _ => none

/-- a settable field with a tag for this source -/
def taggedStep (src : Src) (data files : Data) (m : FMeta) (sh : Shape) (v : Val) : Val × Option Err :=
  match fileStep files (m.tags.get src) sh v with
  | some r => r
  | none =>
    match lookup data (m.tags.get src) with
    | none => (v, none)
    | some values =>
      match sh with
      | .multi =>      -- unmarshalInputsToField: all values, no `inputValue[0]`
        match multiParse values with
        | some ys => (.leaf (.many ys), none)
        | none => (v, some .bad)
      | _ => setField sh v values

mutual
/-- the field loop of `bindData` -/
def bindF (src : Src) (data files : Data) : Fields → List Val → List Val × Option Err
  | .nil, vs => (vs, none)
  | .cons _ _ _, [] => ([], none)
  | .cons m s rest, v :: vs =>
    match bindS src data files m s v with
    | (v', some e) => (v' :: vs, some e)
    | (v', none) =>
      let r := bindF src data files rest vs
      (v' :: r.1, r.2)
/-- one iteration -/
def bindS (src : Src) (data files : Data) (m : FMeta) : Shape → Val → Val × Option Err
  | .struct fs, .struct vs =>
    if m.exported = false then (.struct vs, none)
    else if m.anonymous = true ∧ m.tags.get src ≠ [] then (.struct vs, some .bad)
    else if m.tags.get src = [] then
      let r := bindF src data files fs vs
      (.struct r.1, r.2)
    else taggedStep src data files m (.struct fs) (.struct vs)
  | .ptrStruct fs, .struct vs =>
    if m.exported = false then (.struct vs, none)
    else if m.anonymous = true then
      -- structField = structField.Elem(): from here on the field IS the struct
      if m.tags.get src ≠ [] then (.struct vs, some .bad)
      else
        let r := bindF src data files fs vs
        (.struct r.1, r.2)
    else if m.tags.get src = [] then (.struct vs, none)
    else taggedStep src data files m (.ptrStruct fs) (.struct vs)
  | .ptrStruct fs, v =>
    if m.exported = false then (v, none)
    else if m.anonymous = true then (v, none)     -- Elem() of a nil pointer cannot be set: skipped
    else if m.tags.get src = [] then (v, none)
    else taggedStep src data files m (.ptrStruct fs) v
  | sh, v =>
    if m.exported = false then (v, none)
    else if m.tags.get src = [] then (v, none)
    else taggedStep src data files m sh v
end

/-! ## destinations -/

inductive MapKind where
  | str | iface | strs | unsupported
deriving DecidableEq, Repr, Inhabited

inductive Dest where
  | struct (fs : Fields)
  | map (k : MapKind)          -- map[string]T
  | nonStruct                  -- anything else

inductive DVal where
  | struct (vs : List Val)
  | map (isNil : Bool) (entries : Data)      -- entries sorted by key
  | opaque
deriving Repr, Inhabited

def leChars : List Char → List Char → Bool
  | [], _ => true
  | _ :: _, [] => false
  | a :: as, b :: bs => if a.toNat < b.toNat then true else if b.toNat < a.toNat then false else leChars as bs

/-- `SetMapIndex` on the sorted entry list -/
def mapInsert (k : List Char) (v : List (List Char)) : Data → Data
  | [] => [(k, v)]
  | (k', v') :: rest =>
    if k == k' then (k, v) :: rest
    else if leChars k k' then (k, v) :: (k', v') :: rest
    else (k', v') :: mapInsert k v rest

def mapBind (kind : MapKind) : Data → Data → Data × Option Err
  | [], acc => (acc, none)
  | (k, vs) :: rest, acc =>
    match kind, vs with
    | .strs, _ => mapBind kind rest (mapInsert k vs acc)
    | _, [] => (acc, some .panic)
    | _, v0 :: _ => mapBind kind rest (mapInsert k [v0] acc)

/-- `bindData` -/
def bindData (src : Src) (data files : Data) : Dest → DVal → DVal × Option Err
  | d, v =>
    if data = [] ∧ files = [] then (v, none)
    else
      match d, v with
      | .map .unsupported, v => (v, none)
      | .map k, .map _ entries =>
        let r := mapBind k data entries
        (.map false r.1, r.2)
      | .struct fs, .struct vs =>
        let r := bindF src data files fs vs
        (.struct r.1, r.2)
      | .nonStruct, v => if src = .form then (v, some .bad) else (v, none)
      | _, v => (v, none)

/-! ## Bind -/

structure BindReq where
  method : List Char
  params : Data
  query : Data
  hasBody : Bool                -- Request.ContentLength != 0
  ctype : List Char             -- Content-Type header
  json : DVal × Bool            -- destination after json decoding of the body, success
  xml : DVal × Bool
  formBody : Option Data        -- urlencoded body parsed (none = malformed)
  multipart : Option Data       -- multipart body values (none = malformed)
  files : Data                  -- multipart body files: field name ↦ file names
  queryOK : Bool                -- the URL query string parses without error (`query` holds the well-formed pairs)
deriving Inhabited

/-- how a request declares the length of its body: `Request.ContentLength` is `n ≥ 0`, or `-1` for
    a body of unknown length (streaming client, `Transfer-Encoding: chunked`) -/
inductive BodyLen where
  | known (n : Nat)
  | unknown
deriving DecidableEq, Repr, Inhabited

/-- the only thing `BindBody` takes from the declared length: `if req.ContentLength == 0 { return }`.
    The body itself is read to its end by the decoders / form parsers, whatever was declared. -/
def BodyLen.hasBody : BodyLen → Bool
  | .known 0 => false
  | _ => true

inductive Status where
  | ok | bad | unsupported | panic
deriving DecidableEq, Repr, Inhabited

def statusOf : Option Err → Status
  | none => .ok
  | some .bad => .bad
  | some .panic => .panic

def isSpace (c : Char) : Bool :=
  c = ' ' || c = '\t' || c = '\n' || c = '\r' || c.toNat = 11 || c.toNat = 12

def trimSpace (s : List Char) : List Char :=
  ((s.dropWhile isSpace).reverse.dropWhile isSpace).reverse

/-- `base, _, _ := strings.Cut(ct, ";"); strings.TrimSpace(base)` -/
def mediaType (ct : List Char) : List Char := trimSpace (ct.takeWhile (· ≠ ';'))

def mJSON : List Char := "application/json".toList
def mXML : List Char := "application/xml".toList
def mTextXML : List Char := "text/xml".toList
def mForm : List Char := "application/x-www-form-urlencoded".toList
def mMultipart : List Char := "multipart/form-data".toList

def queryMethods : List (List Char) := ["GET".toList, "DELETE".toList, "HEAD".toList]
def bodyFormMethods : List (List Char) := ["POST".toList, "PUT".toList, "PATCH".toList]

/-- `copyValues`: append the values of `src` to `dst`, key by key -/
def mergeData (dst : Data) : Data → Data
  | [] => dst
  | (k, vs) :: rest =>
    let dst' := if dst.any (fun kv => kv.1 == k)
      then dst.map (fun kv => if kv.1 == k then (kv.1, kv.2 ++ vs) else kv)
      else dst ++ [(k, vs)]
    mergeData dst' rest

def bindBody (d : Dest) (v : DVal) (r : BindReq) : DVal × Status :=
  if r.hasBody = false then (v, .ok)
  else
    let mt := mediaType r.ctype
    if mt = mJSON then (r.json.1, if r.json.2 then .ok else .bad)
    else if mt = mXML ∨ mt = mTextXML then (r.xml.1, if r.xml.2 then .ok else .bad)
    else if mt = mForm then
      -- `Request.ParseForm`: the body is read for POST, PUT and PATCH only; `Request.Form` then
      -- holds the body pairs followed by the URL query pairs, otherwise the URL query alone.
      -- A malformed pair in the URL query makes ParseForm (and ParseMultipartForm) report an
      -- error: 400 before anything is bound.  (`URL.Query()`, used by the query step, drops
      -- malformed pairs silently instead.)
      if r.queryOK = false then (v, .bad)
      else if bodyFormMethods.contains r.method then
        match r.formBody with
        | none => (v, .bad)
        | some body =>
          let res := bindData .form (mergeData body r.query) [] d v
          (res.1, statusOf res.2)
      else
        let res := bindData .form r.query [] d v
        (res.1, statusOf res.2)
    else if mt = mMultipart then
      if r.queryOK = false then (v, .bad) else
      match r.multipart with
      | none => (v, .bad)
      | some body =>
        let res := bindData .form body r.files d v
        (res.1, statusOf res.2)
    else (v, .unsupported)

def bind (d : Dest) (v : DVal) (r : BindReq) : DVal × Status :=
  let r1 := bindData .param r.params [] d v
  match r1.2 with
  | some e => (r1.1, statusOf (some e))
  | none =>
    if queryMethods.contains r.method then
      let r2 := bindData .query r.query [] d r1.1
      match r2.2 with
      | some e => (r2.1, statusOf (some e))
      | none => bindBody d r2.1 r
    else bindBody d r1.1 r

/-! ## wire -/
open Wire

def pTags : P Tags := do
  let a ← str; let b ← str; let c ← str; let d ← str
  pure ⟨a, b, c, d⟩

def pMeta : P FMeta := do
  let t ← pTags
  let a ← bool
  let e ← bool
  pure ⟨t, a, e⟩

mutual
/-- `fuel` bounds the nesting depth (the line length is always enough) -/
def pShape : Nat → P Shape
  | 0 => failure
  | fuel + 1 => do
    let k ← nat
    match k with
    | 0 => do let e ← C08.pElem .struct; pure (.scalar e)
    | 1 => do let e ← C08.pElem .struct; pure (.ptr e)
    | 2 => do let e ← C08.pElem .struct; pure (.slice e)
    | 3 => pure .other
    | 4 => pure .unm
    | 7 => pure .multi
    | 8 => do
      let k ← nat
      match k with
      | 0 => pure (.file .ptr) | 1 => pure (.file .ptrSlice) | 2 => pure (.file .slice) | 3 => pure (.file .plain)
      | _ => failure
    | 5 => do let n ← nat; let fs ← pFields fuel n; pure (.struct fs)
    | 6 => do let n ← nat; let fs ← pFields fuel n; pure (.ptrStruct fs)
    | _ => failure
def pFields : Nat → Nat → P Fields
  | 0, _ => failure
  | _ + 1, 0 => pure .nil
  | fuel + 1, n + 1 => do
    let m ← pMeta
    let s ← pShape fuel
    let rest ← pFields fuel n
    pure (.cons m s rest)
end

def pFVal : P FVal := do
  let k ← nat
  match k with
  | 0 => do let v ← C08.pSVal; pure (.one v)
  | 1 => pure .nil
  | 2 => do let vs ← list C08.pSVal; pure (.many vs)
  | 3 => pure .ptrNil
  | _ => failure

mutual
def pVal : Nat → P Val
  | 0 => failure
  | fuel + 1 => do
    let k ← nat
    match k with
    | 0 => do let v ← pFVal; pure (.leaf v)
    | 1 => do let n ← nat; let vs ← pVals fuel n; pure (.struct vs)
    | 2 => pure .nilStruct
    | 3 => pure .other
    | _ => failure
def pVals : Nat → Nat → P (List Val)
  | 0, _ => failure
  | _ + 1, 0 => pure []
  | fuel + 1, n + 1 => do
    let v ← pVal fuel
    let rest ← pVals fuel n
    pure (v :: rest)
end

mutual
def encVal : Val → List String
  | .leaf v => "0" :: C08.encFVal v
  | .struct vs => "1" :: toString (lenVals vs) :: encVals vs
  | .nilStruct => ["2"]
  | .other => ["3"]
def encVals : List Val → List String
  | [] => []
  | v :: vs => encVal v ++ encVals vs
def lenVals : List Val → Nat
  | [] => 0
  | _ :: vs => lenVals vs + 1
end

def pData : P Data := list (do let k ← str; let vs ← list str; pure (k, vs))

def encData (d : Data) : List String :=
  encList (fun kv => encStr kv.1 :: encList (fun s => [encStr s]) kv.2) d

def fuelOf : P Nat := fun s => some (s.length + 2, s)

def pDest : P Dest := do
  let f ← fuelOf
  let k ← nat
  match k with
  | 0 => do let n ← nat; let fs ← pFields f n; pure (.struct fs)
  | 1 => pure (.map .str)
  | 2 => pure (.map .iface)
  | 3 => pure (.map .strs)
  | 4 => pure (.map .unsupported)
  | 5 => pure .nonStruct
  | _ => failure

def pDVal : P DVal := do
  let f ← fuelOf
  let k ← nat
  match k with
  | 0 => do let n ← nat; let vs ← pVals f n; pure (.struct vs)
  | 1 => do let isNil ← bool; let d ← pData; pure (.map isNil d)
  | 2 => pure .opaque
  | _ => failure

def encDVal : DVal → List String
  | .struct vs => "0" :: toString (lenVals vs) :: encVals vs
  | .map isNil d => "1" :: encBool isNil :: encData d
  | .opaque => ["2"]

def pSrc : P Src := do
  let k ← nat
  match k with
  | 0 => pure .param | 1 => pure .query | 2 => pure .form | 3 => pure .header | _ => failure

def encErr : Option Err → String
  | none => "0" | some .bad => "400" | some .panic => "panic"

def encStatus : Status → String
  | .ok => "0" | .bad => "400" | .unsupported => "415" | .panic => "panic"

def pDecoded : P (DVal × Bool) := do
  let ok ← bool
  let v ← pDVal
  pure (v, ok)

def pReq : P BindReq := do
  let method ← str
  let params ← pData
  let query ← pData
  let hasBody ← bool
  let ctype ← str
  let json ← pDecoded
  let xml ← pDecoded
  let formBody ← opt pData
  let multipart ← opt pData
  let files ← pData
  let queryOK ← bool
  pure ⟨method, params, query, hasBody, ctype, json, xml, formBody, multipart, files, queryOK⟩

inductive Case where
  | single (src : Src) (data : Data)
  | bind (r : BindReq)
  | body (r : BindReq)       -- `BindBody` alone

def pCase : P (Dest × DVal × Case) := do
  let d ← pDest
  let v ← pDVal
  let k ← nat
  match k with
  | 0 => do let s ← pSrc; let data ← pData; pure (d, v, .single s data)
  | 1 => do let r ← pReq; pure (d, v, .bind r)
  | 2 => do let r ← pReq; pure (d, v, .body r)
  | _ => failure

/-- line: `dest value 0 src data` (one of BindPathParams / BindQueryParams / BindHeaders) or
    `dest value 1 request` (Bind) or `dest value 2 request` (BindBody)  →  `status value'` -/
def runLine (line : String) : String :=
  match parseLine pCase line with
  | none => "bad-op"
  | some (d, v, .single s data) =>
    let r := bindData s data [] d v
    render (encErr r.2 :: encDVal r.1)
  | some (d, v, .bind rq) =>
    let r := bind d v rq
    render (encStatus r.2 :: encDVal r.1)
  | some (d, v, .body rq) =>
    let r := bindBody d v rq
    render (encStatus r.2 :: encDVal r.1)

end C09
