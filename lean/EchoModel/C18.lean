import EchoModel.Wire
/-!
# C18 — rate limiter (middleware/rate_limiter.go + golang.org/x/time/rate v0.8.0)

Model of `RateLimiterMemoryStore.Allow`, `cleanupStaleVisitors`, the store defaults, the
`RateLimiterWithConfig` middleware and of the part of `rate.Limiter` the store uses
(`NewLimiter`, `AllowN(t, 1)` = `reserveN(t, 1, 0)`, `advance`, `tokensFromDuration`,
`durationFromTokens`).

## Numbers

Time is an integer number of nanoseconds (`time.Time` on a virtual clock).  The rate is the
rational `rateNum / rateDen` events per second.  `rate.Limiter` keeps `tokens : float64`;
the model keeps the **exact** value scaled by `scale = rateDen * 10^9`:

    tok = tokens * scale            (an integer, because every refill is rate * (whole ns))

* `tokensFromDuration(d) = d.Seconds() * rate`       ↦ `rateNum * d`        (scaled)
* `tokens -= 1`                                       ↦ `tok - scale`
* `durationFromTokens(-tokens) = Duration(1e9 * (-tokens) / rate)` — a float → int64
  conversion, i.e. **truncation toward zero** — is `0` exactly when `-tok < rateNum`
  (`1e9 * (-tok/scale) / (rateNum/rateDen) = -tok / rateNum`).  So a request is admitted
  while the bucket is up to (but excluding) `rate * 1ns` tokens *below* zero: this is the
  dependency's slack recorded as finding F11.
* `rate <= 0`: `tokensFromDuration = 0`, `durationFromTokens = InfDuration` (never admitted
  on a deficit) — `rateNum = 0` gives exactly that.  `rate.Inf` is not modelled
  (assumption: the configured rate is finite).

The float64 arithmetic of the dependency is modelled as exact.  The correspondence run
compares decision by decision on parameters for which float64 arithmetic *is* exact (rates
`k/2^j`, instants multiples of 2^-9 s); on arbitrary parameters only the model-free window
oracle is used.

## Clock

`Allow` reads the clock once under the mutex (`now`), once per visitor and once more inside
`cleanupStaleVisitors`, and once for `AllowN`.  `allow2` takes the readings of the locked part (`now`) and the `AllowN` reading (`tb`)
separately; `allow` is the case where all readings of one call return the same instant (the
injected clock of the harness is advanced between calls only).  Event kind `directAt tb` is a
call whose goroutine was held between reading the clock for `AllowN` and calling it, so that
its reading `tb` is older than readings already seen by the limiter (finding F19).  Calls are
atomic steps in the model: the harness only uses `directAt` in cases without sweeps, where the
position of the locked part is unobservable, and lists the calls in the order of their
`AllowN` steps.
-/
namespace C18

def nsPerSec : Nat := 1000000000

/-- `RateLimiterMemoryStoreConfig` (rate as a fraction, ExpiresIn in ns) -/
structure RawCfg where
  rateNum : Nat
  rateDen : Nat
  burst : Nat
  expiresIn : Nat
deriving Repr, Inhabited

/-- the fields of `RateLimiterMemoryStore` after `NewRateLimiterMemoryStoreWithConfig` -/
structure Cfg where
  rateNum : Nat
  rateDen : Nat
  burst : Nat
  expiresIn : Nat
deriving Repr, Inhabited

/-- `DefaultRateLimiterMemoryStoreConfig.ExpiresIn` = 3 minutes -/
def defaultExpires : Nat := 180 * nsPerSec

/-- `NewRateLimiterMemoryStoreWithConfig`: `ExpiresIn == 0` ↦ 3 min, `Burst == 0` ↦ `int(Rate)` -/
def mkCfg (r : RawCfg) : Cfg :=
  { rateNum := r.rateNum
    rateDen := r.rateDen
    burst := if r.burst = 0 then r.rateNum / r.rateDen else r.burst
    expiresIn := if r.expiresIn = 0 then defaultExpires else r.expiresIn }

/-- one token, scaled -/
def Cfg.scale (c : Cfg) : Nat := c.rateDen * nsPerSec

/-- a full bucket (`float64(burst)`), scaled -/
def Cfg.full (c : Cfg) : Int := ((c.burst * c.scale : Nat) : Int)

/-- `rate.Limiter` state: `tokens` (scaled) and `last` -/
structure Bucket where
  tok : Int
  last : Nat
deriving DecidableEq, Repr, Inhabited

/-- `rate.NewLimiter(r, b)`: `tokens = b`, `last` = zero time (before every instant) -/
def fresh (c : Cfg) : Bucket := ⟨c.full, 0⟩

/-- `Limiter.advance`: the level at `t` (state not changed).  `t - b.last` is truncated
    subtraction: `if t.Before(last) { last = t }`. -/
def advance (c : Cfg) (b : Bucket) (t : Nat) : Int :=
  let tokens := b.tok + ((c.rateNum * (t - b.last) : Nat) : Int)
  if tokens > c.full then c.full else tokens

/-- `Limiter.AllowN(t, 1)` = `reserveN(t, 1, 0).ok`; the state is updated only when ok -/
def allowN (c : Cfg) (b : Bucket) (t : Nat) : Bucket × Bool :=
  let tokens := advance c b t - (c.scale : Int)
  -- waitDuration <= 0  ⇔  tokens >= 0  or  trunc(-tokens/rateNum) = 0
  let noWait := decide (0 ≤ tokens) || decide (-tokens < (c.rateNum : Int))
  let ok := decide (1 ≤ c.burst) && noWait
  if ok then (⟨tokens, t⟩, true) else (b, false)

/-- `Visitor`: the limiter and `lastSeen` -/
structure Visitor where
  b : Bucket
  lastSeen : Nat
deriving DecidableEq, Repr, Inhabited

/-- `RateLimiterMemoryStore`: the visitors map and `lastCleanup` -/
structure Store (α : Type) where
  visitors : α → Option Visitor
  lastCleanup : Nat

/-- a store constructed at instant `t0` -/
def Store.init {α : Type} (t0 : Nat) : Store α := ⟨fun _ => none, t0⟩

/-- `cleanupStaleVisitors` (map part): drop visitors with `now - lastSeen > expiresIn` -/
def cleanup {α : Type} (c : Cfg) (vis : α → Option Visitor) (now : Nat) : α → Option Visitor :=
  fun i => match vis i with
    | some v => if now - v.lastSeen > c.expiresIn then none else some v
    | none => none

/-- the visitor `Allow` works on: the existing one or a new one with a fresh limiter -/
def lookupOrNew (c : Cfg) (o : Option Visitor) : Visitor :=
  match o with
  | some v => v
  | none => ⟨fresh c, 0⟩

/-- replace the limiter state of a map entry (the limiter is shared by pointer) -/
def setBucket (o : Option Visitor) (b : Bucket) : Option Visitor :=
  match o with
  | some v => some { v with b := b }
  | none => none

/-- `RateLimiterMemoryStore.Allow(id)`: `now` is what the clock returns under the mutex (all
    readings of the locked part), `tb` what it returns for `limiter.AllowN(store.timeNow(), 1)`
    after `Unlock` -/
def allow2 {α : Type} [DecidableEq α] (c : Cfg) (st : Store α) (id : α) (now tb : Nat) : Store α × Bool :=
  -- under the mutex: lookup or create, lastSeen := now, maybe sweep
  let v1 : Visitor := { lookupOrNew c (st.visitors id) with lastSeen := now }
  let vis1 : α → Option Visitor := fun i => if i = id then some v1 else st.visitors i
  let sweep := decide (now - st.lastCleanup > c.expiresIn)
  let vis2 := if sweep then cleanup c vis1 now else vis1
  let lc := if sweep then now else st.lastCleanup
  -- after Unlock: limiter.AllowN(tb, 1) on the limiter obtained above
  let r := allowN c v1.b tb
  let vis3 : α → Option Visitor := fun i => if i = id then setBucket (vis2 id) r.1 else vis2 i
  (⟨vis3, lc⟩, r.2)

/-- `Allow(id)` when every clock reading of the call returns the same instant -/
def allow {α : Type} [DecidableEq α] (c : Cfg) (st : Store α) (id : α) (now : Nat) : Store α × Bool :=
  allow2 c st id now now

/-- how a request reaches the store -/
inductive Kind where
  | direct    -- `store.Allow(id)` called directly
  | http      -- through `RateLimiterWithConfig`, the extractor returns `id`
  | httpErr   -- through the middleware, the IdentifierExtractor returns an error
  | httpSkip  -- through the middleware, the Skipper returns true
  | directAt (tb : Nat)  -- `store.Allow(id)` whose `AllowN` clock reading is `tb` (goroutine held
                         -- between reading the clock and `AllowN`; finding F19)
deriving DecidableEq, Repr, Inhabited

structure Ev (α : Type) where
  t : Nat
  kind : Kind
  id : α
deriving Repr

/-- observation of one event: `ran` = `Allow` returned true (direct) / the handler ran
    (http); `status` = response status (0 for direct calls) -/
structure Out where
  ran : Bool
  status : Nat
deriving DecidableEq, Repr, Inhabited

/-- the middleware closure of `RateLimiterWithConfig` with the default Error/Deny handlers
    and a handler answering 200 -/
def step {α : Type} [DecidableEq α] (c : Cfg) (st : Store α) (e : Ev α) : Store α × Out :=
  match e.kind with
  | .httpSkip => (st, ⟨true, 200⟩)          -- Skipper: next(c), store untouched
  | .httpErr => (st, ⟨false, 403⟩)          -- ErrExtractorError, store untouched, next not called
  | .http =>
    let r := allow c st e.id e.t
    if r.2 then (r.1, ⟨true, 200⟩) else (r.1, ⟨false, 429⟩)
  | .direct =>
    let r := allow c st e.id e.t
    (r.1, ⟨r.2, 0⟩)
  | .directAt tb =>
    let r := allow2 c st e.id e.t tb
    (r.1, ⟨r.2, 0⟩)

def run {α : Type} [DecidableEq α] (c : Cfg) : Store α → List (Ev α) → List Out
  | _, [] => []
  | st, e :: es => let r := step c st e; r.2 :: run c r.1 es

/-! ## several stores, several limiter instances on one request path (round 4)

`RateLimiterWithConfig` can be registered more than once on the way to a handler — `e.Use`, a
group, the route itself — each instance with its own store (a coarse limiter for a whole API and
a strict one for a single route) or two instances sharing one store.  The stores of the process
are numbered; `cs k` is the configuration of store `k`, `sts k` its state.  A request passes the
instances of its route's *chain* in registration order (outermost first): every instance that
is reached calls `BeforeFunc` (when configured), extracts the identifier and consults ITS store;
the first refusal answers 429 and nothing behind it is reached. -/

/-- observation of one request behind a chain: handler ran, status, number of `BeforeFunc` calls -/
structure Out3 where
  ran : Bool
  status : Nat
  before : Nat
deriving DecidableEq, Repr, Inhabited

/-- replace the state of store `k` -/
def setStore {α : Type} (sts : Nat → Store α) (k : Nat) (st : Store α) : Nat → Store α :=
  fun j => if j = k then st else sts j

/-- the instances of `chain` in order on a request that is neither skipped nor fails in the
    extractor: new store states, whether the handler is reached, how many instances were reached,
    and the log of `(store, decision)` pairs -/
def chainAllow {α : Type} [DecidableEq α] (cs : Nat → Cfg) :
    (Nat → Store α) → List Nat → α → Nat → (Nat → Store α) × Bool × List (Nat × Bool)
  | sts, [], _, _ => (sts, true, [])
  | sts, k :: ks, id, t =>
    let r := allow (cs k) (sts k) id t
    if r.2 then
      let rest := chainAllow cs (setStore sts k r.1) ks id t
      (rest.1, rest.2.1, (k, true) :: rest.2.2)
    else (setStore sts k r.1, false, [(k, false)])

/-- a request with its route's chain (`direct`: the chain is the single store called) -/
structure EvC (α : Type) where
  t : Nat
  kind : Kind
  id : α
  chain : List Nat
deriving Repr

/-- one request / direct call in a process with several stores; `beforeOn` = the instances are
    configured with a `BeforeFunc` -/
def stepC {α : Type} [DecidableEq α] (cs : Nat → Cfg) (beforeOn : Bool) (sts : Nat → Store α) (e : EvC α) :
    (Nat → Store α) × Out3 :=
  match e.kind with
  | .httpSkip => (sts, ⟨true, 200, 0⟩)     -- every instance's Skipper says skip
  | .httpErr =>
    -- the outermost instance calls BeforeFunc, then its extractor fails: 403
    match e.chain with
    | [] => (sts, ⟨true, 200, 0⟩)
    | _ :: _ => (sts, ⟨false, 403, if beforeOn then 1 else 0⟩)
  | .http =>
    let r := chainAllow cs sts e.chain e.id e.t
    (r.1, ⟨r.2.1, if r.2.1 then 200 else 429, if beforeOn then r.2.2.length else 0⟩)
  | .direct =>
    match e.chain with
    | k :: _ => let r := allow (cs k) (sts k) e.id e.t; (setStore sts k r.1, ⟨r.2, 0, 0⟩)
    | [] => (sts, ⟨false, 0, 0⟩)
  | .directAt tb =>
    match e.chain with
    | k :: _ => let r := allow2 (cs k) (sts k) e.id e.t tb; (setStore sts k r.1, ⟨r.2, 0, 0⟩)
    | [] => (sts, ⟨false, 0, 0⟩)

def runC {α : Type} [DecidableEq α] (cs : Nat → Cfg) (beforeOn : Bool) :
    (Nat → Store α) → List (EvC α) → List Out3
  | _, [] => []
  | sts, e :: es => let r := stepC cs beforeOn sts e; r.2 :: runC cs beforeOn r.1 es

/-! ## `Allow` split at the `Unlock` (round 8)

`Allow` is not one atomic step: the locked part (lookup or creation, `lastSeen`, maybe the sweep)
ends with `Unlock`, and the goroutine then goes on ALONE with the `*Visitor` it obtained — reading
the clock and calling `AllowN` on it — while other goroutines run their own locked parts, sweeps
included.  The limiter is held by pointer: a sweep that removes the map entry does not touch the
limiter object a goroutine still holds (it keeps working on an orphan), and the identifier's next
locked part creates a NEW limiter.  So the split model needs a heap:

* `heap a` — the limiter object at address `a` (never freed), `next` — the next free address;
* `visitors id = some ⟨a, lastSeen⟩` — the map entry points at limiter `a`;
* `lockStep` — the locked part; returns the address the goroutine goes on with;
* `tailStep a tb` — the unlocked tail `limiter.AllowN(tb, 1)` on the limiter at `a`;
* a schedule is a list of `SStep`s: `lock call id now` / `tail call tb` (`call` names the goroutine).

`C18Split.lean` proves that `lockStep` immediately followed by `tailStep` IS `allow2` (so every
theorem about `run` is a theorem about the schedules in which no two calls overlap), and what
holds under every interleaving. -/

/-- a map entry: the address of the limiter and `lastSeen` -/
structure Entry where
  addr : Nat
  lastSeen : Nat
deriving DecidableEq, Repr, Inhabited

/-- `RateLimiterMemoryStore` with limiters held by pointer -/
structure SStore (α : Type) where
  heap : Nat → Bucket
  next : Nat
  visitors : α → Option Entry
  lastCleanup : Nat

def SStore.init {α : Type} (t0 : Nat) : SStore α := ⟨fun _ => ⟨0, 0⟩, 0, fun _ => none, t0⟩

/-- `cleanupStaleVisitors` on entries -/
def cleanupS {α : Type} (c : Cfg) (vis : α → Option Entry) (now : Nat) : α → Option Entry :=
  fun i => match vis i with
    | some e => if now - e.lastSeen > c.expiresIn then none else some e
    | none => none

/-- the locked part of `Allow(id)` at clock reading `now`: the new store and the address of the
    limiter the goroutine leaves the critical section with -/
def lockStep {α : Type} [DecidableEq α] (c : Cfg) (st : SStore α) (id : α) (now : Nat) : SStore α × Nat :=
  let a : Nat := match st.visitors id with
    | some e => e.addr
    | none => st.next
  let heap1 : Nat → Bucket := match st.visitors id with
    | some _ => st.heap
    | none => fun x => if x = st.next then fresh c else st.heap x
  let next1 : Nat := match st.visitors id with
    | some _ => st.next
    | none => st.next + 1
  let vis1 : α → Option Entry := fun i => if i = id then some ⟨a, now⟩ else st.visitors i
  let sweep := decide (now - st.lastCleanup > c.expiresIn)
  (⟨heap1, next1, if sweep then cleanupS c vis1 now else vis1, if sweep then now else st.lastCleanup⟩, a)

/-- the unlocked tail of `Allow`: `AllowN(tb, 1)` on the limiter at address `a` -/
def tailStep {α : Type} (c : Cfg) (st : SStore α) (a tb : Nat) : SStore α × Bool :=
  let r := allowN c (st.heap a) tb
  ({ st with heap := fun x => if x = a then r.1 else st.heap x }, r.2)

/-- one step of a schedule -/
inductive SStep (α : Type) where
  | lock (call : Nat) (id : α) (now : Nat)
  | tail (call : Nat) (tb : Nat)
deriving Repr

/-- the store and, per goroutine (`call`), the limiter address it holds -/
structure SState (α : Type) where
  st : SStore α
  held : Nat → Option Nat

def SState.init {α : Type} (t0 : Nat) : SState α := ⟨SStore.init t0, fun _ => none⟩

/-- one schedule step; a `tail` yields the call's decision (`false` for a tail without a locked
    part before it: never produced by the harness) -/
def sstep {α : Type} [DecidableEq α] (c : Cfg) (s : SState α) : SStep α → SState α × Option Bool
  | .lock k id now =>
    let r := lockStep c s.st id now
    (⟨r.1, fun j => if j = k then some r.2 else s.held j⟩, none)
  | .tail k tb =>
    match s.held k with
    | some a => let r := tailStep c s.st a tb; (⟨r.1, s.held⟩, some r.2)
    | none => (s, some false)

/-- the state after a schedule -/
def finalS {α : Type} [DecidableEq α] (c : Cfg) : SState α → List (SStep α) → SState α
  | s, [] => s
  | s, x :: xs => finalS c (sstep c s x).1 xs

/-- the decisions of a schedule, one per `tail` step, in schedule order -/
def runS {α : Type} [DecidableEq α] (c : Cfg) : SState α → List (SStep α) → List Bool
  | _, [] => []
  | s, x :: xs =>
    let r := sstep c s x
    match r.2 with
    | some b => b :: runS c r.1 xs
    | none => runS c r.1 xs

/-! ## wire -/
open Wire

def pSStep : P (SStep (List Nat)) := do
  let n ← nat
  match n with
  | 0 => do let k ← nat; let id ← bytes; let now ← nat; pure (SStep.lock k id now)
  | 1 => do let k ← nat; let tb ← nat; pure (SStep.tail k tb)
  | _ => failure

def pEvC : P (EvC (List Nat)) := do
  let t ← nat
  let n ← nat
  let id ← bytes
  let k ← match n with
    | 0 => pure Kind.direct
    | 1 => pure Kind.http
    | 2 => pure Kind.httpErr
    | 3 => pure Kind.httpSkip
    | 4 => do let tb ← nat; pure (Kind.directAt tb)
    | _ => failure
  let chain ← list nat
  pure ⟨t, k, id, chain⟩

def pRaw : P RawCfg := do
  let n ← nat; let d ← nat; let b ← nat; let x ← nat
  pure ⟨n, d, b, x⟩

def encOut3 (o : Out3) : List String := [encBool o.ran, toString o.status, toString o.before]

/-- line (atomic calls): `nStores (rateNum rateDen burst expiresIn)* t0 beforeOn n (t kind id [tb] nChain store*)*`
    → `n (ran status before)*` (`tb` only for kind 4; `burst`/`expiresIn` as configured, 0 =
    default; `t0` = construction instant of every store) -/
def runLine (line : String) : String :=
  -- split schedules: `S rateNum rateDen burst expiresIn t0 n (0 call id now | 1 call tb)*` → `m ok*`
  match parseLine (do
      let t ← tok
      if t != "S" then failure
      let rc ← pRaw
      let t0 ← nat
      let ss ← list pSStep
      pure (rc, t0, ss)) line with
  | some (rc, t0, ss) =>
    if rc.rateDen = 0 then "bad-op"
    else render (encList (fun b => [encBool b]) (runS (mkCfg rc) (SState.init t0) ss))
  | none =>
  match parseLine (do
      let rcs ← list pRaw
      let t0 ← nat
      let bf ← bool
      let es ← list pEvC
      pure (rcs, t0, bf, es)) line with
  | none => "bad-op"
  | some (rcs, t0, bf, es) =>
    if rcs.any (fun rc => rc.rateDen = 0) then "bad-op"
    else
      let cfgs := rcs.map mkCfg
      let cs : Nat → Cfg := fun k => cfgs.getD k default
      render (encList encOut3 (runC cs bf (fun _ => Store.init t0) es))

end C18
