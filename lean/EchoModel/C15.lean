import EchoModel.Wire
/-!
# C15 — Gzip / Decompress are transparent

Model of `middleware/compress.go` (`GzipWithConfig`, `gzipResponseWriter`), the parts of
`response.go` / `context.go` the handler reaches it through (`Response.WriteHeader/Write/Flush`,
`Context.Stream` = `io.Copy`), and `middleware/decompress.go` — AFTER the repairs of

* F7  `gzipResponseWriter.Write` reports `len(b)` on the write that crosses `MinLength`
      (it used to report the length of everything buffered so far),
* F8  a `Flush` that forces compression marks the body as started, so the deferred finaliser
      closes the gzip stream instead of abandoning it,
* F20 the same `Flush` drops a `Content-Length` set by the handler (only `WriteHeader` did),
* F5  (property C06) `Response.Flush` commits the response first, exactly like `Response.Write`.

Round 4 adds what surrounds the state machine: the constructors (`Gzip()`, `GzipWithConfig` with
its "Defaults" block: `Level` 0 → -1, negative `MinLength` → 0), the `Skipper`, a compression
level `gzip.NewWriterLevel` rejects (the pool then hands out an error: 500, handler not run), a
handler that sets `Content-Encoding: gzip` itself, and a handler that RETURNS AN ERROR — the
error handler then writes its response after the middleware has unwound (`ReqX`, `serveX`).

What is abstract

* `compress/gzip`: a `gzip.Writer` is the accumulator `Gz`; what it puts on the wire are the
  tagged items `gzHeader, gzData d, gzSync, gzTrailer` (header on the first Write/Flush/Close,
  all pending data at Flush/Close).  When real deflate output leaves the compressor is not
  modelled; every observation decodes the wire first, and at the observed instants (a `Flush`,
  the end) the real writer has emitted exactly what the model has.
* the underlying `http.ResponseWriter` is `Raw`: net/http's rule "first WriteHeader wins, a
  Write or Flush before it implies 200", header map snapshotted at that moment.  The harness
  uses a recording writer with the same rule.
* `sync.Pool`: a request receives an ARBITRARY left-over writer and buffer (`Pool`).
* `http.DetectContentType` / `Content-Type` are not modelled (not part of the property).
-/
namespace C15

abbrev Bytes := List Nat

/-! ## the wire -/

inductive Item where
  | raw (b : Bytes)        -- bytes written to the connection as they are
  | gzHeader               -- the 10-byte gzip member header
  | gzData (b : Bytes)     -- deflate blocks carrying `b`
  | gzSync                 -- sync-flush marker
  | gzTrailer              -- final block + CRC32 + ISIZE
deriving DecidableEq, Repr, Inhabited

/-- the headers the property talks about -/
structure Hdr where
  ce : Bool := false            -- Content-Encoding: gzip
  cl : Option Nat := none       -- Content-Length
  vary : Bool := false          -- Vary: Accept-Encoding
deriving DecidableEq, Repr, Inhabited

/-- the underlying response writer -/
structure Raw where
  hdr : Hdr := {}               -- live header map
  committed : Bool := false
  status : Nat := 200
  sent : Hdr := {}              -- header map as it went out
  body : List Item := []
  snaps : List (List Item) := []  -- the body as it was at each Flush
deriving DecidableEq, Repr, Inhabited

def Raw.writeHeader (r : Raw) (code : Nat) : Raw :=
  if r.committed then r else { r with committed := true, status := code, sent := r.hdr }

def Raw.write (r : Raw) (it : Item) : Raw :=
  let r := r.writeHeader 200
  { r with body := r.body ++ [it] }

def Raw.flush (r : Raw) : Raw :=
  let r := r.writeHeader 200
  { r with snaps := r.snaps ++ [r.body] }

/-! ## gzip.Writer -/

structure Gz where
  toRaw : Bool := false         -- target: the response writer (true) or io.Discard (false)
  wroteHeader : Bool := false
  closed : Bool := false
  pending : Bytes := []         -- written but not yet flushed out of the compressor
deriving DecidableEq, Repr, Inhabited

/-- `w.Reset(target)` -/
def Gz.reset (_ : Gz) (toRaw : Bool) : Gz := { toRaw := toRaw }

def emit (g : Gz) (r : Raw) (its : List Item) : Raw :=
  if g.toRaw then its.foldl Raw.write r else r

def gzHeaderIfNeeded (g : Gz) (r : Raw) : Gz × Raw :=
  if g.wroteHeader then (g, r) else ({ g with wroteHeader := true }, emit g r [.gzHeader])

/-- `w.Write(b)`: header on first use, data into the compressor, reports `len(b)` -/
def gzWrite (g : Gz) (r : Raw) (b : Bytes) : Gz × Raw × Nat :=
  let (g, r) := gzHeaderIfNeeded g r
  ({ g with pending := g.pending ++ b }, r, b.length)

/-- `w.Flush()` -/
def gzFlush (g : Gz) (r : Raw) : Gz × Raw :=
  if g.closed then (g, r) else
  let (g, r) := gzHeaderIfNeeded g r
  ({ g with pending := [] }, emit g r [.gzData g.pending, .gzSync])

/-- `w.Close()` -/
def gzClose (g : Gz) (r : Raw) : Gz × Raw :=
  if g.closed then (g, r) else
  let (g, r) := gzHeaderIfNeeded g r
  ({ g with pending := [], closed := true }, emit g r [.gzData g.pending, .gzTrailer])

/-! ## gzipResponseWriter -/

structure Grw where
  wroteHeader : Bool := false
  wroteBody : Bool := false
  minLength : Nat := 0
  exceeded : Bool := false      -- minLengthExceeded
  buffer : Bytes := []
  code : Nat := 0
deriving DecidableEq, Repr, Inhabited

/-- everything one request touches -/
structure St where
  raw : Raw := {}
  gz : Gz := {}
  grw : Option Grw := none      -- `some` while `res.Writer` is the gzipResponseWriter
  committed : Bool := false     -- echo.Response.Committed
  status : Nat := 200           -- echo.Response.Status (200 after reset)
deriving DecidableEq, Repr, Inhabited

/-- `gzipResponseWriter.WriteHeader` -/
def grwWriteHeader (s : St) (w : Grw) (code : Nat) : St :=
  { s with raw := { s.raw with hdr := { s.raw.hdr with cl := none } },
           grw := some { w with wroteHeader := true, code := code } }

/-- the switch to compression: set Content-Encoding, send the delayed header, hand the
    buffered bytes to the gzip writer -/
def startGzip (s : St) (w : Grw) : St × Grw :=
  let raw := { s.raw with hdr := { s.raw.hdr with ce := true } }
  let raw := if w.wroteHeader then raw.writeHeader w.code else raw
  let (gz, raw, _) := gzWrite s.gz raw w.buffer
  ({ s with raw := raw, gz := gz }, { w with exceeded := true })

/-- `gzipResponseWriter.Write` (F7 repaired: the count is `len(b)`) -/
def grwWrite (s : St) (w : Grw) (b : Bytes) : St × Nat :=
  let w := { w with wroteBody := true }
  if !w.exceeded then
    let w := { w with buffer := w.buffer ++ b }
    if w.buffer.length ≥ w.minLength then
      let (s, w) := startGzip s w
      ({ s with grw := some w }, b.length)
    else ({ s with grw := some w }, b.length)
  else
    let (gz, raw, n) := gzWrite s.gz s.raw b
    ({ s with raw := raw, gz := gz, grw := some w }, n)

/-- `gzipResponseWriter.Flush` (F8, F20 repaired) -/
def grwFlush (s : St) (w : Grw) : St :=
  let (s, w) :=
    if !w.exceeded then
      let w := { w with wroteBody := true }                                     -- F8
      let s := { s with raw := { s.raw with hdr := { s.raw.hdr with cl := none } } }  -- F20
      startGzip s w
    else (s, w)
  let (gz, raw) := gzFlush s.gz s.raw
  { s with raw := raw.flush, gz := gz, grw := some w }

/-! ## echo.Response (what the handler calls) -/

def writerWriteHeader (s : St) (code : Nat) : St :=
  match s.grw with
  | some w => grwWriteHeader s w code
  | none => { s with raw := s.raw.writeHeader code }

/-- `Response.WriteHeader` -/
def respWriteHeader (s : St) (code : Nat) : St :=
  if s.committed then s else
  let s := { s with status := code }
  let s := writerWriteHeader s code
  { s with committed := true }

/-- `Response.Write` -/
def respWrite (s : St) (b : Bytes) : St × Nat :=
  let s := if s.committed then s else respWriteHeader s (if s.status == 0 then 200 else s.status)
  match s.grw with
  | some w => grwWrite s w b
  | none => ({ s with raw := s.raw.write (.raw b) }, b.length)

/-- the flush proper, once `Response.Flush` has made sure the header call happened -/
def writerFlush (s : St) : St :=
  match s.grw with
  | some w => grwFlush s w
  | none => { s with raw := s.raw.flush }

/-- `Response.Flush`: commits first, like `Response.Write` (finding F5 of C06, repaired) -/
def respFlush (s : St) : St :=
  let s := if s.committed then s else respWriteHeader s (if s.status == 0 then 200 else s.status)
  writerFlush s

/-! ## handler programs -/

inductive Op where
  | setLen (n : Nat)                              -- c.Response().Header().Set("Content-Length", n)
  | writeHeader (code : Nat)                      -- c.Response().WriteHeader(code)
  | write (b : Bytes)                             -- c.Response().Write(b)
  | flush                                         -- c.Response().Flush()
  | stream (code : Nat) (chunks : List Bytes) (fails : Bool)
      -- c.Stream(code, ct, reader yielding these chunks); `fails`: behind the last chunk the reader reports an
      -- error other than io.EOF (alone, or together with its last bytes)
  | streamWT (code : Nat) (data : Bytes)          -- c.Stream(code, ct, strings.NewReader(data))
deriving DecidableEq, Repr, Inhabited

/-- what the handler gets back from one op -/
inductive Ret where
  | none
  | wrote (n : Nat)                                -- return value of Write
  | streamed (rets : List Nat) (result : Nat)      -- Write counts inside io.Copy; 0 ok, 1 error, 2 panic
deriving DecidableEq, Repr, Inhabited

/-- `io.Copy(response, reader)` for a reader that is not a `WriterTo`: one `Write` per chunk,
    stop at the first count that is not the chunk's length.  How the reader hands the chunks out does
    not matter to `io.Copy` (and so is not part of the model's program): bytes that come TOGETHER with
    `io.EOF` or with an error are written before the error is looked at, a `Read` that returns
    `(0, nil)` is simply repeated, a chunk larger than the 32 KiB copy buffer arrives in several
    `Read`s and leaves in as many `Write`s (the counts of one chunk are added up by the harness). -/
def copyChunks (s : St) : List Bytes → St × List Nat × Nat
  | [] => (s, [], 0)
  | c :: cs =>
    let (s, n) := respWrite s c
    if n != c.length then (s, [n], 1)
    else
      let (s, ns, res) := copyChunks s cs
      (s, n :: ns, res)

def step (s : St) : Op → St × Ret
  | .setLen n => ({ s with raw := { s.raw with hdr := { s.raw.hdr with cl := some n } } }, .none)
  | .writeHeader code => (respWriteHeader s code, .none)
  | .write b => let (s, n) := respWrite s b; (s, .wrote n)
  | .flush => (respFlush s, .none)
  | .stream code chunks fails =>
    let s := respWriteHeader s code
    let (s, ns, res) := copyChunks s (chunks.filter (fun c => !c.isEmpty))
    -- a reader that fails: everything it handed out has been written, then `io.Copy` returns its error
    (s, .streamed ns (if res == 0 && fails then 1 else res))
  | .streamWT code data =>
    let s := respWriteHeader s code
    -- strings.Reader.WriteTo: no Write for an empty reader; panics if the count is too large
    if data.isEmpty then (s, .streamed [] 0)
    else
      let (s, n) := respWrite s data
      (s, .streamed [n] (if n > data.length then 2 else if n != data.length then 1 else 0))

def runProg (s : St) : List Op → St × List Ret
  | [] => (s, [])
  | op :: ops =>
    let (s, r) := step s op
    let (s, rs) := runProg s ops
    (s, r :: rs)

/-! ## the middleware -/

/-- what `sync.Pool` hands out: the writer and buffer some earlier request put back -/
structure Pool where
  gz : Gz := {}
  buf : Bytes := []
deriving DecidableEq, Repr, Inhabited

/-- naive substring test (`strings.Contains`) -/
def hasPrefix : List Char → List Char → Bool
  | _, [] => true
  | [], _ :: _ => false
  | a :: as, b :: bs => a == b && hasPrefix as bs

def containsSub : List Char → List Char → Bool
  | [], sub => sub.isEmpty
  | a :: as, sub => hasPrefix (a :: as) sub || containsSub as sub

def acceptsGzip (acceptEncoding : List Char) : Bool := containsSub acceptEncoding "gzip".toList

/-- the deferred function of the middleware -/
def finalise (s : St) (w : Grw) : St × Pool :=
  let s :=
    if !w.wroteBody then
      let raw := if s.raw.hdr.ce then { s.raw with hdr := { s.raw.hdr with ce := false } } else s.raw
      let raw := if w.wroteHeader then raw.writeHeader w.code else raw
      { s with raw := raw, grw := none, gz := s.gz.reset false }
    else if !w.exceeded then
      let raw := if w.wroteHeader then s.raw.writeHeader w.code else s.raw
      -- buffer.WriteTo(rw): no Write call for an empty buffer
      let raw := if w.buffer.isEmpty then raw else raw.write (.raw w.buffer)
      { s with raw := raw, grw := none, gz := s.gz.reset false }
    else s
  let (gz, raw) := gzClose s.gz s.raw
  let leftBuf := if w.wroteBody && !w.exceeded then [] else w.buffer
  ({ s with raw := raw, gz := gz }, ⟨gz, leftBuf⟩)

structure Req where
  acceptEncoding : List Char
  prog : List Op
deriving Repr, Inhabited

structure Result where
  raw : Raw
  rets : List Ret
deriving DecidableEq, Repr, Inhabited

/-- one request through `GzipWithConfig{MinLength}`; returns what went over the wire, what the
    handler saw, and what is put back into the pools -/
def serve (minLength : Nat) (pool : Pool) (rq : Req) : Result × Pool :=
  let raw : Raw := { hdr := { vary := true } }
  if acceptsGzip rq.acceptEncoding then
    let gz := pool.gz.reset true                 -- w.Reset(rw)
    let buf : Bytes := (fun (_ : Bytes) => []) pool.buf   -- buf.Reset()
    let w : Grw := { minLength := minLength, buffer := buf }
    let s : St := { raw := raw, gz := gz, grw := some w }
    let (s, rets) := runProg s rq.prog
    match s.grw with
    | some w =>
      let (s, pool') := finalise s w
      (⟨s.raw.writeHeader 200, rets⟩, pool')
    | none => (⟨s.raw.writeHeader 200, rets⟩, pool)     -- unreachable: the program never unwraps
  else
    let s : St := { raw := raw }
    let (s, rets) := runProg s rq.prog
    (⟨s.raw.writeHeader 200, rets⟩, pool)

/-- requests one after the other through one instance, the pool always handing back what
    the previous request left (the worst case for leaks) -/
def serveAll (minLength : Nat) : Pool → List Req → List Result
  | _, [] => []
  | p, r :: rs => let (o, p') := serve minLength p r; o :: serveAll minLength p' rs

/-! ### a handler that serves a nested request on the same application

The handler runs its first `pos` ops, serves another request through the same Echo (and so
through the same middleware instance and the same pools) and then runs the rest of its ops.
The nested request has its own response writer; what it shares with the outer one is the
`sync.Pool`s: the outer request holds one writer/buffer pair while the nested one draws the
next one (a fresh one when the pool is empty) and puts it back before the outer one does. -/

/-- the ops before and after the nested request, on the outer request's own state -/
def serveSplit (minLength : Nat) (pool : Pool) (ae : List Char) (before after : List Op) : Result × Pool :=
  let raw : Raw := { hdr := { vary := true } }
  if acceptsGzip ae then
    let gz := pool.gz.reset true
    let buf : Bytes := (fun (_ : Bytes) => []) pool.buf
    let w : Grw := { minLength := minLength, buffer := buf }
    let s : St := { raw := raw, gz := gz, grw := some w }
    let r1 := runProg s before
    let r2 := runProg r1.1 after
    match r2.1.grw with
    | some w =>
      let (s, pool') := finalise r2.1 w
      (⟨s.raw.writeHeader 200, r1.2 ++ r2.2⟩, pool')
    | none => (⟨r2.1.raw.writeHeader 200, r1.2 ++ r2.2⟩, pool)
  else
    let s : St := { raw := raw }
    let r1 := runProg s before
    let r2 := runProg r1.1 after
    (⟨r2.1.raw.writeHeader 200, r1.2 ++ r2.2⟩, pool)

/-- `sync.Pool.Get`: something an earlier request put back, or a fresh object (`New`) -/
def poolsGet : List Pool → Pool × List Pool
  | [] => ({}, [])
  | p :: ps => (p, ps)

/-- a request with the pool of pools; Get and Put only happen when gzip is accepted -/
def servePooled (minLength : Nat) (pools : List Pool) (rq : Req) : Result × List Pool :=
  if acceptsGzip rq.acceptEncoding then
    let (p, pools) := poolsGet pools
    let (r, left) := serve minLength p rq
    (r, left :: pools)
  else ((serve minLength {} rq).1, pools)

structure NReq where
  outer : Req
  pos : Nat                 -- the nested request is served before op number `pos` of the outer handler
  inner : Option Req
deriving Repr, Inhabited

/-- outer request, with the nested one in the middle; results in pre-order -/
def serveNested (minLength : Nat) (pools : List Pool) (rq : NReq) : List Result × List Pool :=
  let accepts := acceptsGzip rq.outer.acceptEncoding
  let (p, pools1) := if accepts then poolsGet pools else ({}, pools)
  let (inner, pools2) :=
    match rq.inner with
    | none => ([], pools1)
    | some irq => let (r, ps) := servePooled minLength pools1 irq; ([r], ps)
  let (r, left) := serveSplit minLength p rq.outer.acceptEncoding
    (rq.outer.prog.take rq.pos) (rq.outer.prog.drop rq.pos)
  (r :: inner, if accepts then left :: pools2 else pools2)

def serveNestedAll (minLength : Nat) : List Pool → List NReq → List Result
  | _, [] => []
  | ps, r :: rs => let (os, ps') := serveNested minLength ps r; os ++ serveNestedAll minLength ps' rs

/-! ## configuration, constructors and what happens around the handler (round 4) -/

/-- `GzipConfig` as far as it matters here (`Skipper` is per request: `ReqX.skip`) -/
structure GzipConfig where
  level : Int
  minLength : Int
deriving DecidableEq, Repr, Inhabited

/-- `DefaultGzipConfig` -/
def defaultGzipConfig : GzipConfig := ⟨-1, 0⟩

/-- the "Defaults" block of `GzipWithConfig` -/
def GzipConfig.normalise (c : GzipConfig) : GzipConfig :=
  ⟨if c.level == 0 then -1 else c.level, if c.minLength < 0 then 0 else c.minLength⟩

inductive Ctor where
  | gzip                              -- `Gzip()`
  | gzipWith (c : GzipConfig)         -- `GzipWithConfig(c)`
deriving DecidableEq, Repr, Inhabited

/-- the configuration the returned middleware works with -/
def Ctor.config : Ctor → GzipConfig
  | .gzip => defaultGzipConfig.normalise
  | .gzipWith c => c.normalise

/-- `gzip.NewWriterLevel` accepts `HuffmanOnly` (-2) … `BestCompression` (9) -/
def levelValid (l : Int) : Bool := decide (-2 ≤ l) && decide (l ≤ 9)

/-- a request and what surrounds its handler program -/
structure ReqX where
  rq : Req
  skip : Bool := false            -- what `config.Skipper(c)` answers
  presetCE : Bool := false        -- the handler sets `Content-Encoding: gzip` itself, first thing
  fail : Option Nat := none       -- the handler returns `echo.NewHTTPError(code)` after its program
deriving Repr, Inhabited

/-- the body the application's `HTTPErrorHandler` renders for `code` (the harness installs one
    that writes `E<code>`; like the default one it does nothing once the response is committed) -/
def errBody (code : Nat) : Bytes := 69 :: (Nat.repr code).toList.map Char.toNat

def errorHandler (s : St) (code : Nat) : St :=
  if s.committed then s else (respWrite (respWriteHeader s code) (errBody code)).1

/-- `e.ServeHTTP` after the middleware chain has returned -/
def afterChain (s : St) : Option Nat → St
  | none => s
  | some code => errorHandler s code

/-- one request through the middleware a constructor returned.  `before`/`after`: the handler's
    ops before and after the request it serves from inside (both together are its program). -/
def serveSplitX (cfg : GzipConfig) (pool : Pool) (x : ReqX) (before after : List Op) : Result × Pool :=
  let h0 : Hdr := { ce := x.presetCE }
  if x.skip then
    let r1 := runProg { raw := { hdr := h0 } } before
    let r2 := runProg r1.1 after
    (⟨(afterChain r2.1 x.fail).raw.writeHeader 200, r1.2 ++ r2.2⟩, pool)
  else
  let raw : Raw := { hdr := { h0 with vary := true } }
  if acceptsGzip x.rq.acceptEncoding then
    if !levelValid cfg.level then
      -- pool.Get() hands out the error of gzip.NewWriterLevel: HTTPError 500, the handler never runs
      (⟨(errorHandler { raw := { hdr := { vary := true } } } 500).raw.writeHeader 200, []⟩, pool)
    else
    let gz := pool.gz.reset true
    let buf : Bytes := (fun (_ : Bytes) => []) pool.buf
    let w : Grw := { minLength := cfg.minLength.toNat, buffer := buf }
    let s : St := { raw := raw, gz := gz, grw := some w }
    let r1 := runProg s before
    let r2 := runProg r1.1 after
    match r2.1.grw with
    | some w =>
      let (s, pool') := finalise r2.1 w
      (⟨(afterChain s x.fail).raw.writeHeader 200, r1.2 ++ r2.2⟩, pool')
    | none => (⟨(afterChain r2.1 x.fail).raw.writeHeader 200, r1.2 ++ r2.2⟩, pool)
  else
    let s : St := { raw := raw }
    let r1 := runProg s before
    let r2 := runProg r1.1 after
    (⟨(afterChain r2.1 x.fail).raw.writeHeader 200, r1.2 ++ r2.2⟩, pool)

def serveX (cfg : GzipConfig) (pool : Pool) (x : ReqX) : Result × Pool :=
  serveSplitX cfg pool x x.rq.prog []

/-- does the request take a writer/buffer pair out of the pools (and put one back)? -/
def usesPool (cfg : GzipConfig) (x : ReqX) : Bool :=
  !x.skip && acceptsGzip x.rq.acceptEncoding && levelValid cfg.level

def servePooledX (cfg : GzipConfig) (pools : List Pool) (x : ReqX) : Result × List Pool :=
  if usesPool cfg x then
    let (p, pools) := poolsGet pools
    let (r, left) := serveX cfg p x
    (r, left :: pools)
  else ((serveX cfg {} x).1, pools)

structure NReqX where
  outer : ReqX
  pos : Nat
  inner : Option ReqX
deriving Repr, Inhabited

def serveNestedX (cfg : GzipConfig) (pools : List Pool) (rq : NReqX) : List Result × List Pool :=
  let uses := usesPool cfg rq.outer
  let (p, pools1) := if uses then poolsGet pools else ({}, pools)
  -- a handler that never runs (pool error) serves no nested request
  let ran := rq.outer.skip || !acceptsGzip rq.outer.rq.acceptEncoding || levelValid cfg.level
  let (inner, pools2) :=
    match rq.inner with
    | none => ([], pools1)
    | some irq => if ran then let (r, ps) := servePooledX cfg pools1 irq; ([r], ps) else ([], pools1)
  let (r, left) := serveSplitX cfg p rq.outer (rq.outer.rq.prog.take rq.pos) (rq.outer.rq.prog.drop rq.pos)
  (r :: inner, if uses then left :: pools2 else pools2)

def serveNestedAllX (cfg : GzipConfig) : List Pool → List NReqX → List Result
  | _, [] => []
  | ps, r :: rs => let (os, ps') := serveNestedX cfg ps r; os ++ serveNestedAllX cfg ps' rs

/-! ## reading the wire (client side) -/

inductive Canon where
  | raw (b : Bytes)
  | gzip (data : Bytes) (complete : Bool) (extra : Bool)  -- decoded data; trailer seen; bytes after it
  | mixed
deriving DecidableEq, Repr, Inhabited

def rawBytes : List Item → Option Bytes
  | [] => some []
  | .raw b :: r => (rawBytes r).map (b ++ ·)
  | _ => none

/-- lenient gunzip of the items after the header: data up to the trailer (or to the end) -/
def gunzipItems : List Item → Bytes × Bool × Bool
  | [] => ([], false, false)
  | .gzData b :: r => let (d, c, e) := gunzipItems r; (b ++ d, c, e)
  | .gzSync :: r => gunzipItems r
  | .gzTrailer :: r => ([], true, !r.isEmpty)
  | _ :: _ => ([], false, true)     -- not produced by a gzip writer

def canon (body : List Item) : Canon :=
  match body with
  | .gzHeader :: r => let (d, c, e) := gunzipItems r; .gzip d c e
  | _ => match rawBytes body with
    | some b => .raw b
    | none => .mixed

/-! ## Decompress -/

/-- a request body, structurally: either bytes that are not a gzip stream, or gzip members
    with an optional defect behind the data (garbage after the trailer, trailer cut short,
    wrong checksum) -/
inductive Body where
  | plain (b : Bytes)
  | gzip (members : List Bytes) (defect : Bool)
deriving DecidableEq, Repr, Inhabited

/-- the bytes of the body as they are on the wire are abstract for gzip bodies; `plainView`
    is what a handler sees when the body is passed through untouched -/
inductive View where
  | bytes (b : Bytes)
  | untouchedGzip          -- the compressed bytes, as sent (compared by the harness)
deriving DecidableEq, Repr, Inhabited

structure DSeen where
  ran : Bool
  view : View
  err : Bool
deriving DecidableEq, Repr, Inhabited

def concatAll : List Bytes → Bytes
  | [] => []
  | b :: bs => b ++ concatAll bs

/-- one request through `Decompress()`.  `leftover` stands for the state of the pooled
    `gzip.Reader`; `gr.Reset(body)` overwrites all of it. -/
def decompress (leftover : Nat) (ce : List Char) (body : Body) : DSeen × Nat :=
  if ce != "gzip".toList then
    (⟨true, match body with | .plain b => .bytes b | .gzip _ _ => .untouchedGzip, false⟩, leftover)
  else
    match body with
    | .plain [] => (⟨true, .bytes [], false⟩, 0)            -- Reset: io.EOF, handler gets the (empty) body
    | .plain _ => (⟨false, .bytes [], true⟩, 0)              -- Reset: bad header → error, handler not run
    | .gzip ms defect => (⟨true, .bytes (concatAll ms), defect⟩, 1)

def decompressAll : Nat → List (List Char × Body) → List DSeen
  | _, [] => []
  | lo, (ce, b) :: rs => let (o, lo') := decompress lo ce b; o :: decompressAll lo' rs

/-- a request whose handler may serve one nested request through the same application
    between two of its own body reads (how much it reads before does not change what it sees) -/
structure DReq where
  ce : List Char
  body : Body
  nested : Option (List Char × Body)
deriving Repr, Inhabited

/-- `sync.Pool` of gzip.Readers: the left-over states; a fresh reader (`New`) when empty -/
def readersGet : List Nat → Nat × List Nat
  | [] => (0, [])
  | x :: r => (x, r)

/-- an un-nested request with the pool: Get and Put only happen for `Content-Encoding: gzip` -/
def decompressPooled (pool : List Nat) (ce : List Char) (body : Body) : DSeen × List Nat :=
  if ce != "gzip".toList then ((decompress 0 ce body).1, pool)
  else
    let (gr, pool) := readersGet pool
    let (o, lo) := decompress gr ce body
    (o, lo :: pool)

/-- the outer request holds its reader while the nested one draws the next one from the pool
    and puts it back first; the nested request only happens if the outer handler runs -/
def decompressReq (pool : List Nat) (rq : DReq) : List DSeen × List Nat :=
  let usesPool := rq.ce == "gzip".toList
  let (gr, pool1) := if usesPool then readersGet pool else (0, pool)
  let (o, lo) := decompress gr rq.ce rq.body
  let (inner, pool2) :=
    match rq.nested with
    | none => ([], pool1)
    | some (ce, b) =>
      if o.ran then let (oi, p) := decompressPooled pool1 ce b; ([oi], p) else ([], pool1)
  (o :: inner, if usesPool then lo :: pool2 else pool2)

def decompressSeq : List Nat → List DReq → List DSeen
  | _, [] => []
  | p, r :: rs => let (os, p') := decompressReq p r; os ++ decompressSeq p' rs

/-! ### Decompress: constructors and Skipper (round 4)

`Decompress()`, `DecompressWithConfig(DecompressConfig{})` and every other way of filling the
config produce the same middleware (the `Decompressor` interface has an unexported method, so the
only pool an application can supply is `DefaultGzipDecompressPool`).  A request the `Skipper`
excludes continues with `return next(c)` — the very statement a `Content-Encoding` other than
`gzip` leads to — so it is modelled as a request without that header. -/

def effCE (skip : Bool) (ce : List Char) : List Char := if skip then [] else ce

structure DReqX where
  skip : Bool
  ce : List Char
  body : Body
  nested : Option (Bool × List Char × Body)
deriving Repr, Inhabited

def DReqX.eff (r : DReqX) : DReq :=
  ⟨effCE r.skip r.ce, r.body, r.nested.map (fun n => (effCE n.1 n.2.1, n.2.2))⟩

def decompressSeqX (pool : List Nat) (rs : List DReqX) : List DSeen :=
  decompressSeq pool (rs.map DReqX.eff)

/-! ## wire format -/
open Wire

def pOp : P Op := do
  let k ← tok
  match k with
  | "L" => do let n ← nat; pure (.setLen n)
  | "H" => do let c ← nat; pure (.writeHeader c)
  | "W" => do let b ← bytes; pure (.write b)
  | "F" => pure .flush
  | "S" => do let c ← nat; let cs ← list bytes; let f ← bool; pure (.stream c cs f)
  | "T" => do let c ← nat; let d ← bytes; pure (.streamWT c d)
  | _ => failure

def pReq : P Req := do
  let ae ← str
  let ops ← list pOp
  pure ⟨ae, ops⟩

def encCanon : Canon → List String
  | .raw b => ["R", encBytes b]
  | .gzip d c e => ["G", encBytes d, encBool c, encBool e]
  | .mixed => ["M"]

def encRet : Ret → List String
  | .none => ["-"]
  | .wrote n => ["w", toString n]
  | .streamed ns r => "s" :: toString r :: encList (fun n => [toString n]) ns

def encResult (r : Result) : List String :=
  [toString r.raw.status, encBool r.raw.sent.ce] ++ encOpt (fun n => [toString n]) r.raw.sent.cl ++
  [encBool r.raw.sent.vary] ++ encCanon (canon r.raw.body) ++
  encList encCanon (r.raw.snaps.map canon) ++ encList encRet r.rets

def pBody : P Body := do
  let k ← tok
  match k with
  | "P" => do let b ← bytes; pure (.plain b)
  | "Z" => do let ms ← list bytes; let d ← bool; pure (.gzip ms d)
  | _ => failure

def encDSeen (d : DSeen) : List String :=
  [encBool d.ran] ++ (match d.view with | .bytes b => ["B", encBytes b] | .untouchedGzip => ["U"]) ++ [encBool d.err]

def pNReq : P NReq := do
  let outer ← pReq
  let inner ← opt (do let k ← nat; let r ← pReq; pure (k, r))
  match inner with
  | none => pure ⟨outer, 0, none⟩
  | some (k, r) => pure ⟨outer, k, some r⟩

def pDReq : P DReq := do
  let ce ← str
  let b ← pBody
  let n ← opt (do let ce ← str; let b ← pBody; pure (ce, b))
  pure ⟨ce, b, n⟩

def pReqX : P ReqX := do
  let skip ← bool
  let pre ← bool
  let fail ← opt nat
  let rq ← pReq
  pure ⟨rq, skip, pre, fail⟩

def pNReqX : P NReqX := do
  let outer ← pReqX
  let inner ← opt (do let k ← nat; let r ← pReqX; pure (k, r))
  match inner with
  | none => pure ⟨outer, 0, none⟩
  | some (k, r) => pure ⟨outer, k, some r⟩

def pDReqX : P DReqX := do
  let skip ← bool
  let ce ← str
  let b ← pBody
  let n ← opt (do let sk ← bool; let ce ← str; let b ← pBody; pure (sk, ce, b))
  pure ⟨skip, ce, b, n⟩

def pInt : P Int := do
  let neg ← bool
  let n ← nat
  pure (if neg then -(n : Int) else (n : Int))

def pCtor : P Ctor := do
  let plain ← bool
  let level ← pInt
  let m ← pInt
  pure (if plain then .gzip else .gzipWith ⟨level, m⟩)

inductive Line where
  | gzip (c : Ctor) (reqs : List NReqX)
  | decomp (reqs : List DReqX)

def pLine : P Line := do
  let k ← tok
  match k with
  | "G" => do let c ← pCtor; let rs ← list pNReqX; pure (.gzip c rs)
  | "D" => do let rs ← list pDReqX; pure (.decomp rs)
  | _ => failure

/-- lines:
    `G plain levelNeg level minLengthNeg minLength nreq (reqx (0 | 1 at reqx))*` where
    `reqx = skip presetCE (0 | 1 failCode) acceptEncoding nops op*` with ops
    `L n | H code | W bytes | F | S code nchunks bytes* readerFails | T code bytes`; the optional part is a
    request the handler serves, nested, before its op number `at`
      → `nres (status ce cl? vary body nsnaps snap* nrets ret*)*`   (outer before nested)
    `D nreq (skip contentEncoding body (0 | 1 skip contentEncoding body))*`, body = `P bytes | Z nmembers bytes* defect`
      → `nres (ran (B bytes | U) err)*`                                (outer before nested) -/
def runLine (line : String) : String :=
  match parseLine pLine line with
  | none => "bad-op"
  | some (.gzip c rs) => render (encList encResult (serveNestedAllX c.config [] rs))
  | some (.decomp rs) => render (encList encDSeen (decompressSeqX [] rs))

end C15
