import EchoModel.Wire
/-!
# C07 — errors and recovered panics become exactly one response
(echo.go `DefaultHTTPErrorHandler`, `ServeHTTP`; middleware/recover.go)

Error values are abstract trees; every text (error text, message string, JSON document a
message value serialises to) is an *atom* (`Nat`).  `DefaultHTTPErrorHandler` is modelled as
the decision function it is, branch by branch:

    if c.Response().Committed { return }
    he, ok := err.(*HTTPError)            -- type assertion: a %w-wrapped HTTPError is NOT ok
    if ok { if he.Internal is *HTTPError { he = that } }     -- one level only
    else  { he = &HTTPError{500, StatusText(500)} }
    switch m := he.Message.(type) {
      case string:         message = {"message": m [, "error": err.Error()  if Debug]}
      case json.Marshaler: (as is)
      case error:          message = {"message": m.Error()}
      default:             (as is; an untyped nil message matches no case → JSON `null`) }
    if HEAD { c.NoContent(he.Code) } else { c.JSON(he.Code, message) }

`err.Error()` is reduced to the list of atoms that occur in it (the harness extracts the
markers from the string); `encoding/json` to "a message value serialises to the document
named by its atom" (messages that cannot be serialised are outside the property's
quantifier).  The middleware chain around the failing handler is a list of layers.  A `Recover` layer
whose Skipper does not skip turns a panic value into an error (`error` values as they are,
anything else through `fmt.Errorf("%v", r)`), re-panics on `http.ErrAbortHandler`, lets
`LogErrorFunc` (if set) REPLACE the error (or swallow it by returning nil), and either calls
`c.Error(err)` and lets the chain continue with `nil`, or (DisableErrorHandler) returns the
error to the chain.  A `callsError` layer is the common middleware that reports the error it
gets from `next(c)` through `c.Error` (and returns it as well, or nil).  `ServeHTTP` hands a
non-nil chain error to the handler once.

Well-known error VALUES (context.Canceled, io.EOF, echo.ErrValidatorNotRegistered, …) are plain
errors with reserved atoms; echo's exported `*HTTPError` variables (echo.ErrNotFound, …) are
`http c .dflt` values whose `Internal` is whatever `SetInternal` last stored in them — the
harness resolves that aliasing and hands the tree the value has when it is handled.  The
handler itself has no memory: it is a function of (Debug, method, response state, error).
-/
namespace C07

abbrev Atom := Nat

/-- `HTTPError.Message` -/
inductive Msg where
  | str (t : Atom)      -- a string
  | dflt                -- `NewHTTPError(code)` without message: `http.StatusText(code)`, a string
  | err (t : Atom)      -- an `error` value with text `t` (not a json.Marshaler)
  | marsh (j : Atom)    -- a json.Marshaler (possibly also an `error`) producing document `j`
  | other (j : Atom)    -- any other serialisable value (map, struct, slice) producing document `j`
  | nil                 -- no message at all (`&HTTPError{Code: c}`, `NewHTTPError(c, nil)`): JSON `null`
deriving DecidableEq, Repr, Inhabited

inductive Err where
  | plain (t : Atom)                               -- errors.New(t)
  | wrap (t : Atom) (inner : Err)                  -- fmt.Errorf("t: %w", inner)
  | http (code : Nat) (msg : Msg)                  -- *HTTPError, Internal == nil
  | httpI (code : Nat) (msg : Msg) (internal : Err) -- *HTTPError with Internal
deriving DecidableEq, Repr, Inhabited

/-- atoms occurring in `fmt.Sprintf("%v", message)` -/
def msgAtoms : Msg → List Atom
  | .str t => [t]
  | .dflt => []
  | .err t => [t]
  | .marsh j => [j]
  | .other j => [j]
  | .nil => []          -- `%v` prints `<nil>`

/-- atoms occurring in `err.Error()` -/
def errorAtoms : Err → List Atom
  | .plain t => [t]
  | .wrap t inner => t :: errorAtoms inner
  | .http _ m => msgAtoms m
  | .httpI _ m i => msgAtoms m ++ errorAtoms i

/-- a text in a response body -/
inductive Text where
  | atom (t : Atom)
  | statusText (code : Nat)     -- http.StatusText(code)
deriving DecidableEq, Repr, Inhabited

/-- one body document (one `Write` reaching the underlying writer) -/
inductive Doc where
  | pre                                          -- what the handler itself wrote before failing
  | message (m : Text) (dbg : Option (List Atom)) -- {"message": m [, "error": text with these atoms]}
  | doc (j : Atom)                               -- the message value serialised as it is
  | null                                         -- the JSON document `null` (nil message)
deriving DecidableEq, Repr, Inhabited

/-- what the underlying writer has seen -/
structure Out where
  calls : List Nat := []      -- WriteHeader calls received
  docs : List Doc := []       -- body writes received
  committed : Bool := false   -- echo's Response.Committed
deriving DecidableEq, Repr, Inhabited

/-- insertion into a sorted duplicate-free list (canonical form of an atom set) -/
def insertSorted (a : Nat) : List Nat → List Nat
  | [] => [a]
  | b :: r => if a < b then a :: b :: r else if a = b then b :: r else b :: insertSorted a r

def canon (l : List Nat) : List Nat := l.foldr insertSorted []

/-- the `he` the handler ends up with: `(code, message)`; `none` = not an HTTPError -/
def effective : Err → Option (Nat × Msg)
  | .plain _ => none
  | .wrap _ _ => none
  | .http c m => some (c, m)
  | .httpI c m i =>
    match i with
    | .http c' m' => some (c', m')
    | .httpI c' m' _ => some (c', m')
    | _ => some (c, m)

/-- the value handed to `c.JSON` -/
def shape (debug : Bool) (err : Err) (code : Nat) : Msg → Doc
  | .str t => .message (.atom t) (if debug then some (canon (errorAtoms err)) else none)
  | .dflt => .message (.statusText code) (if debug then some (canon (errorAtoms err)) else none)
  | .marsh j => .doc j
  | .err t => .message (.atom t) none
  | .other j => .doc j
  | .nil => .null       -- no case of the type switch matches an untyped nil: sent as it is

/-- `DefaultHTTPErrorHandler(err, c)` on a response in state `o` -/
def handle (debug head : Bool) (o : Out) (err : Err) : Out :=
  if o.committed then o
  else
    let (code, msg) := match effective err with
      | some cm => cm
      | none => (500, Msg.dflt)
    if head then { calls := o.calls ++ [code], docs := o.docs, committed := true }
    else { calls := o.calls ++ [code], docs := o.docs ++ [shape debug err code msg], committed := true }

/-- what the handler function did to the response before it failed -/
inductive Pre where
  | nothing
  | wrote (c : Nat)        -- c.String(c, "pre")
  | noContent (c : Nat)    -- c.NoContent(c)
  | flush                  -- c.Response().Flush()  (commits with 200 since the F5 repair)
  | jsonBad (c : Nat)      -- c.JSON(c, unserialisable): status preset, nothing sent
  | writeHeader (c : Nat)  -- c.Response().WriteHeader(c)
  /-- the failing code started to send status `c`, but the commit itself panicked — a
      `Response.Before` hook panicked, or the underlying writer refused the code (net/http
      panics on codes outside 100..999).  `Response.WriteHeader` sets `Committed` only after
      hooks and forward, so nothing is out and the response is still uncommitted (this is
      `C06.C06_refused_commit` seen from here); the panic then travels like any other. -/
  | commitAborted (c : Nat)
  /-- `Response.Flush()` (also reached through `http.ResponseController` or a `FlushError` probe:
      `echo.Response` offers only `Flush`) on an underlying writer that has neither `Flush` nor
      `FlushError` (http.TimeoutHandler's writer, plain third-party wrappers): it commits with 200
      like `flush` and THEN panics with echo's own error value, whose text is atom `t`
      (`panic(errors.New("response writer flushing is not supported"))`).  See `flushPanics`. -/
  | flushUnsupported (t : Atom)
deriving DecidableEq, Repr, Inhabited

def applyPre : Pre → Out
  | .nothing => {}
  | .wrote c => { calls := [c], docs := [.pre], committed := true }
  | .noContent c => { calls := [c], committed := true }
  | .flush => { calls := [200], committed := true }
  | .jsonBad _ => {}
  | .writeHeader c => { calls := [c], committed := true }
  | .commitAborted _ => {}
  | .flushUnsupported _ => { calls := [200], committed := true }

inductive PanicVal where
  | error (e : Err)     -- panic(err)
  | str (t : Atom)      -- panic("text")
  | int (t : Atom)      -- panic(12345)
  | struct (t : Atom)   -- panic(someStruct{...})
  | abort               -- panic(http.ErrAbortHandler)
deriving DecidableEq, Repr, Inhabited

inductive Raise where
  | returned (e : Err)
  | panicked (v : PanicVal)
deriving DecidableEq, Repr, Inhabited

/-- `RecoverConfig.LogErrorFunc`: its return value REPLACES the recovered error -/
inductive LogFn where
  | unset                  -- nil: Recover logs the stack itself (LogLevel switch) and keeps the error
  | same                   -- returns the error it was given
  | replace (e : Err)      -- returns another error
  | swallow                -- returns nil: "the centralized HTTPErrorHandler will not be called"
deriving DecidableEq, Repr, Inhabited

/-- one `Recover` instance, as far as the response is concerned (StackSize, DisableStackAll,
    DisablePrintStack and LogLevel only influence what is logged) -/
structure RecCfg where
  skip : Bool              -- `config.Skipper(c)` says true for this request
  disableEH : Bool         -- `DisableErrorHandler`
  logFn : LogFn
deriving DecidableEq, Repr, Inhabited

/-- a middleware in the chain -/
inductive Layer where
  | recover (cfg : RecCfg)
  /-- `err := next(c); if err != nil { c.Error(err) }; return err` (`ret`) or `return nil` -/
  | callsError (ret : Bool)
deriving DecidableEq, Repr, Inhabited

structure Case where
  debug : Bool
  head : Bool              -- request method is HEAD
  /-- the middleware chain around the failing handler, OUTERMOST FIRST (Pre, Use, group and
      route level middleware are one chain; the router's own 404/405 handlers sit inside the
      Pre and Use part of it) -/
  layers : List Layer
  pre : Pre
  raise : Raise
deriving DecidableEq, Repr, Inhabited

inductive Outcome where
  | response (o : Out)
  | crashed                -- the panic left ServeHTTP (net/http aborts the connection)
deriving DecidableEq, Repr, Inhabited

/-- `Recover`: panic value → error (`none`: `http.ErrAbortHandler` is re-panicked) -/
def recoverErr : PanicVal → Option Err
  | .error e => some e
  | .str t => some (.plain t)
  | .int t => some (.plain t)
  | .struct t => some (.plain t)
  | .abort => none

/-- the error `Recover` goes on with after logging -/
def logged : LogFn → Err → Option Err
  | .unset, e => some e
  | .same, e => some e
  | .replace e', _ => some e'
  | .swallow, _ => none

/-- what is travelling up the chain -/
inductive Travel where
  | panicking (v : PanicVal)
  | returning (e : Option Err)     -- the `error` result of `next(c)`
deriving DecidableEq, Repr, Inhabited

/-- one middleware sees what comes out of `next(c)` -/
def layerStep (debug head : Bool) : Layer → Out × Travel → Out × Travel
  | .recover cfg, (o, .panicking v) =>
    if cfg.skip then (o, .panicking v)                 -- `return next(c)`: no deferred recover
    else
      match recoverErr v with
      | none => (o, .panicking v)                      -- `panic(r)` again
      | some e =>
        match logged cfg.logFn e with
        | none => (o, .returning none)                 -- err == nil: `returnErr = nil`
        | some e' =>
          if cfg.disableEH then (o, .returning (some e'))          -- `returnErr = err`
          else (handle debug head o e', .returning none)           -- `c.Error(err)`
  | .recover _, x => x
  | .callsError ret, (o, .returning (some e)) =>
    (handle debug head o e, .returning (if ret then some e else none))
  | .callsError _, x => x

/-- up the chain, innermost middleware first -/
def climb (debug head : Bool) : List Layer → Out × Travel → Out × Travel
  | [], x => x
  | l :: ls, x => climb debug head ls (layerStep debug head l x)

/-- `ServeHTTP`: `if err := h(c); err != nil { e.HTTPErrorHandler(err, c) }` -/
def finish (debug head : Bool) : Out × Travel → Outcome
  | (_, .panicking _) => .crashed
  | (o, .returning (some e)) => .response (handle debug head o e)
  | (o, .returning none) => .response o

def start : Raise → Travel
  | .returned e => .returning (some e)
  | .panicked v => .panicking v

def serve (c : Case) : Outcome :=
  finish c.debug c.head (climb c.debug c.head c.layers.reverse (applyPre c.pre, start c.raise))

/-- What the chain really sees when the failing code flushed a writer that cannot flush: the
    panic of `Response.Flush`, whatever the code was going to do next (it never gets there). -/
def flushPanics (c : Case) : Case :=
  match c.pre with
  | .flushUnsupported t => { c with raise := .panicked (.error (.plain t)) }
  | _ => c

/-! ### how often the chain hands an error to `Echo.HTTPErrorHandler` -/

/-- the travel component of `layerStep`, and whether the layer invoked the error handler
    (`c.Error`) -/
def layerTravel : Layer → Travel → Travel × Nat
  | .recover cfg, .panicking v =>
    if cfg.skip then (.panicking v, 0)
    else
      match recoverErr v with
      | none => (.panicking v, 0)
      | some e =>
        match logged cfg.logFn e with
        | none => (.returning none, 0)
        | some e' => if cfg.disableEH then (.returning (some e'), 0) else (.returning none, 1)
  | .recover _, t => (t, 0)
  | .callsError ret, .returning (some e) => (.returning (if ret then some e else none), 1)
  | .callsError _, t => (t, 0)

def climbCount : List Layer → Travel → Travel × Nat
  | [], t => (t, 0)
  | l :: ls, t =>
    let r := layerTravel l t
    let r' := climbCount ls r.1
    (r'.1, r.2 + r'.2)

/-- number of invocations of `Echo.HTTPErrorHandler` for this request: one per `c.Error` in
    the chain plus the one of `ServeHTTP` if the chain returns an error -/
def countAtEnd : Travel × Nat → Nat
  | (.returning (some _), n) => n + 1       -- ServeHTTP: e.HTTPErrorHandler(err, c)
  | (_, n) => n

def handOvers (c : Case) : Nat := countAtEnd (climbCount c.layers.reverse (start c.raise))

/-- several requests through one Echo instance, one after the other.  Nothing of a request
    survives into the next one: `context.Reset` clears the response, and neither the error
    handler nor `Recover` keeps state — in particular the handler builds its generic 500 afresh
    and never consults or changes a package-level error value — so every request is served as
    if it were the only one.  (That this is what the real code does — pooled contexts and the
    exported sentinel errors included — is what the correspondence run checks on sequences of
    failing requests.) -/
def serveAll (cs : List Case) : List Outcome := cs.map serve

/-! ## wire -/
open Wire

def pMsg : P Msg := do
  let k ← nat
  let t ← nat
  match k with
  | 0 => pure (.str t)
  | 1 => pure .dflt
  | 2 => pure (.err t)
  | 3 => pure (.marsh t)
  | 4 => pure (.other t)
  | 5 => pure .nil
  | _ => failure

/-- recursive descent with fuel (depth of the tree) -/
def pErr : Nat → P Err
  | 0 => failure
  | fuel + 1 => do
    let k ← nat
    match k with
    | 0 => do let t ← nat; pure (.plain t)
    | 1 => do let t ← nat; let i ← pErr fuel; pure (.wrap t i)
    | 2 => do let c ← nat; let m ← pMsg; pure (.http c m)
    | 3 => do let c ← nat; let m ← pMsg; let i ← pErr fuel; pure (.httpI c m i)
    | _ => failure

def pPre : P Pre := do
  let k ← nat
  let c ← nat
  match k with
  | 0 => pure .nothing
  | 1 => pure (.wrote c)
  | 2 => pure (.noContent c)
  | 3 => pure .flush
  | 4 => pure (.jsonBad c)
  | 5 => pure (.writeHeader c)
  | 6 => pure (.commitAborted c)
  | 7 => pure (.flushUnsupported c)
  | _ => failure

def pRaise : P Raise := do
  let k ← nat
  match k with
  | 0 => do let e ← pErr 64; pure (.returned e)
  | 1 => do
    let pk ← nat
    match pk with
    | 0 => do let e ← pErr 64; pure (.panicked (.error e))
    | 1 => do let t ← nat; pure (.panicked (.str t))
    | 2 => do let t ← nat; pure (.panicked (.int t))
    | 3 => do let t ← nat; pure (.panicked (.struct t))
    | 4 => pure (.panicked .abort)
    | _ => failure
  | _ => failure

def pLogFn : P LogFn := do
  let k ← nat
  match k with
  | 0 => pure .unset
  | 1 => pure .same
  | 2 => do let e ← pErr 64; pure (.replace e)
  | 3 => pure .swallow
  | _ => failure

def pLayer : P Layer := do
  let k ← nat
  match k with
  | 0 => do
    let skip ← bool
    let disableEH ← bool
    let f ← pLogFn
    pure (.recover ⟨skip, disableEH, f⟩)
  | 1 => do let ret ← bool; pure (.callsError ret)
  | _ => failure

/-- a case and whether `Echo.HTTPErrorHandler` is the counting wrapper around the default
    handler (observation only: then the number of hand-overs is printed) -/
def pCase : P (Case × Bool) := do
  let debug ← bool
  let head ← bool
  let layers ← list pLayer
  let pre ← pPre
  let raise ← pRaise
  let customEH ← bool
  pure (⟨debug, head, layers, pre, raise⟩, customEH)

def encText : Text → List String
  | .atom t => ["0", toString t]
  | .statusText c => ["1", toString c]

def encDoc : Doc → List String
  | .pre => ["0"]
  | .message m dbg => "1" :: encText m ++ encOpt (encList fun a => [toString a]) dbg
  | .doc j => ["2", toString j]
  | .null => ["3"]

def encOutcome (c : Case) (customEH : Bool) : Outcome → List String
  | .crashed => ["X"]
  | .response o =>
    [encBool o.committed] ++ encList (fun c => [toString c]) o.calls ++ encList encDoc o.docs
      ++ [toString (if customEH then handOvers c else 0)]

/-- line: `nreq (debug head nlayers layer* pre raise customEH)*` with
    `layer = 0 skip disableEH logfn | 1 ret`, `logfn = 0 | 1 | 2 err | 3` →
    `nreq (X | committed ncalls call* ndocs doc* handOvers)*` -/
def runLine (line : String) : String :=
  match parseLine (list pCase) line with
  | none => "bad-op"
  | some cs => render (encList (fun (c, k) => encOutcome (flushPanics c) k (serve (flushPanics c))) cs)

end C07
