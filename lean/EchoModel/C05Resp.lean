/-!
# C05 — who owns a `*echo.Response` (context.go Reset / SetResponse, response.go reset, echo.go WrapMiddleware,
WrapHandler)

`EchoModel/C05.lean` treats the response bookkeeping of a context as a *value* inside the context.  In the code it
is an object the context points to (`c.response`), and `Reset` re-initialises that object **in place**
(`c.response.reset(w)`).  Isolation of the response bookkeeping therefore rests on an ownership fact: no two
contexts point to the same `Response` object.  This file models exactly that part:

* a heap of `Response` cells (address = index); a cell knows the writer behind it, which is either the writer a
  request came with (`plain`) or **another `Response`** (`resp a`) — that is what a context is handed when a handler
  forwards a request (`e.ServeHTTP(c.Response(), r2)`), when a second Echo instance is mounted with
  `echo.WrapHandler(inner)`, and what `echo.WrapMiddleware` puts around the writer of a net/http middleware;
* contexts, each holding the address of its `response`;
* the operations of the code that create, re-initialise, replace or write through a `Response`:
  `NewContext`, `Reset` (in place, whatever kind of writer it is given), `SetResponse(NewResponse(..))` (a NEW
  object: `WrapMiddleware` and handlers do this and never put the old one back), `Write` (commits and counts in
  the cell and passes the bytes on along the chain of writers), `Before`/`After`.

Pure core Lean; not part of the wire protocol (the correspondence run exercises these paths through the C05
history: ops `forward`, `nested`, routes with `WrapMiddleware`, recovered panics).
-/
namespace C05R

inductive Writer where
  | plain (id : Nat)       -- the http.ResponseWriter a request came with
  | resp (addr : Nat)    -- an `*echo.Response` (by address)
deriving DecidableEq, Repr, Inhabited

/-- one `Response` object -/
structure Cell where
  writer : Writer := .plain 0
  status : Nat := 200
  size : Nat := 0
  committed : Bool := false
  hooks : List Nat := []      -- Before/After functions (the request that registered each)
deriving DecidableEq, Repr, Inhabited

structure Sys where
  heap : List Cell := []
  ctxs : List Nat := []       -- context id ↦ address of its `response`
deriving DecidableEq, Repr, Inhabited

/-- `Response.reset(w)` / `NewResponse(w, e)` -/
def fresh (w : Writer) : Cell := { writer := w }

/-- `NewContext`: a context with a `Response` object of its own -/
def newCtx (s : Sys) : Sys :=
  { heap := s.heap ++ [fresh (.plain 0)], ctxs := s.ctxs ++ [s.heap.length] }

/-- `context.Reset(r, w)`: `c.response.reset(w)` — the object is re-initialised in place; which object the
    context points to does not change, whatever `w` is -/
def reset (s : Sys) (c : Nat) (w : Writer) : Sys :=
  match s.ctxs[c]? with
  | some a => { s with heap := s.heap.set a (fresh w) }
  | none => s

/-- `c.SetResponse(NewResponse(w, e))` (`WrapMiddleware`, handlers): a new object; the old one is left alone -/
def setNew (s : Sys) (c : Nat) (w : Writer) : Sys :=
  if c < s.ctxs.length then { heap := s.heap ++ [fresh w], ctxs := s.ctxs.set c s.heap.length } else s

/-- the `Response` objects a write through cell `a` passes, outermost first (`fuel` bounds the walk) -/
def chain (h : List Cell) : Nat → Nat → List Nat
  | 0, _ => []
  | fuel + 1, a =>
    match h[a]? with
    | none => []
    | some cell => a :: (match cell.writer with | .resp b => chain h fuel b | .plain _ => [])

def writeCell (cell : Cell) (n : Nat) : Cell := { cell with committed := true, size := cell.size + n }

def bump (n : Nat) (h : List Cell) (a : Nat) : List Cell :=
  match h[a]? with
  | some cell => h.set a (writeCell cell n)
  | none => h

/-- `Response.Write` of `n` bytes through the context's response: every `Response` on the way commits and counts -/
def write (s : Sys) (c : Nat) (n : Nat) : Sys :=
  match s.ctxs[c]? with
  | some a => { s with heap := (chain s.heap s.heap.length a).foldl (bump n) s.heap }
  | none => s

/-- `c.Response().Before(fn)` / `After(fn)` -/
def hook (s : Sys) (c : Nat) (owner : Nat) : Sys :=
  match s.ctxs[c]? with
  | some a =>
    match s.heap[a]? with
    | some cell => { s with heap := s.heap.set a { cell with hooks := cell.hooks ++ [owner] } }
    | none => s
  | none => s

inductive Step where
  | newCtx
  | reset (c : Nat) (w : Writer)
  | setNew (c : Nat) (w : Writer)
  | write (c : Nat) (n : Nat)
  | hook (c : Nat) (owner : Nat)
deriving Repr, Inhabited

def exec (s : Sys) : Step → Sys
  | .newCtx => newCtx s
  | .reset c w => reset s c w
  | .setNew c w => setNew s c w
  | .write c n => write s c n
  | .hook c o => hook s c o

def run (s : Sys) (steps : List Step) : Sys := steps.foldl exec s

/-- what a handler sees of the response bookkeeping of context `c` -/
def view (s : Sys) (c : Nat) : Option Cell := (s.ctxs[c]?).bind (s.heap[·]?)

/-! ### what the code must NOT do (the two shortcuts are here only to state that they break ownership) -/

/-- "serve directly on the `Response` we were handed": the context points to somebody else's object -/
def adopt (s : Sys) (c : Nat) (a : Nat) : Sys :=
  if c < s.ctxs.length then { s with ctxs := s.ctxs.set c a } else s

end C05R
