import EchoModel.Wire
/-!
# C13 — BasicAuth / KeyAuth (middleware/basic_auth.go, key_auth.go, extractor.go)

Strings are `List Char` with one `Char` per byte (Latin-1 view of a Go string).

What is modelled, and how the stdlib pieces are treated:

* `BasicAuthWithConfig`: `Header.Get("Authorization")` (= first value), the guard
  `len(auth) > len("basic")+1 && strings.EqualFold(auth[:5], "basic")`, the decode of
  `auth[6:]`, the split at the first colon, the validator call and the 401 fall-through.
  Go slice expressions are modelled by *bounds-checked* slicing (`sliceTo?`/`sliceFrom?`);
  a failed slice is the model's `panic` outcome (`none`), so "no header makes the middleware
  panic" is a theorem, not a convention.
* `strings.EqualFold(x, p)` for an ASCII `p` and `len x = len p` is ASCII case-insensitive
  byte equality (a multi-byte rune in `x` makes the rune counts differ; an invalid byte is
  U+FFFD which folds to nothing in ASCII).  Implemented here as `eqFold`; validated by the
  correspondence run with `ſ` (U+017F), the Kelvin sign and invalid bytes in the inputs.
  Assumption: the configured AuthScheme / cut-prefix is ASCII.
* `base64.StdEncoding.DecodeString` is *implemented* in Lean (`b64decode`: CR/LF skipped
  anywhere, alphabet `A-Za-z0-9+/`, mandatory `=` padding, nothing after the padding,
  non-strict trailing bits as in Go) and validated by the run.  All theorems are stated for
  an arbitrary decoder `dec`.
* The validator is a parameter: `V : Str → Str → Outcome` (Basic) / `V : Str → Outcome` (Key).
  `Outcome.err e` is "the validator returned an error" (plain `error`, or `*echo.HTTPError` with
  a code); how echo's error handler turns it into a status (plain 500, HTTPError its code, one
  level of `Internal` unwrapped) is C07's subject and enters here only as `VE.status`.
* `KeyAuthWithConfig`: `createExtractors` (split of the KeyLookup string, the
  `Authorization` + AuthScheme special case with the appended space), `valuesFromHeader /
  Query / Form / Cookie` with their limit-20 rules exactly as written (index based `break`
  inside the matching branch only), the extractor / validator loops with
  `lastExtractorErr` / `lastValidatorErr`, the error mapping, `ErrorHandler` and
  `ContinueOnIgnoredError`.  What `net/http` parses out of the request (header values under
  the canonical key, `URL.Query()[name]`, `Request.Form[name]`, `Request.Cookies()`, and the router's path parameters) is
  passed in per lookup source as a list of `(name, value)` pairs.
* round 4: the complete closures `basicAuthMW` / `keyAuthMW` (the configured Skipper is consulted
  first; its answer for the request is an input), the convenience constructors `BasicAuth(fn)` /
  `KeyAuth(fn)` (default realm; `keyCtorCfg`: lookup `header:Authorization`, scheme `Bearer`, no
  ErrorHandler), the nil-validator constructor panic (`config-panic` in `runLine`), the value of the
  WWW-Authenticate challenge (`wwwValue`; `strconv.Quote` of a custom realm is passed in), and the
  exported `CreateExtractors(lookups)` = `createExtractors lookups ""` (no defaults; the empty
  string yields no extractor), each extractor applied to what net/http located.
-/
namespace C13

abbrev Str := List Char

/-- an error returned by a validator: a plain `error`, or an `*echo.HTTPError` with a code -/
inductive VE where
  | plain
  | http (code : Nat)
deriving DecidableEq, Repr, Inhabited

/-- status echo's `DefaultHTTPErrorHandler` answers with when the error reaches it unwrapped -/
def VE.status : VE → Nat
  | .plain => 500
  | .http c => c

/-- what a validator answered -/
inductive Outcome where
  | yes
  | no
  | err (e : VE)
deriving DecidableEq, Repr, Inhabited

/-! ## strings -/

def lowerAscii (c : Char) : Char :=
  if 'A' ≤ c ∧ c ≤ 'Z' then Char.ofNat (c.toNat + 32) else c

/-- `strings.EqualFold` restricted to the situation described in the header comment -/
def eqFold (a b : Str) : Bool := a.map lowerAscii == b.map lowerAscii

/-- Go `s[:n]`; `none` = slice bounds out of range (panic) -/
def sliceTo? (s : Str) (n : Nat) : Option Str := if n ≤ s.length then some (s.take n) else none

/-- Go `s[n:]`; `none` = slice bounds out of range (panic) -/
def sliceFrom? (s : Str) (n : Nat) : Option Str := if n ≤ s.length then some (s.drop n) else none

/-- the loop `for i := 0; i < len(cred); i++ { if cred[i] == ':' { … cred[:i], cred[i+1:] … break } }` -/
def splitColon : Str → Option (Str × Str)
  | [] => none
  | c :: r =>
    if c = ':' then some ([], r)
    else match splitColon r with
      | none => none
      | some (u, p) => some (c :: u, p)

/-- `strings.Split(s, sep)` for a one-byte separator (always at least one element) -/
def splitOn (sep : Char) : Str → List Str
  | [] => [[]]
  | c :: r =>
    if c = sep then [] :: splitOn sep r
    else match splitOn sep r with
      | [] => [[c]]          -- unreachable
      | h :: t => (c :: h) :: t

def hasSuffixSpace : Str → Bool
  | [] => false
  | [c] => c = ' '
  | _ :: r => hasSuffixSpace r

/-! ## base64.StdEncoding.DecodeString -/

def b64val (c : Char) : Option Nat :=
  if 'A' ≤ c ∧ c ≤ 'Z' then some (c.toNat - 65)
  else if 'a' ≤ c ∧ c ≤ 'z' then some (c.toNat - 97 + 26)
  else if '0' ≤ c ∧ c ≤ '9' then some (c.toNat - 48 + 52)
  else if c = '+' then some 62
  else if c = '/' then some 63
  else none

/-- decode a CR/LF-free text quantum by quantum -/
def b64quads : Str → Option Str
  | [] => some []
  | a :: b :: c :: d :: rest =>
    match b64val a, b64val b with
    | some x, some y =>
      if c = '=' then
        if d = '=' ∧ rest = [] then some [Char.ofNat (x * 4 + y / 16)] else none
      else match b64val c with
        | none => none
        | some z =>
          if d = '=' then
            if rest = [] then some [Char.ofNat (x * 4 + y / 16), Char.ofNat (y % 16 * 16 + z / 4)] else none
          else match b64val d with
            | none => none
            | some w =>
              match b64quads rest with
              | none => none
              | some out =>
                some (Char.ofNat (x * 4 + y / 16) :: Char.ofNat (y % 16 * 16 + z / 4)
                      :: Char.ofNat (z % 4 * 64 + w) :: out)
    | _, _ => none
  | _ => none

def b64decode (s : Str) : Option Str :=
  b64quads (s.filter fun c => c ≠ '\r' ∧ c ≠ '\n')

/-! ## BasicAuth -/

structure BObs where
  ran : Bool                   -- the next handler ran
  status : Nat                 -- response status
  www : Bool                   -- WWW-Authenticate set
  calls : List (Str × Str)     -- validator call log
deriving DecidableEq, Repr, Inhabited

def basicLit : Str := "basic".toList

def unauthorized (calls : List (Str × Str)) : BObs := ⟨false, 401, true, calls⟩

/-- `none` = the middleware panicked -/
def basicAuth (V : Str → Str → Outcome) (dec : Str → Option Str) (hdrs : List Str) : Option BObs :=
  let auth := hdrs.headD []        -- Header.Get: first value or ""
  if auth.length > basicLit.length + 1 then
    match sliceTo? auth basicLit.length with
    | none => none
    | some sch =>
      if eqFold sch basicLit then
        match sliceFrom? auth (basicLit.length + 1) with
        | none => none
        | some enc =>
          match dec enc with
          | none => some ⟨false, 400, false, []⟩
          | some cred =>
            match splitColon cred with
            | none => some (unauthorized [])
            | some (u, p) =>
              match V u p with
              | .err e => some ⟨false, e.status, false, [(u, p)]⟩
              | .yes => some ⟨true, 200, false, [(u, p)]⟩
              | .no => some (unauthorized [(u, p)])
      else some (unauthorized [])
  else some (unauthorized [])

/-- the whole `BasicAuthWithConfig` closure: `if config.Skipper(c) { return next(c) }` comes first.
    `skip` is what the configured Skipper answers for this request (the default Skipper: `false`). -/
def basicAuthMW (skip : Bool) (V : Str → Str → Outcome) (dec : Str → Option Str) (hdrs : List Str) :
    Option BObs :=
  if skip then some ⟨true, 200, false, []⟩ else basicAuth V dec hdrs

def defaultRealm : Str := "Restricted".toList

/-- value of the WWW-Authenticate header of a 401: `basic realm=` followed by the bare word
    `Restricted` for the default realm (an empty `Realm` is replaced by it in the constructor, and
    `BasicAuth(fn)` uses it), otherwise by `strconv.Quote(config.Realm)`, which is passed in
    (`quoted`, computed by the harness with the stdlib function). -/
def wwwValue (realm quoted : Str) : Str :=
  "basic realm=".toList ++ (if realm = [] ∨ realm = defaultRealm then defaultRealm else quoted)

/-! ### the request BasicAuth looks at (round 6)

The whole request head is an input: method and every header line (name in net/http's canonical
form, value).  BasicAuth consults nothing but the values of `Authorization`; the method, CORS-
preflight-looking headers (`Access-Control-Request-Method`, `Origin`), `Upgrade`, `X-Requested-With`,
`X-Forwarded-*`, … open no way past the validator. -/

def authorizationLit : Str := "Authorization".toList

structure HReq where
  method : Str
  headers : List (Str × Str)       -- in the order net/http keeps the values of one name
deriving DecidableEq, Repr, Inhabited

/-- `req.Header.Values(name)` for a canonical `name` -/
def HReq.values (r : HReq) (name : Str) : List Str := (r.headers.filter fun h => h.1 = name).map (·.2)

/-- BasicAuth on a whole request -/
def basicAuthReq (skip : Bool) (V : Str → Str → Outcome) (dec : Str → Option Str) (r : HReq) : Option BObs :=
  basicAuthMW skip V dec (r.values authorizationLit)

/-! ## KeyAuth: configuration -/

inductive Kind where
  | header | query | form | cookie | param
deriving DecidableEq, Repr, Inhabited

structure Src where
  kind : Kind
  name : Str
  pre : Str            -- cut-prefix (header sources only; "" otherwise)
deriving DecidableEq, Repr, Inhabited

/-- one element of `strings.Split(lookups, ",")`:
    `none` = createExtractors returns an error (the constructor panics);
    `some none` = unknown source kind, silently ignored; `some (some s)` = an extractor -/
def parseSource (scheme : Str) (source : Str) : Option (Option Src) :=
  match splitOn ':' source with
  | k :: n :: more =>
    if k = "query".toList then some (some ⟨.query, n, []⟩)
    else if k = "param".toList then some (some ⟨.param, n, []⟩)
    else if k = "cookie".toList then some (some ⟨.cookie, n, []⟩)
    else if k = "form".toList then some (some ⟨.form, n, []⟩)
    else if k = "header".toList then
      match more with
      | p :: _ => some (some ⟨.header, n, p⟩)
      | [] =>
        if scheme ≠ [] ∧ n = authorizationLit then
          some (some ⟨.header, n, if hasSuffixSpace scheme then scheme else scheme ++ [' ']⟩)
        else some (some ⟨.header, n, []⟩)
    else some none
  | _ => none

def parseSources (scheme : Str) : List Str → Option (List Src)
  | [] => some []
  | s :: r =>
    match parseSource scheme s, parseSources scheme r with
    | some (some x), some xs => some (x :: xs)
    | some none, some xs => some xs
    | _, _ => none

/-- `createExtractors(lookups, authScheme)`: the empty lookup string gives no extractor and no error
    (extractor.go:51-53); reachable only through the exported `CreateExtractors("")`, because
    `KeyAuthWithConfig` replaces an empty KeyLookup by its default first -/
def createExtractors (lookups scheme : Str) : Option (List Src) :=
  if lookups = [] then some [] else parseSources scheme (splitOn ',' lookups)

def defaultScheme : Str := "Bearer".toList
def defaultLookup : Str := "header:Authorization".toList

/-- `KeyAuthWithConfig` defaults + `createExtractors` -/
def parseLookups (lookups scheme : Str) : Option (List Src) :=
  let scheme := if scheme = [] then defaultScheme else scheme
  let lookups := if lookups = [] then defaultLookup else lookups
  createExtractors lookups scheme

/-! ## KeyAuth: extractors -/

inductive ExtErr where
  | headerMissing | headerInvalid | queryMissing | cookieMissing | formMissing | paramMissing
deriving DecidableEq, Repr, Inhabited

/-- result of one extractor call -/
inductive Ext where
  | panic
  | fail (e : ExtErr)
  | keys (ks : List Str)
deriving DecidableEq, Repr, Inhabited

def extractorLimit : Nat := 20

/-- the `for i, value := range values` loop of `valuesFromHeader`; `none` = panic -/
def hdrLoop (pre : Str) : Nat → List Str → Option (List Str)
  | _, [] => some []
  | i, v :: vs =>
    if pre.length = 0 then
      if i ≥ extractorLimit - 1 then some [v]
      else match hdrLoop pre (i + 1) vs with
        | none => none
        | some ks => some (v :: ks)
    else if v.length > pre.length then
      match sliceTo? v pre.length with
      | none => none
      | some a =>
        if eqFold a pre then
          match sliceFrom? v pre.length with
          | none => none
          | some k =>
            if i ≥ extractorLimit - 1 then some [k]
            else match hdrLoop pre (i + 1) vs with
              | none => none
              | some ks => some (k :: ks)
        else hdrLoop pre (i + 1) vs
    else hdrLoop pre (i + 1) vs

/-- the `for i, cookie := range cookies` loop of `valuesFromCookie` -/
def cookieLoop (name : Str) : Nat → List (Str × Str) → List Str
  | _, [] => []
  | i, (n, v) :: cs =>
    if name = n then
      if i ≥ extractorLimit - 1 then [v] else v :: cookieLoop name (i + 1) cs
    else cookieLoop name (i + 1) cs

/-- `if len(result) > extractorLimit-1 { result = result[:extractorLimit] }` -/
def capValues (vs : List Str) : Option (List Str) :=
  if vs.length > extractorLimit - 1 then
    (if extractorLimit ≤ vs.length then some (vs.take extractorLimit) else none)
  else some vs

/-- one extractor on what net/http found at its location -/
def extract (s : Src) (d : List (Str × Str)) : Ext :=
  match s.kind with
  | .header =>
    let values := d.map (·.2)
    if values.length = 0 then .fail .headerMissing
    else match hdrLoop s.pre 0 values with
      | none => .panic
      | some [] => if s.pre.length > 0 then .fail .headerInvalid else .fail .headerMissing
      | some ks => .keys ks
  | .query =>
    let values := d.map (·.2)
    if values.length = 0 then .fail .queryMissing
    else match capValues values with
      | none => .panic
      | some ks => .keys ks
  | .form =>
    let values := d.map (·.2)
    if values.length = 0 then .fail .formMissing
    else match capValues values with
      | none => .panic
      | some ks => .keys ks
  | .cookie =>
    if d.length = 0 then .fail .cookieMissing
    else match cookieLoop s.name 0 d with
      | [] => .fail .cookieMissing
      | ks => .keys ks
  | .param =>
    -- `for i, p := range c.ParamNames()`: same loop shape as the cookie extractor
    match cookieLoop s.name 0 d with
    | [] => .fail .paramMissing
    | ks => .keys ks

/-! ## KeyAuth: validator loops and error mapping -/

/-- `lastValidatorErr` -/
inductive VErr where
  | invalid                 -- errors.New("invalid key")
  | verr (e : VE)           -- the validator's own error
deriving DecidableEq, Repr, Inhabited

/-- result of the loops -/
structure Loop where
  accepted : Bool
  calls : List Str
  lastV : Option VErr
  lastE : Option ExtErr
deriving DecidableEq, Repr, Inhabited

/-- `for _, key := range keys` -/
def valKeys (V : Str → Outcome) : List Str → Option VErr → Bool × List Str × Option VErr
  | [], lv => (false, [], lv)
  | k :: ks, lv =>
    match V k with
    | .yes => (true, [k], lv)
    | .no =>
      let r := valKeys V ks (some .invalid)
      (r.1, k :: r.2.1, r.2.2)
    | .err e =>
      let r := valKeys V ks (some (.verr e))
      (r.1, k :: r.2.1, r.2.2)

/-- `for _, extractor := range extractors`; `none` = panic -/
def extLoop (V : Str → Outcome) : List (Src × List (Str × Str)) → Option VErr → Option ExtErr → Option Loop
  | [], lv, le => some ⟨false, [], lv, le⟩
  | (s, d) :: rest, lv, le =>
    match extract s d with
    | .panic => none
    | .fail e => extLoop V rest lv (some e)
    | .keys ks =>
      let r := valKeys V ks lv
      if r.1 then some ⟨true, r.2.1, r.2.2, le⟩
      else match extLoop V rest r.2.2 le with
        | none => none
        | some l => some { l with calls := r.2.1 ++ l.calls }

/-- what the configured `ErrorHandler` does -/
inductive EH where
  | absent
  | retNil                -- ignores the error
  | pass                  -- returns the error it was given
  | http (code : Nat)     -- returns echo.NewHTTPError(code)
deriving DecidableEq, Repr, Inhabited

structure KCfg where
  sources : List Src
  eh : EH
  cont : Bool             -- ContinueOnIgnoredError
deriving DecidableEq, Repr, Inhabited

structure KObs where
  ran : Bool
  status : Nat
  ehClass : Nat           -- 0 ErrorHandler not called; 1 *ErrKeyAuthMissing; 2 "invalid key"; 3 validator's error
  calls : List Str
deriving DecidableEq, Repr, Inhabited

/-- status echo's default error handler gives the error the middleware ends with -/
def errStatus : Option VErr → Nat
  | some (.verr e) => e.status
  | some .invalid => 500
  | none => 500               -- *ErrKeyAuthMissing is not an *echo.HTTPError

def errClass : Option VErr → Nat
  | none => 1
  | some .invalid => 2
  | some (.verr _) => 3

/-- after the loops; `none` = panic.  The one panic: without ErrorHandler, when no extractor ran at
    all (`lastExtractorErr == nil`, only possible when the KeyLookup names no known source kind, e.g.
    `"headers:X"`), `err.Error()` dereferences the nil `Err` of `&ErrKeyAuthMissing{}`. -/
def finish (cfg : KCfg) (l : Loop) : Option KObs :=
  if l.accepted then some ⟨true, 200, 0, l.calls⟩
  else
    match cfg.eh with
    | .absent =>
      -- `&echo.HTTPError{Code: 401, Internal: lastValidatorErr}`: the default error handler answers
      -- with the Internal error's code when that is itself an *echo.HTTPError
      match l.lastV with
      | some (.verr (.http c)) => some ⟨false, c, 0, l.calls⟩
      | some _ => some ⟨false, 401, 0, l.calls⟩
      | none =>
        match l.lastE with
        | some _ => some ⟨false, 400, 0, l.calls⟩
        | none => none
    | .retNil =>
      if cfg.cont then some ⟨true, 200, errClass l.lastV, l.calls⟩
      else some ⟨false, 200, errClass l.lastV, l.calls⟩     -- nil returned, nothing written: 200
    | .pass => some ⟨false, errStatus l.lastV, errClass l.lastV, l.calls⟩
    | .http c => some ⟨false, c, errClass l.lastV, l.calls⟩

/-- one request through KeyAuth; `data` = per source what net/http found there; `none` = panic -/
def keyAuth (V : Str → Outcome) (cfg : KCfg) (data : List (List (Str × Str))) : Option KObs :=
  match extLoop V (cfg.sources.zip data) none none with
  | none => none
  | some l => finish cfg l

/-- the whole `KeyAuthWithConfig` closure: the Skipper is consulted before any extractor runs -/
def keyAuthMW (skip : Bool) (V : Str → Outcome) (cfg : KCfg) (data : List (List (Str × Str))) :
    Option KObs :=
  if skip then some ⟨true, 200, 0, []⟩ else keyAuth V cfg data

/-- `KeyAuth(fn)`: `DefaultKeyAuthConfig` with the validator filled in — lookup
    `header:Authorization`, scheme `Bearer`, no ErrorHandler -/
def keyCtorCfg : Option KCfg :=
  match parseLookups [] [] with
  | none => none
  | some srcs => some ⟨srcs, .absent, false⟩

/-! ## several instances on the path of one request (round 5)

`e.Use(BasicAuth(outer))` plus a group- or route-level `BasicAuth(inner)`, KeyAuth behind BasicAuth
on the same `Authorization` header, KeyAuth twice: echo runs them outermost first, an instance that
does not call `next` ends the request.  Every instance reads THE REQUEST AS IT WAS SENT — no
instance consumes, rewrites or removes the credentials another one is going to look at — so in the
model each layer is evaluated on the located data of the original request and the stack is the
conjunction of the layers. -/

/-- what one instance did -/
structure LObs where
  ran : Bool
  status : Nat
  www : Str                    -- WWW-Authenticate value it set ([] = none)
  ehClass : Nat                -- KeyAuth: class of the error its ErrorHandler saw (0 = not called)
  calls : List (Str × Str)     -- validator call log (KeyAuth: (key, []))
deriving DecidableEq, Repr, Inhabited

inductive ALayer where
  | basic (skip : Bool) (realm quoted : Str) (V : Str → Str → Outcome) (hdrs : List Str)
  | key (skip : Bool) (V : Str → Outcome) (cfg : KCfg) (data : List (List (Str × Str)))

/-- one instance on the request, on its own; `none` = panic -/
def ALayer.run (dec : Str → Option Str) : ALayer → Option LObs
  | .basic skip realm quoted V hdrs =>
    match basicAuthMW skip V dec hdrs with
    | none => none
    | some o => some ⟨o.ran, o.status, if o.www then wwwValue realm quoted else [], 0, o.calls⟩
  | .key skip V cfg data =>
    match keyAuthMW skip V cfg data with
    | none => none
    | some o => some ⟨o.ran, o.status, [], o.ehClass, o.calls.map fun k => (k, [])⟩

structure SObs where
  ran : Bool
  status : Nat
  www : Str
  layers : List (Nat × List (Str × Str))   -- per instance: ehClass and call log (not reached: 0, [])
deriving DecidableEq, Repr, Inhabited

/-- one request through a stack of instances (outermost first) in front of a handler answering 200 -/
def authStack (dec : Str → Option Str) : List ALayer → Option SObs
  | [] => some ⟨true, 200, [], []⟩
  | l :: rest =>
    match l.run dec with
    | none => none
    | some o =>
      if o.ran then
        match authStack dec rest with
        | none => none
        | some r => some { r with layers := (o.ehClass, o.calls) :: r.layers }
      else some ⟨false, o.status, o.www, (o.ehClass, o.calls) :: rest.map fun _ => (0, [])⟩

/-! ## the state of the response when the middleware is entered (round 7)

A middleware registered earlier may already have started the response (`WriteHeader` / `Write` /
`Flush`: streaming helpers, early flush) before calling `next`.  Neither BasicAuth nor KeyAuth looks
at that: the decision who reaches the handler is the same; only what the client SEES differs —
the status already on the wire stays, a challenge set afterwards is not sent.  `committed` = the
status written before the middleware ran (`none`: response untouched). -/

def commitB (committed : Option Nat) (o : BObs) : BObs :=
  match committed with
  | none => o
  | some st => { o with status := st, www := false }

def commitK (committed : Option Nat) (o : KObs) : KObs :=
  match committed with
  | none => o
  | some st => { o with status := st }

def commitS (committed : Option Nat) (o : SObs) : SObs :=
  match committed with
  | none => o
  | some st => { o with status := st, www := [] }

/-! ## wire -/
open Wire

def pOutcome : P Outcome := do
  let n ← nat
  pure (if n = 0 then .no else if n = 1 then .yes else if n = 500 then .err .plain else .err (.http n))

def lookup2 (dflt : Outcome) (tbl : List ((Str × Str) × Outcome)) (u p : Str) : Outcome :=
  match tbl.find? (fun e => e.1 = (u, p)) with
  | some e => e.2
  | none => dflt

def lookup1 (dflt : Outcome) (tbl : List (Str × Outcome)) (k : Str) : Outcome :=
  match tbl.find? (fun e => e.1 = k) with
  | some e => e.2
  | none => dflt

def pEH : P EH := do
  let n ← nat
  pure (if n = 0 then .absent else if n = 1 then .retNil else if n = 2 then .pass else .http n)

def pPair : P (Str × Str) := do
  let a ← str
  let b ← str
  pure (a, b)

inductive Op where
  | basic (ctor : Nat) (skip : Bool) (realm quoted : Str) (req : HReq) (dflt : Outcome)
          (tbl : List ((Str × Str) × Outcome))
  | key (ctor : Nat) (skip : Bool) (lookups scheme : Str) (eh : EH) (cont : Bool)
        (data : List (List (Str × Str))) (dflt : Outcome) (tbl : List (Str × Outcome))
  | extractors (lookups : Str) (data : List (List (Str × Str)))
  | stack (layers : List Op)

def pBasicBody : P Op := do
  let ctor ← nat
  let skip ← bool
  let realm ← str
  let quoted ← str
  let method ← str
  let headers ← list pPair
  let dflt ← pOutcome
  let tbl ← list (do let k ← pPair; let o ← pOutcome; pure (k, o))
  pure (.basic ctor skip realm quoted ⟨method, headers⟩ dflt tbl)

def pKeyBody : P Op := do
  let ctor ← nat
  let skip ← bool
  let lookups ← str
  let scheme ← str
  let eh ← pEH
  let cont ← bool
  let data ← list (list pPair)
  let dflt ← pOutcome
  let tbl ← list (do let k ← str; let o ← pOutcome; pure (k, o))
  pure (.key ctor skip lookups scheme eh cont data dflt tbl)

/-- one instance of a stack: `0 <basic body>` or `1 <key body>` -/
def pLayerOp : P Op := do
  let mode ← nat
  if mode = 0 then pBasicBody else pKeyBody

/-- `0` = response untouched, otherwise the status an earlier middleware has already written -/
def pCommitted : P (Option Nat) := do
  let n ← nat
  pure (if n = 0 then none else some n)

def pOp : P Op := do
  let mode ← nat
  if mode = 0 then pBasicBody
  else if mode = 1 then pKeyBody
  else if mode = 2 then
    let lookups ← str
    let data ← list (list pPair)
    pure (.extractors lookups data)
  else
    let layers ← list pLayerOp
    pure (.stack layers)

/-- the key configuration an op describes; `none` = the constructor panics -/
def keyCfgOf (ctor : Nat) (lookups scheme : Str) (eh : EH) (cont : Bool) : Option KCfg :=
  if ctor ≥ 2 then none
  else if ctor = 1 then keyCtorCfg
  else match parseLookups lookups scheme with
    | none => none
    | some srcs => some ⟨srcs, eh, cont⟩

/-- `none` = some constructor panics (or the op is not a layer) -/
def layersOf : List Op → Option (List ALayer)
  | [] => some []
  | op :: rest =>
    match layersOf rest with
    | none => none
    | some ls =>
      match op with
      | .basic ctor skip realm quoted req dflt tbl =>
        if ctor ≥ 2 then none
        else some (.basic skip (if ctor = 1 then [] else realm) quoted (lookup2 dflt tbl) (req.values authorizationLit) :: ls)
      | .key ctor skip lookups scheme eh cont data dflt tbl =>
        match keyCfgOf ctor lookups scheme eh cont with
        | none => none
        | some cfg => if cfg.sources.length ≠ data.length then none else some (.key skip (lookup1 dflt tbl) cfg data :: ls)
      | _ => none

def encSObs (o : SObs) : String :=
  render ([encBool o.ran, toString o.status] ++
    encList (fun l => toString l.1 :: encList (fun c => [encStr c.1, encStr c.2]) l.2) o.layers ++ [encStr o.www])

def encBObs (o : BObs) : String :=
  render ([encBool o.ran, toString o.status, encBool o.www] ++
    encList (fun c => [encStr c.1, encStr c.2]) o.calls)

def encKObs (o : KObs) : String :=
  render ([encBool o.ran, toString o.status, toString o.ehClass] ++
    encList (fun c => [encStr c]) o.calls)

def encExt : Ext → Option (List String)
  | .panic => none
  | .fail _ => some ["0"]            -- the error classes differ only in their message text
  | .keys ks => some ("1" :: encList (fun k => [encStr k]) ks)

def encExts : List Ext → Option (List String)
  | [] => some []
  | e :: r =>
    match encExt e, encExts r with
    | some a, some b => some (a ++ b)
    | _, _ => none

/-- `ctor`: 0 = `…WithConfig(config)`, 1 = the convenience constructor `BasicAuth(fn)` / `KeyAuth(fn)`
    (all other fields at their defaults), 2 / 3 = the same two with a nil validator (the constructor panics).

    every line starts with `committed` (0 = response untouched when the middleware is entered, else the status
    already written by an earlier middleware).
    basic: `0 ctor skip realm quoted method nhdr (name value)* dflt ntbl (u p outcome)*`  (the whole request head)
           →  `ran status www ncalls (u p)* wwwValue`
    key:   `1 ctor skip lookups scheme eh cont nsrc (npairs (name value)*)* dflt ntbl (key outcome)*`
           →  `ran status ehClass ncalls key*`;  `panic` / `config-panic` otherwise
    extractors (exported `CreateExtractors(lookups)`, each extractor applied to the request):
           `2 lookups nsrc (npairs (name value)*)*`  →  `n (0 | 1 nkeys key*)*` / `config-error`
    stack (several instances on one request, outermost first; each with what net/http locates in the
           request AS SENT): `3 n (0 <basic body> | 1 <key body>)*`
           →  `ran status n (ehClass ncalls (u p)*)* wwwValue` / `panic` / `config-panic` -/
def runLine (line : String) : String :=
  match parseLine (do let c ← pCommitted; let op ← pOp; pure (c, op)) line with
  | none => "bad-op"
  | some (committed, .basic ctor skip realm quoted req dflt tbl) =>
    if ctor ≥ 2 then "config-panic"
    else
      let realm := if ctor = 1 then [] else realm
      match basicAuthReq skip (lookup2 dflt tbl) b64decode req with
      | none => "panic"
      | some o0 =>
        let o := commitB committed o0
        render [encBObs o, encStr (if o.www then wwwValue realm quoted else [])]
  | some (committed, .key ctor skip lookups scheme eh cont data dflt tbl) =>
    if ctor ≥ 2 then "config-panic"
    else
      let cfg? : Option KCfg :=
        if ctor = 1 then keyCtorCfg
        else match parseLookups lookups scheme with
          | none => none
          | some srcs => some ⟨srcs, eh, cont⟩
      match cfg? with
      | none => "config-panic"
      | some cfg =>
        if cfg.sources.length ≠ data.length then "bad-op"
        else match keyAuthMW skip (lookup1 dflt tbl) cfg data with
          | none => "panic"
          | some o => encKObs (commitK committed o)
  | some (_, .extractors lookups data) =>
    match createExtractors lookups [] with
    | none => "config-error"
    | some srcs =>
      if srcs.length ≠ data.length then "bad-op"
      else match encExts ((srcs.zip data).map fun sd => extract sd.1 sd.2) with
        | none => "panic"
        | some toks => render (toString srcs.length :: toks)
  | some (committed, .stack ops) =>
    match layersOf ops with
    | none => "config-panic"
    | some ls =>
      match authStack b64decode ls with
      | none => "panic"
      | some o => encSObs (commitS committed o)

end C13
