import EchoModel.Wire
/-!
# Router, layer L3 — the radix tree of router.go as it is

`insertAt`/`insertRoute` mirror `Router.insertNode`/`Router.insert`; `findNode`/`find` mirror
`Router.Find` (static → Param → Any blocks, `backtrackToNextNodeKind`, the tail that turns
the best node into 405 / OPTIONS / custom 404).  Strings are `List Char` (one `Char` per
byte).  Parent pointers are the recursion stack: "backtrack to the parent and `goto`
Param/Any" is the return into the caller, which continues with the block selected by the
**kind field of the node it returns from**, exactly like `previous.kind + 1` in Go.

The value slice (`ctx.pvalues`) is threaded through explicitly with arbitrary initial
content; a write outside its bounds is the `panicked` outcome (Go: index out of range).
-/
namespace Router

inductive Kind | static | param | any
deriving DecidableEq, Repr, Inhabited

abbrev Str := List Char

structure RouteMethod where
  ppath : Str            -- pristine path as registered
  pnames : List Str      -- parameter names
  hid : Nat              -- identity of the handler
deriving DecidableEq, Repr, Inhabited

inductive Node where
  | mk (kind : Kind) (pre : Str)
       (methods : List (Str × RouteMethod))   -- routeMethods; at most one entry per method
       (nf : Option RouteMethod)              -- notFoundHandler
       (originalPath : Str) (paramsCount : Nat)
       (statics : List Node) (param : Option Node) (any : Option Node) : Node
deriving Repr, Inhabited

namespace Node
def kind : Node → Kind | mk k .. => k
def pre : Node → Str | mk _ p .. => p
def methods : Node → List (Str × RouteMethod) | mk _ _ m .. => m
def nf : Node → Option RouteMethod | mk _ _ _ n .. => n
def originalPath : Node → Str | mk _ _ _ _ o .. => o
def paramsCount : Node → Nat | mk _ _ _ _ _ c .. => c
def statics : Node → List Node | mk _ _ _ _ _ _ s _ _ => s
def param : Node → Option Node | mk _ _ _ _ _ _ _ p _ => p
def any : Node → Option Node | mk _ _ _ _ _ _ _ _ a => a
/-- `isHandler`: at least one real method registered (RouteNotFound does not count) -/
def isHandler (n : Node) : Bool := !n.methods.isEmpty
def label (n : Node) : Option Char := n.pre.head?
end Node

def routeNotFound : Str := "echo_route_not_found".toList

def lcp : Str → Str → Nat
  | a :: as, b :: bs => if a = b then lcp as bs + 1 else 0
  | _, _ => 0

/-- `node.addMethod`: returns the updated (methods, notFoundHandler) -/
def addMethod (ms : List (Str × RouteMethod)) (nf : Option RouteMethod)
    (method : Str) (rm : RouteMethod) : List (Str × RouteMethod) × Option RouteMethod :=
  if method = routeNotFound then (ms, some rm)
  else ((ms.filter (·.1 ≠ method)) ++ [(method, rm)], nf)

/-- `newNode` for a fresh node without children (`rm = none`: a routeMethod without handler) -/
def newLeaf (k : Kind) (pre : Str) (method : Str) (rm : Option RouteMethod) : Node :=
  match rm with
  | some r =>
    let (ms, nf) := addMethod [] none method r
    .mk k pre ms nf r.ppath r.pnames.length [] none none
  | none => .mk k pre [] none [] 0 [] none none

/- `Router.insertNode` below node; `search` is the part of the path not consumed above it.
   The four cases of the Go loop: root take-over, split, descend / create child, exists. -/
mutual
def insertAt (method : Str) (search : Str) (t : Kind) (rm : Option RouteMethod) : Node → Node
  | .mk k p ms nf op pc st pa an =>
    let l := lcp search p
    if l = 0 then
      -- "At root node"
      match rm with
      | some r =>
        let (ms', nf') := addMethod ms nf method r
        .mk t search ms' nf' r.ppath r.pnames.length st pa an
      | none => .mk k search ms nf op pc st pa an
    else if l < p.length then
      -- split
      let child := Node.mk k (p.drop l) ms nf op pc st pa an
      if l = search.length then
        match rm with
        | some r =>
          let (ms', nf') := addMethod [] none method r
          .mk t (p.take l) ms' nf' r.ppath r.pnames.length [child] none none
        | none => .mk t (p.take l) [] none [] 0 [child] none none
      else
        .mk .static (p.take l) [] none [] 0 [child, newLeaf t (search.drop l) method rm] none none
    else if l < search.length then
      let rest := search.drop l
      let c := rest.headD ' '
      -- findChildWithLabel: static children first (kind-blind), then the param / any slot
      if st.any (fun n => n.label = some c) then
        .mk k p ms nf op pc (insertList method rest t rm st) pa an
      else if c = ':' ∧ pa.isSome then
        .mk k p ms nf op pc st (insertOpt method rest t rm pa) an
      else if c = '*' ∧ an.isSome then
        .mk k p ms nf op pc st pa (insertOpt method rest t rm an)
      else
        let n := newLeaf t rest method rm
        match t with
        | .static => .mk k p ms nf op pc (st ++ [n]) pa an
        | .param => .mk k p ms nf op pc st (some n) an
        | .any => .mk k p ms nf op pc st pa (some n)
    else
      -- node already exists
      match rm with
      | some r =>
        let (ms', nf') := addMethod ms nf method r
        .mk k p ms' nf' r.ppath r.pnames.length st pa an
      | none => .mk k p ms nf op pc st pa an
def insertList (method : Str) (rest : Str) (t : Kind) (rm : Option RouteMethod) : List Node → List Node
  | [] => []
  | c :: cs =>
    if c.label = rest.head? then insertAt method rest t rm c :: cs
    else c :: insertList method rest t rm cs
def insertOpt (method : Str) (rest : Str) (t : Kind) (rm : Option RouteMethod) : Option Node → Option Node
  | none => none
  | some c => some (insertAt method rest t rm c)
end

def emptyTree : Node := .mk .static [] [] none [] 0 [] none none

/-- the scan of `Router.insert`.  `done` is the part of the path already scanned, in the form the
    loop has given it so far (escaping backslashes removed, parameter names cut out), `todo` the
    part still to scan; Go's index `i` is `done.length` and its `path` is `done ++ todo`.  A colon is
    literal when the byte before it is a backslash (Go looks back and deletes the backslash; here the
    backslash is dropped when it is met).  Fuel bounds the number of iterations. -/
def insertLoop (method : Str) (ppath : Str) (hid : Nat) :
    Nat → Node → Str → Str → List Str → Node × Str × List Str
  | 0, t, done, _, pnames => (t, done, pnames)
  | _ + 1, t, done, [], pnames => (t, done, pnames)
  | fuel + 1, t, done, c :: rest, pnames =>
    if c = '\\' ∧ rest.head? = some ':' then
      -- escaped colon: drop the backslash, keep the colon as literal text
      insertLoop method ppath hid fuel t (done ++ [':']) rest.tail pnames
    else if c = ':' then
      let t := insertAt method done .static none t
      let pnames := pnames ++ [rest.takeWhile (· ≠ '/')]
      let rest' := rest.dropWhile (· ≠ '/')
      let t :=
        if rest'.isEmpty then insertAt method (done ++ [':']) .param (some ⟨ppath, pnames, hid⟩) t
        else insertAt method (done ++ [':']) .param none t
      -- Go continues at `j + 1`: the byte that ended the name is not examined
      match rest' with
      | [] => (t, done ++ [':'], pnames)
      | d :: r => insertLoop method ppath hid fuel t (done ++ [':', d]) r pnames
    else if c = '*' then
      let t := insertAt method done .static none t
      let pnames := pnames ++ ["*".toList]
      let t := insertAt method (done ++ ['*']) .any (some ⟨ppath, pnames, hid⟩) t
      insertLoop method ppath hid fuel t (done ++ ['*']) rest pnames
    else insertLoop method ppath hid fuel t (done ++ [c]) rest pnames

/-- `normalizePathSlash` -/
def normalizeSlash (p : Str) : Str :=
  match p with
  | [] => ['/']
  | c :: _ => if c = '/' then p else '/' :: p

/-- `Router.insert` (handler non-nil) -/
def insertRoute (tree : Node) (method : Str) (path0 : Str) (hid : Nat) : Node :=
  let ppath := normalizeSlash path0
  let (t, path, pnames) := insertLoop method ppath hid (ppath.length + 2) tree [] ppath []
  insertAt method path .static (some ⟨ppath, pnames, hid⟩) t

/-- number of parameter names of a registered pattern (what `insertNode` feeds `maxParam`) -/
def paramCountOf (path0 : Str) : Nat :=
  let ppath := normalizeSlash path0
  (insertLoop [] ppath 0 (ppath.length + 2) emptyTree [] ppath []).2.2.length

structure Route where
  method : Str
  path : Str
  hid : Nat
deriving Repr, Inhabited, DecidableEq

def build (rs : List Route) : Node :=
  rs.foldl (fun t r => insertRoute t r.method r.path r.hid) emptyTree

def maxParam (rs : List Route) : Nat :=
  rs.foldl (fun a r => max a (paramCountOf r.path)) 0

/-! ## Find -/

/-- what Find remembers of `previousBestMatchNode` -/
structure Best where
  methods : List (Str × RouteMethod)
  nf : Option RouteMethod
  originalPath : Str
deriving Repr, Inhabited

def bestOf (n : Node) : Best := ⟨n.methods, n.nf, n.originalPath⟩

structure St where
  si : Nat                 -- searchIndex
  pi : Nat                 -- paramIndex
  pv : List Str            -- ctx.pvalues
  best : Option Best       -- previousBestMatchNode
  panicked : Bool := false -- an index expression went out of range
deriving Repr, Inhabited

inductive Res where
  | hit (rm : RouteMethod)   -- matchedRouteMethod set, loop left with `break`
  | leave                    -- the node was left by backtracking; the parent goes on
deriving Repr, Inhabited

def findMethod (ms : List (Str × RouteMethod)) (m : Str) : Option RouteMethod :=
  (ms.find? (·.1 = m)).map (·.2)

/-- `paramValues[i] = v` with Go's bounds check -/
def setVal (st : St) (i : Int) (v : Str) : St :=
  if i < 0 ∨ i.toNat ≥ st.pv.length then { st with panicked := true }
  else { st with pv := st.pv.set i.toNat v }

/-- the restore part of `backtrackToNextNodeKind(anyKind)` when leaving a node of kind `k`
    whose prefix has length `preLen` -/
def leaveRestore (k : Kind) (preLen : Nat) (st : St) : St :=
  match k with
  | .static => { st with si := st.si - preLen }
  | _ =>
    if st.pi = 0 ∨ st.pi - 1 ≥ st.pv.length then { st with panicked := true }
    else
      let pi := st.pi - 1
      { st with pi := pi, si := st.si - (st.pv.getD pi []).length, pv := st.pv.set pi [] }

/-- the Any block at a node whose any-child is `an`; `some` = matched -/
def anyBlock (path : Str) (m : Str) (an : Option Node) (st : St) : St × Option RouteMethod :=
  match an with
  | none => (st, none)
  | some c =>
    let search := path.drop st.si
    let st := setVal st ((c.paramsCount : Int) - 1) search
    let st := { st with pi := st.pi + 1, si := st.si + search.length }
    match findMethod c.methods m with
    | some h => (st, some h)
    | none =>
      let st := { st with best := if st.best.isNone then some (bestOf c) else st.best }
      match c.nf with
      | some h => (st, some h)
      | none => (leaveRestore c.kind c.pre.length st, none)   -- back from the any child

/-- entering the param child: store the value, advance -/
def enterParam (path : Str) (leaf : Bool) (st : St) : St :=
  let search := path.drop st.si
  let i := if leaf then search.length else (search.takeWhile (· ≠ '/')).length
  let st := setVal st (st.pi : Int) (search.take i)
  { st with pi := st.pi + 1, si := st.si + i }

def isLeafNode (n : Node) : Bool := n.statics.isEmpty && n.param.isNone && n.any.isNone

/-- (1) "Finish routing if is no request path remaining to search": remember the node as best
    match when it has handlers, and match the method (or the custom not-found record of a node
    without handlers) -/
def nodeEnd (m : Str) (ms : List (Str × RouteMethod)) (nf : Option RouteMethod) (op : Str)
    (atEnd : Bool) (st : St) : St × Option RouteMethod :=
  let st := { st with best := if atEnd ∧ !ms.isEmpty ∧ st.best.isNone then some ⟨ms, nf, op⟩ else st.best }
  (st, if atEnd then (if !ms.isEmpty then findMethod ms m else nf) else none)

/-- where the Find loop goes on after a block -/
inductive Next where
  | hit (rm : RouteMethod)
  | param | any | leave
deriving Repr, Inhabited

/-- `previous.kind + 1` of `backtrackToNextNodeKind` (leaving an any node: keep backtracking) -/
def nextAfter : Kind → Next
  | .static => .param
  | .param => .any
  | .any => .leave

/-- outcome of the Static block given the visit of the matching static child (if any) -/
def staticBlock (r : Option (Kind × St × Res)) (st : St) : St × Next :=
  match r with
  | some (_, st', .hit rm) => (st', .hit rm)
  | some (ck, st', .leave) => (st', nextAfter ck)
  | none => (st, .param)

/-- outcome of the Param block given the visit of the param child (if any) -/
def paramBlock (r : Option (St × Res)) (st : St) : St × Next :=
  match r with
  | some (st', .hit rm) => (st', .hit rm)
  | some (st', .leave) => (st', .any)
  | none => (st, .any)

/-- `backtrackToNextNodeKind(anyKind)` out of a node of kind `k` -/
def leaveOut (k : Kind) (preLen : Nat) (st : St) : St × Res :=
  if st.panicked then (st, .leave) else (leaveRestore k preLen st, .leave)

/-- the Any block and the exit of the node -/
def finishNode (path : Str) (m : Str) (k : Kind) (preLen : Nat) (an : Option Node) (st : St) :
    Next → St × Res
  | .hit rm => (st, .hit rm)
  | .leave => leaveOut k preLen st
  | _ =>
    match anyBlock path m an st with
    | (st', some rm) => (st', .hit rm)
    | (st', none) => leaveOut k preLen st'

mutual
/-- one visit of a node by the Find loop, from the prefix comparison to the moment the loop
    either breaks with a match or backtracks out of the node -/
def findNode (path : Str) (m : Str) : Node → St → St × Res
  | .mk k pre ms nf op _pc statics pa an, st =>
    if st.panicked then (st, .leave) else
    let l := if k = .static then lcp (path.drop st.si) pre else 0
    let pl := if k = .static then pre.length else 0
    if l ≠ pl then (st, .leave)           -- backtrack(staticKind): nothing to restore
    else
      let st := { st with si := st.si + l }
      match nodeEnd m ms nf op (path.drop st.si).isEmpty st with
      | (st, some rm) => (st, .hit rm)
      | (st, none) =>
        -- Static block
        match (match path.drop st.si with
               | c :: _ => staticBlock (findStatic path m c statics st) st
               | [] => (st, Next.param)) with
        | (st, .param) =>
          -- Param block (needs a non-empty rest of the path)
          if (path.drop st.si).isEmpty then finishNode path m k pre.length an st .any
          else
            match paramBlock (findParam path m pa st) st with
            | (st, nx) => finishNode path m k pre.length an st nx
        | (st, nx) => finishNode path m k pre.length an st nx
def findStatic (path : Str) (m : Str) (c : Char) : List Node → St → Option (Kind × St × Res)
  | [], _ => none
  | n :: ns, st =>
    if n.label = some c then
      let r := findNode path m n st
      some (n.kind, r.1, r.2)
    else findStatic path m c ns st
def findParam (path : Str) (m : Str) : Option Node → St → Option (St × Res)
  | none, _ => none
  | some c, st =>
    let st1 := enterParam path (isLeafNode c) st
    some (findNode path m c st1)
end

def methodOptions : Str := "OPTIONS".toList

/-- `updateAllowHeader`: OPTIONS first, then every other registered method (as a set) -/
def allowOf (ms : List (Str × RouteMethod)) : List Str :=
  methodOptions :: (ms.map (·.1)).filter (· ≠ methodOptions)

inductive Outcome where
  | dispatch (rm : RouteMethod) (values : List Str)   -- a registered handler (incl. RouteNotFound routes)
  | notFound (path : Str)                             -- echo.NotFoundHandler
  | methodNotAllowed (path : Str) (allow : List Str)  -- 405, or the OPTIONS responder
  | panic
deriving Repr, Inhabited

/-- `Router.Find` on tree `t` with the context's value slice `pv` -/
def find (t : Node) (m : Str) (path : Str) (pv : List Str) : Outcome :=
  let (st, r) := findNode path m t ⟨0, 0, pv, none, false⟩
  if st.panicked then .panic else
  match r with
  | .hit rm =>
    if rm.pnames.length > st.pv.length then .panic
    else .dispatch rm (st.pv.take rm.pnames.length)
  | .leave =>
    match st.best with
    | none => .notFound []
    | some b =>
      match b.nf with
      | some rm =>
        if rm.pnames.length > st.pv.length then .panic
        else .dispatch rm (st.pv.take rm.pnames.length)
      | none =>
        if !b.methods.isEmpty then .methodNotAllowed b.originalPath (allowOf b.methods)
        else .notFound b.originalPath

end Router
