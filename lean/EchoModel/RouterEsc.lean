import EchoModel.RouterInv
/-!
# Tables WITH escaped colons that the radix tree represents faithfully

`okPattern` (RouterInv) excludes every pattern with an escaped colon `\:` because a literal colon and a
`:param` at the same tree position share the child label `':'` (findings F2/F3).  A table whose literal colons
never meet a parameter at the same position is handled correctly.  `okTableE` is that condition:

* `okPatternE`  every pattern has no text after `*` (escaped colons allowed);
* `escFree`     no two routes whose token lists agree up to some position and continue there with a literal
                colon in one and a parameter in the other (`conflict`).

The theorem `build_tableInvariantE` (`EchoProofs/Tree/Esc/Final.lean`) shows that `okTableE` is sufficient for
`tableInvariantD rs = (true, true)`.
-/
namespace Router.Tree
open Router Router.Spec

/-- like `okPatternAux`, but an escaped colon is allowed (it is literal text).  Scans like `normAux`. -/
def okPatternEAux : Nat → Str → Bool
  | 0, _ => true
  | _ + 1, [] => true
  | f + 1, c :: rest =>
    if c = '\\' ∧ rest.head? = some ':' then okPatternEAux f rest.tail
    else if c = ':' then okPatternEAux f (rest.dropWhile (· ≠ '/'))
    else if c = '*' then rest.isEmpty
    else okPatternEAux f rest

/-- a pattern without text after `*`; escaped colons allowed -/
def okPatternE (p : Str) : Bool :=
  let p := normalizeSlash p
  okPatternEAux (p.length + 1) p

/-- **escape conflict** of two token lists: at the first position where they differ, one has a literal colon
    and the other a parameter -/
def conflict : List Tok → List Tok → Bool
  | x :: a, y :: b =>
    if x = y then conflict a b
    else (x == .lit ':' && y == .param) || (x == .param && y == .lit ':')
  | _, _ => false

/-- no two routes of the table have an escape conflict -/
def escFree (rs : List Route) : Bool :=
  rs.all fun r1 => rs.all fun r2 => !conflict (norm r1.path).1 (norm r2.path).1

/-- every pattern is representable and literal colons never meet a parameter (re-registrations allowed) -/
def okTableE (rs : List Route) : Bool := rs.all (fun r => okPatternE r.path) && escFree rs

/-- the formulation with positions: tokens agree before position `k`, a literal colon in `a` and a parameter
    in `b` at position `k` -/
def conflictAt (a b : List Tok) (k : Nat) : Bool :=
  a.take k == b.take k && a[k]? == some (.lit ':') && b[k]? == some .param

/-! ### the residual set by structural recursion

`resid` (RouterInv) is compiled by well-founded recursion, so the kernel cannot evaluate it on a concrete tree.
`residS` is the same function by structural recursion (`residS_eq` in `EchoProofs/Tree/Esc/Sharp.lean`); it is used
only to evaluate `tableInvariantD` on the concrete witnesses of the sharpness examples. -/
mutual
def residS : Node → R
  | .mk k pre ms nf _ _ st pa an =>
    prepend (headToks k pre) ((ownEntries ms nf).map (fun e => ([], e)) ++ (residSL st ++ (residSO pa ++ residSO an)))
def residSL : List Node → R
  | [] => []
  | c :: cs => residS c ++ residSL cs
def residSO : Option Node → R
  | none => []
  | some c => residS c
end

/-- `tableInvariantD` with `residS` in place of `resid` -/
def tableInvariantDS (rs : List Route) : Bool × Bool :=
  let t := build rs
  (tiNode (maxParam rs) [] t && decide (t.kind = .static),
   (residS t).isPerm (initial ((dedupLast rs).map mkEntry)))

end Router.Tree
