import EchoModel.RouterWire
import EchoModel.RouterSpec
/-!
# C20 — reverse routing (router.go:159-185) and routing are inverse

`reverse` mirrors the byte loop of `Router.Reverse`: a backslash before a colon is skipped and
the colon written as literal text; at `*` or an unescaped `:` (while arguments remain) the
pattern is skipped up to the next `/` and the next argument written instead.
-/
namespace C20
open Wire Router

def reverseAux : Nat → Str → List Str → Str
  | 0, _, _ => []
  | _ + 1, [], _ => []
  | f + 1, c :: rest, args =>
    if c = '\\' ∧ rest.head? = some ':' then ':' :: reverseAux f rest.tail args
    else if c = ':' ∨ c = '*' then
      match args with
      | a :: args' => a ++ reverseAux f (rest.dropWhile (· ≠ '/')) args'
      | [] => c :: reverseAux f rest []
    else c :: reverseAux f rest args

/-- `Router.Reverse` for a route registered with path `p` (as stored: after `normalizePathSlash`) -/
def reverse (p : Str) (args : List Str) : Str :=
  let p := normalizeSlash p
  reverseAux (p.length + 1) p args

/-- line: `table idx nargs args*` → `url` followed by the outcome (L3 tree search) of
    requesting `url` with the method of route `idx` -/
def runLine (line : String) : String :=
  match parseLine (do let t ← pTable; let i ← nat; let a ← list str; pure (t, i, a)) line with
  | none => "bad-op"
  | some (t, i, a) =>
    match t[i]? with
    | none => "bad-op"
    | some r =>
      let url := reverse r.path a
      render (encStr url :: encOutcome (find (build t) r.method url (List.replicate (maxParam t) [])))

end C20
