import EchoModel.Wire
/-!
# C19 — Proxy: balancers, retry loop, rewrite rules
(middleware/proxy.go: commonBalancer.AddTarget/RemoveTarget, roundRobinBalancer.Next,
randomBalancer.Next, ProxyWithConfig retry loop; middleware/middleware.go:
rewriteRulesRegex / captureTokens / rewriteURL)

What is modelled and how stdlib pieces are treated

* `sync.Mutex`: every balancer operation is one atomic step of the model (`stepOp`); the
  interleaving semantics for the linearizability statement is `Conc` below.
* `math/rand`: the index drawn by `random.Intn(len)` is a *parameter* of `nextRandom`
  (the harness passes the name of the target the real balancer returned; the model looks the
  index up).  Theorems hold for every draw `< len`.
* the echo context store (`c.Get/c.Set("_round_robin_last_index")`) is an `Option Nat` per
  request/context.
* `httputil.ReverseProxy` + transport: abstracted to an oracle `alive : Target → Bool`
  (dial succeeds and the upstream answers / dial fails → `proxy.ErrorHandler` stores an
  `*echo.HTTPError{Code: 502}` under `_error`) and a per-request flag `canceled` (the client's
  context is cancelled → the stored error has code 499).  What the reverse proxy forwards is
  NOT modelled (harness oracle only).
* `regexp`: the rewrite rules built by `rewriteRulesRegex` are exactly the globs
  `lit (* lit)* $` (optionally `^`-anchored); `Glob.find` implements Go's leftmost-first
  search for that class (lazy `(.*?)`, `.` does not match `\n`, `$` = end of text) and
  `Glob.subst` implements `strings.NewReplacer("$1",v1,…).Replace`.  Validated by the
  correspondence run.  `url.Parse`/`ResolveReference` of the rewritten string is the identity
  on the *clean* request targets used in the compared stream (absolute path, valid escapes,
  no dot segments, no fragment); other inputs are oracle-only in the harness.
* Go map iteration order (`for k, v := range rewriteRegex`): the model takes the rules as a
  list and applies the first match; `C19_rewrite_order_irrelevant` shows the order is
  irrelevant when at most one rule matches (the compared stream uses such rule sets).
-/
namespace C19

structure Target where
  name : List Char
  url : Nat
deriving DecidableEq, Repr, Inhabited

/-- `roundRobinBalancer` (`commonBalancer.targets` + `i`); the random balancer ignores `i` -/
structure Bal where
  targets : List Target
  i : Nat
deriving DecidableEq, Repr, Inhabited

/-- result of `Next`: Go `nil`, a target, or an index-out-of-range panic -/
inductive Pick where
  | nil
  | tgt (t : Target)
  | panic
deriving DecidableEq, Repr, Inhabited

def hasName (ts : List Target) (name : List Char) : Bool := ts.any (fun t => t.name == name)

/-- `commonBalancer.AddTarget` -/
def addTarget (b : Bal) (t : Target) : Bal × Bool :=
  if hasName b.targets t.name then (b, false)
  else ({ b with targets := b.targets ++ [t] }, true)

/-- `commonBalancer.RemoveTarget`: removes the FIRST target with that name; `i` untouched -/
def removeTarget (b : Bal) (name : List Char) : Bal × Bool :=
  if hasName b.targets name then
    ({ b with targets := b.targets.eraseP (fun t => t.name == name) }, true)
  else (b, false)

/-- `b.targets[i]` with Go's bounds check -/
def pickAt (ts : List Target) (i : Nat) : Pick :=
  match ts[i]? with
  | some t => .tgt t
  | none => .panic

/-- `roundRobinBalancer.Next`; `last` is `c.Get("_round_robin_last_index")`.
    Returns the balancer, the context value afterwards and the pick. -/
def nextRR (b : Bal) (last : Option Nat) : Bal × Option Nat × Pick :=
  let n := b.targets.length
  if n = 0 then (b, last, .nil)
  else if n = 1 then (b, last, pickAt b.targets 0)
  else
    match last with
    | some l =>
      let i := if l + 1 ≥ n then 0 else l + 1
      (b, some i, pickAt b.targets i)
    | none =>
      let bi := if b.i ≥ n then 0 else b.i
      ({ b with i := bi + 1 }, some bi, pickAt b.targets bi)

/-- `randomBalancer.Next`; `draw` is the value of `b.random.Intn(len(b.targets))` -/
def nextRandom (b : Bal) (draw : Nat) : Pick :=
  let n := b.targets.length
  if n = 0 then .nil
  else if n = 1 then pickAt b.targets 0
  else pickAt b.targets draw

/-- index of the first target with a given name (used to recover the draw from what the real
    random balancer returned) -/
def idxOfName : List Target → List Char → Option Nat
  | [], _ => none
  | t :: ts, nm => if t.name == nm then some 0 else (idxOfName ts nm).map (· + 1)

/-! ## balancer operation sequences -/

/-- context store: context id ↦ last index -/
abbrev Ctxs := List (Nat × Nat)

def ctxGet (cs : Ctxs) (id : Nat) : Option Nat := (cs.find? (fun p => p.1 == id)).map (·.2)

def ctxSet (cs : Ctxs) (id : Nat) (v : Option Nat) : Ctxs :=
  match v with
  | some x => (id, x) :: cs.filter (fun p => p.1 != id)
  | none => cs.filter (fun p => p.1 != id)

inductive Op where
  | add (t : Target)
  | remove (name : List Char)
  | next (ctx : Nat) (hint : Option (List Char))   -- hint: name returned by the real random balancer
deriving Repr, Inhabited

inductive Res where
  | bool (b : Bool)
  | pick (p : Pick)
  | notMember          -- random balancer returned something that is not a current target
deriving DecidableEq, Repr, Inhabited

structure St where
  rr : Bool
  bal : Bal
  ctxs : Ctxs
deriving Repr, Inhabited

/-- `Next` of the configured balancer kind -/
def nextOf (rr : Bool) (b : Bal) (last : Option Nat) (hint : Option (List Char)) :
    Bal × Option Nat × Res :=
  if rr then
    let (b', l', p) := nextRR b last
    (b', l', .pick p)
  else
    match hint with
    | none => (b, last, .pick (nextRandom b 0))     -- only correct for ≤ 1 targets; the harness always hints otherwise
    | some nm =>
      match idxOfName b.targets nm with
      | some d => (b, last, .pick (nextRandom b d))
      | none => (b, last, .notMember)

/-- one atomic balancer operation -/
def stepOp (s : St) : Op → St × Res
  | .add t => let (b, r) := addTarget s.bal t; ({ s with bal := b }, .bool r)
  | .remove nm => let (b, r) := removeTarget s.bal nm; ({ s with bal := b }, .bool r)
  | .next c hint =>
    let (b, l, r) := nextOf s.rr s.bal (ctxGet s.ctxs c) hint
    ({ s with bal := b, ctxs := ctxSet s.ctxs c l }, r)

def runOps : St → List Op → St × List Res
  | s, [] => (s, [])
  | s, o :: os =>
    let (s', r) := stepOp s o
    let (s'', rs) := runOps s' os
    (s'', r :: rs)

/-! ## the retry loop of `ProxyWithConfig` -/

inductive Outcome where
  | noTarget                -- balancer returned nil → 502 (after the F12 fix)
  | relayed (t : Target)    -- upstream answered; its response was relayed
  | badGateway              -- last attempt failed with 502, no retry left / filter said no
  | clientClosed            -- 499: client context cancelled; default RetryFilter does not retry
  | panic
deriving DecidableEq, Repr, Inhabited

structure Env where
  rr : Bool
  alive : Target → Bool
  canceled : Bool
  /-- the request has a non-empty body whose reader cannot be read again once an attempt has
      closed it: the body of a request served by a real `http.Server`.  `ReverseProxy.ServeHTTP`
      (and the transport, on a failed dial) close `outreq.Body` at the end of EVERY attempt, so
      every later attempt fails with "invalid Read on closed Body" → 502 (finding F16).
      `false` for empty bodies and for bodies whose `Close` is a no-op (`httptest.NewRequest`). -/
  bodyOnce : Bool

/-- the `for` loop: `retries` is the local variable of the same name; `closed` = an earlier
    attempt of this request has already closed the request body.  `hints` feeds the random
    balancer's draws.  Returns balancer, context value, the picks of all `Next` calls (in
    order) and the outcome. -/
def proxyLoop (env : Env) : Nat → Bool → Bal → Option Nat → List (List Char) → Bal × Option Nat × List Res × Outcome
  | retries, closed, b, last, hints =>
    let (b', l', r) := nextOf env.rr b last hints.head?
    match r with
    | .pick .nil => (b', l', [r], .noTarget)
    | .pick (.tgt t) =>
      if env.canceled then (b', l', [r], .clientClosed)
      else if env.alive t && !(env.bodyOnce && closed) then (b', l', [r], .relayed t)
      else
        match retries with
        | 0 => (b', l', [r], .badGateway)
        | k + 1 =>
          let (b'', l'', rs, o) := proxyLoop env k true b' l' hints.tail
          (b'', l'', r :: rs, o)
    | _ => (b', l', [r], .panic)

/-! ## rewrite rules -/
namespace Glob

inductive Tok where
  | ch (c : Char)
  | star          -- `(.*?)`
  | bol           -- `^`
deriving DecidableEq, Repr, Inhabited

/-- `rewriteRulesRegex`: QuoteMeta, `\*` ↦ `(.*?)`, and when the pattern starts with `^`
    EVERY `^` becomes the begin-of-text assertion; `$` is appended (implicit in `matchToks`) -/
def compile (pat : List Char) : List Tok :=
  let anchored := pat.head? == some '^'
  pat.map fun c => if c == '*' then .star else if c == '^' && anchored then .bol else .ch c

/-- lazy `(.*?)` followed by the continuation `k` -/
def lazyStar (k : List Char → Bool → Option (List (List Char))) :
    List Char → Bool → List Char → Option (List (List Char))
  | inp, st, acc =>
    match k inp st with
    | some caps => some (acc.reverse :: caps)
    | none =>
      match inp with
      | [] => none
      | x :: r => if x == '\n' then none else lazyStar k r false (x :: acc)

/-- match the token list at the current position up to the end of the text; `st` = "at begin
    of text".  Returns the captures in order. -/
def matchToks : List Tok → List Char → Bool → Option (List (List Char))
  | [], inp, _ => if inp.isEmpty then some [] else none
  | .ch c :: ts, inp, _ =>
    match inp with
    | [] => none
    | x :: r => if x == c then matchToks ts r false else none
  | .bol :: ts, inp, st => if st then matchToks ts inp st else none
  | .star :: ts, inp, st => lazyStar (matchToks ts) inp st []

/-- leftmost match (`FindAllStringSubmatch(input, -1)[0][1:]`) -/
def findFrom (toks : List Tok) : List Char → Bool → Option (List (List Char))
  | inp, st =>
    match matchToks toks inp st with
    | some caps => some caps
    | none =>
      match inp with
      | [] => none
      | _ :: r => findFrom toks r false

def find (toks : List Tok) (input : List Char) : Option (List (List Char)) := findFrom toks input true

def natDigits (n : Nat) : List Char := (toString n).toList

/-- first `k` (in order `from, from+1, …`) whose key `$k` is a prefix of `s` -/
def keyAt : List (List Char) → Nat → List Char → Option (List Char × List Char)
  | [], _, _ => none
  | v :: vs, k, s =>
    let key := '$' :: natDigits k
    if key.isPrefixOf s then some (v, s.drop key.length) else keyAt vs (k + 1) s

/-- `strings.NewReplacer("$1", v1, "$2", v2, …).Replace(tmpl)`; fuel = length of the template -/
def substAux (caps : List (List Char)) : Nat → List Char → List Char
  | 0, s => s
  | fuel + 1, s =>
    match s with
    | [] => []
    | c :: r =>
      match keyAt caps 1 s with
      | some (v, rest) => v ++ substAux caps fuel rest
      | none => c :: substAux caps fuel r

def subst (caps : List (List Char)) (tmpl : List Char) : List Char := substAux caps tmpl.length tmpl

end Glob

structure Rule where
  pat : List Char
  tmpl : List Char
deriving DecidableEq, Repr, Inhabited

def Rule.apply (r : Rule) (uri : List Char) : Option (List Char) :=
  (Glob.find (Glob.compile r.pat) uri).map fun caps => Glob.subst caps r.tmpl

/-- `rewriteURL` on the rule list in iteration order: first matching rule, rewrite once -/
def rewrite : List Rule → List Char → List Char
  | [], uri => uri
  | r :: rs, uri =>
    match r.apply uri with
    | some u => u
    | none => rewrite rs uri

/-! ## end-to-end scenarios -/

inductive Step where
  | add (t : Target)
  | remove (name : List Char)
  | request (uri : List Char) (canceled : Bool) (bodyOnce : Bool) (hints : List (List Char))
deriving Repr, Inhabited

structure Scenario where
  rr : Bool
  retryCount : Nat
  init : List Target
  alive : List Bool          -- indexed by url id
  rules : List Rule
  steps : List Step
deriving Repr, Inhabited

inductive StepObs where
  | bool (b : Bool)
  | served (picks : List Res) (o : Outcome) (uri : List Char)
deriving Repr, Inhabited

def aliveOf (alive : List Bool) (t : Target) : Bool := alive.getD t.url false

def runSteps (sc : Scenario) : Bal → List Step → List StepObs
  | _, [] => []
  | b, .add t :: ss => let (b', r) := addTarget b t; .bool r :: runSteps sc b' ss
  | b, .remove nm :: ss => let (b', r) := removeTarget b nm; .bool r :: runSteps sc b' ss
  | b, .request uri canceled bodyOnce hints :: ss =>
    -- a fresh echo context per request: no last index
    let (b', _, picks, o) := proxyLoop ⟨sc.rr, aliveOf sc.alive, canceled, bodyOnce⟩ sc.retryCount false b none hints
    let seen := match o with
      | .relayed _ => rewrite sc.rules uri
      | _ => []
    .served picks o seen :: runSteps sc b' ss

/-! ## wire -/
open Wire

def pTarget : P Target := do
  let n ← str
  let u ← nat
  pure ⟨n, u⟩

def pOp : P Op := do
  let k ← nat
  match k with
  | 0 => do let t ← pTarget; pure (.add t)
  | 1 => do let n ← str; pure (.remove n)
  | 2 => do let c ← nat; let h ← opt str; pure (.next c h)
  | _ => failure

def encPick : Pick → List String
  | .nil => ["0"]
  | .tgt t => ["1", encStr t.name, toString t.url]
  | .panic => ["2"]

def encRes : Res → List String
  | .bool b => [encBool b]
  | .pick p => encPick p
  | .notMember => ["3"]

def pRule : P Rule := do
  let p ← str
  let t ← str
  pure ⟨p, t⟩

def pStep : P Step := do
  let k ← nat
  match k with
  | 0 => do let t ← pTarget; pure (.add t)
  | 1 => do let n ← str; pure (.remove n)
  | 3 => do
    let u ← str
    let c ← bool
    let bo ← bool
    let h ← list str
    pure (.request u c bo h)
  | _ => failure

def outcomeCode : Outcome → String
  | .noTarget => "0"
  | .relayed _ => "1"
  | .badGateway => "2"
  | .clientClosed => "3"
  | .panic => "4"

def encStepObs : StepObs → List String
  | .bool b => [encBool b]
  | .served picks o uri => encList encRes picks ++ [outcomeCode o, encStr uri]

def pScenario : P Scenario := do
  let rr ← bool
  let rc ← nat
  let init ← list pTarget
  let alive ← list bool
  let rules ← list pRule
  let steps ← list pStep
  pure ⟨rr, rc, init, alive, rules, steps⟩

/-- lines:
    `0 rr ninit (name url)* nops op*`  →  results of the ops, flattened
       op = `0 name url` (AddTarget) | `1 name` (RemoveTarget) | `2 ctx (0 | 1 name)` (Next with context `ctx`)
    `1 rr retryCount ninit (name url)* nalive alive* nrules (pat tmpl)* nsteps step*` → per step observation
       step = `0 name url` | `1 name` | `3 uri canceled bodyOnce nhints name*`
    `2 pat tmpl uri` → `0` (no match) | `1 rewritten` -/
def runLine (line : String) : String :=
  let p : P String := do
    let kind ← nat
    match kind with
    | 0 => do
      let rr ← bool
      let init ← list pTarget
      let ops ← list pOp
      let (_, rs) := runOps ⟨rr, ⟨init, 0⟩, []⟩ ops
      pure (render (rs.flatMap encRes))
    | 1 => do
      let sc ← pScenario
      pure (render ((runSteps sc ⟨sc.init, 0⟩ sc.steps).flatMap encStepObs))
    | 2 => do
      let r ← pRule
      let u ← str
      match r.apply u with
      | none => pure "0"
      | some v => pure (render ["1", encStr v])
    | _ => failure
  match parseLine p line with
  | none => "bad-op"
  | some s => s

end C19
