import EchoModel.Wire
/-!
# C19 — Proxy: balancers, retry loop, rewrite rules
(middleware/proxy.go: commonBalancer.AddTarget/RemoveTarget, roundRobinBalancer.Next,
randomBalancer.Next, Proxy / ProxyWithConfig (defaults, Skipper, TargetProvider, retry loop with
RetryFilter / ErrorHandler), proxyRaw's dial/hijack order; middleware/middleware.go:
rewriteRulesRegex / captureTokens / rewriteURL)

What is modelled and how stdlib pieces are treated

* `sync.Mutex`: every balancer operation is one atomic step of the model (`stepOp`); the
  interleaving semantics for the linearizability statement is `Conc` below.
* `math/rand`: the index drawn by `random.Intn(len)` is a *parameter* of `nextRandom`
  (the harness passes the name of the target the real balancer returned; the model looks the
  index up).  Theorems hold for every draw `< len`.
* the echo context store (`c.Get/c.Set("_round_robin_last_index")`) is an `Option Nat` per
  request/context.
* `httputil.ReverseProxy` + transport: abstracted to an oracle `alive : Target → Bool`
  (dial succeeds and the upstream answers / dial fails → `proxy.ErrorHandler` stores an
  `*echo.HTTPError{Code: 502}` under `_error`) and a per-request flag `canceled` (the client's
  context is cancelled → the stored error has code 499).  What the reverse proxy forwards is
  NOT modelled (harness oracle only).
* `regexp`: the rewrite rules built by `rewriteRulesRegex` are exactly the globs
  `lit (* lit)* $` (optionally `^`-anchored); `Glob.find` implements Go's leftmost-first
  search for that class (lazy `(.*?)`, `.` does not match `\n`, `$` = end of text) and
  `Glob.subst` implements `strings.NewReplacer("$1",v1,…).Replace`.  Validated by the
  correspondence run.  `url.Parse`/`ResolveReference` of the rewritten string is the identity
  on the *clean* request targets used in the compared stream (absolute path, valid escapes,
  no dot segments, no fragment); other inputs are oracle-only in the harness.
* round 4 — the configuration surface: `loopG` is the same loop with a custom `RetryFilter`
  (any function of call number and error class), a `TargetProvider` balancer that may answer an
  error (scripted per call), websocket attempts (`proxyRaw`: dial, then hijack — after the F21
  fix) and response writers that cannot be hijacked; `Scenario.eff` is what `Proxy(balancer)` /
  `ProxyWithConfig` put in force; a configured Skipper takes a request out before anything else.
  Custom `ErrorHandler`, `ModifyResponse`, `Transport`, `ContextKey` have no behaviour of their own
  in the loop (the handler is called once with `OutG.failed`'s error): harness oracle only.
* request targets in absolute form (`GET http://host/path`): `matchInput` is lines 59-71 of
  middleware.go after the F23 fix (cut after scheme and authority), on the raw `RequestURI`.
* Go map iteration order (`for k, v := range rewriteRegex`): the model takes the rules as a
  list and applies the first match; `C19_rewrite_order_irrelevant` shows the order is
  irrelevant when at most one rule matches (the compared stream uses such rule sets).
-/
namespace C19

structure Target where
  name : List Char
  url : Nat
deriving DecidableEq, Repr, Inhabited

/-- `roundRobinBalancer` (`commonBalancer.targets` + `i`); the random balancer ignores `i` -/
structure Bal where
  targets : List Target
  i : Nat
deriving DecidableEq, Repr, Inhabited

/-- result of `Next`: Go `nil`, a target, or an index-out-of-range panic -/
inductive Pick where
  | nil
  | tgt (t : Target)
  | panic
deriving DecidableEq, Repr, Inhabited

def hasName (ts : List Target) (name : List Char) : Bool := ts.any (fun t => t.name == name)

/-- `commonBalancer.AddTarget` -/
def addTarget (b : Bal) (t : Target) : Bal × Bool :=
  if hasName b.targets t.name then (b, false)
  else ({ b with targets := b.targets ++ [t] }, true)

/-- `commonBalancer.RemoveTarget`: removes the FIRST target with that name; `i` untouched -/
def removeTarget (b : Bal) (name : List Char) : Bal × Bool :=
  if hasName b.targets name then
    ({ b with targets := b.targets.eraseP (fun t => t.name == name) }, true)
  else (b, false)

/-- `b.targets[i]` with Go's bounds check -/
def pickAt (ts : List Target) (i : Nat) : Pick :=
  match ts[i]? with
  | some t => .tgt t
  | none => .panic

/-- `roundRobinBalancer.Next`; `last` is `c.Get("_round_robin_last_index")`.
    Returns the balancer, the context value afterwards and the pick. -/
def nextRR (b : Bal) (last : Option Nat) : Bal × Option Nat × Pick :=
  let n := b.targets.length
  if n = 0 then (b, last, .nil)
  else if n = 1 then (b, last, pickAt b.targets 0)
  else
    match last with
    | some l =>
      let i := if l + 1 ≥ n then 0 else l + 1
      (b, some i, pickAt b.targets i)
    | none =>
      let bi := if b.i ≥ n then 0 else b.i
      ({ b with i := bi + 1 }, some bi, pickAt b.targets bi)

/-- `randomBalancer.Next`; `draw` is the value of `b.random.Intn(len(b.targets))` -/
def nextRandom (b : Bal) (draw : Nat) : Pick :=
  let n := b.targets.length
  if n = 0 then .nil
  else if n = 1 then pickAt b.targets 0
  else pickAt b.targets draw

/-- index of the first target with a given name (used to recover the draw from what the real
    random balancer returned) -/
def idxOfName : List Target → List Char → Option Nat
  | [], _ => none
  | t :: ts, nm => if t.name == nm then some 0 else (idxOfName ts nm).map (· + 1)

/-! ## balancer operation sequences -/

/-- context store: context id ↦ last index -/
abbrev Ctxs := List (Nat × Nat)

def ctxGet (cs : Ctxs) (id : Nat) : Option Nat := (cs.find? (fun p => p.1 == id)).map (·.2)

def ctxSet (cs : Ctxs) (id : Nat) (v : Option Nat) : Ctxs :=
  match v with
  | some x => (id, x) :: cs.filter (fun p => p.1 != id)
  | none => cs.filter (fun p => p.1 != id)

inductive Op where
  | add (t : Target)
  | remove (name : List Char)
  | next (ctx : Nat) (hint : Option (List Char))   -- hint: name returned by the real random balancer
deriving Repr, Inhabited

inductive Res where
  | bool (b : Bool)
  | pick (p : Pick)
  | notMember          -- random balancer returned something that is not a current target
deriving DecidableEq, Repr, Inhabited

structure St where
  rr : Bool
  bal : Bal
  ctxs : Ctxs
deriving Repr, Inhabited

/-- `Next` of the configured balancer kind -/
def nextOf (rr : Bool) (b : Bal) (last : Option Nat) (hint : Option (List Char)) :
    Bal × Option Nat × Res :=
  if rr then
    let (b', l', p) := nextRR b last
    (b', l', .pick p)
  else
    match hint with
    | none => (b, last, .pick (nextRandom b 0))     -- only correct for ≤ 1 targets; the harness always hints otherwise
    | some nm =>
      match idxOfName b.targets nm with
      | some d => (b, last, .pick (nextRandom b d))
      | none => (b, last, .notMember)

/-- one atomic balancer operation -/
def stepOp (s : St) : Op → St × Res
  | .add t => let (b, r) := addTarget s.bal t; ({ s with bal := b }, .bool r)
  | .remove nm => let (b, r) := removeTarget s.bal nm; ({ s with bal := b }, .bool r)
  | .next c hint =>
    let (b, l, r) := nextOf s.rr s.bal (ctxGet s.ctxs c) hint
    ({ s with bal := b, ctxs := ctxSet s.ctxs c l }, r)

def runOps : St → List Op → St × List Res
  | s, [] => (s, [])
  | s, o :: os =>
    let (s', r) := stepOp s o
    let (s'', rs) := runOps s' os
    (s'', r :: rs)

/-! ## the retry loop of `ProxyWithConfig` -/

inductive Outcome where
  | noTarget                -- balancer returned nil → 502 (after the F12 fix)
  | relayed (t : Target)    -- upstream answered; its response was relayed
  | badGateway              -- last attempt failed with 502, no retry left / filter said no
  | clientClosed            -- 499: client context cancelled; default RetryFilter does not retry
  | panic
deriving DecidableEq, Repr, Inhabited

structure Env where
  rr : Bool
  alive : Target → Bool
  canceled : Bool
  /-- the request has a non-empty body whose reader cannot be read again once an attempt has
      closed it: the body of a request served by a real `http.Server`.  `ReverseProxy.ServeHTTP`
      (and the transport, on a failed dial) close `outreq.Body` at the end of EVERY attempt, so
      every later attempt fails with "invalid Read on closed Body" → 502 (finding F16).
      `false` for empty bodies and for bodies whose `Close` is a no-op (`httptest.NewRequest`). -/
  bodyOnce : Bool

/-- the `for` loop: `retries` is the local variable of the same name; `closed` = an earlier
    attempt of this request has already closed the request body.  `hints` feeds the random
    balancer's draws.  Returns balancer, context value, the picks of all `Next` calls (in
    order) and the outcome. -/
def proxyLoop (env : Env) : Nat → Bool → Bal → Option Nat → List (List Char) → Bal × Option Nat × List Res × Outcome
  | retries, closed, b, last, hints =>
    let (b', l', r) := nextOf env.rr b last hints.head?
    match r with
    | .pick .nil => (b', l', [r], .noTarget)
    | .pick (.tgt t) =>
      if env.canceled then (b', l', [r], .clientClosed)
      else if env.alive t && !(env.bodyOnce && closed) then (b', l', [r], .relayed t)
      else
        match retries with
        | 0 => (b', l', [r], .badGateway)
        | k + 1 =>
          let (b'', l'', rs, o) := proxyLoop env k true b' l' hints.tail
          (b'', l'', r :: rs, o)
    | _ => (b', l', [r], .panic)

/-! ## rewrite rules -/
namespace Glob

inductive Tok where
  | ch (c : Char)
  | star          -- `(.*?)`
  | bol           -- `^`
deriving DecidableEq, Repr, Inhabited

/-- `rewriteRulesRegex`: QuoteMeta, `\*` ↦ `(.*?)`, and when the pattern starts with `^`
    EVERY `^` becomes the begin-of-text assertion; `$` is appended (implicit in `matchToks`) -/
def compile (pat : List Char) : List Tok :=
  let anchored := pat.head? == some '^'
  pat.map fun c => if c == '*' then .star else if c == '^' && anchored then .bol else .ch c

/-- lazy `(.*?)` followed by the continuation `k` -/
def lazyStar (k : List Char → Bool → Option (List (List Char))) :
    List Char → Bool → List Char → Option (List (List Char))
  | inp, st, acc =>
    match k inp st with
    | some caps => some (acc.reverse :: caps)
    | none =>
      match inp with
      | [] => none
      | x :: r => if x == '\n' then none else lazyStar k r false (x :: acc)

/-- match the token list at the current position up to the end of the text; `st` = "at begin
    of text".  Returns the captures in order. -/
def matchToks : List Tok → List Char → Bool → Option (List (List Char))
  | [], inp, _ => if inp.isEmpty then some [] else none
  | .ch c :: ts, inp, _ =>
    match inp with
    | [] => none
    | x :: r => if x == c then matchToks ts r false else none
  | .bol :: ts, inp, st => if st then matchToks ts inp st else none
  | .star :: ts, inp, st => lazyStar (matchToks ts) inp st []

/-- leftmost match (`FindAllStringSubmatch(input, -1)[0][1:]`) -/
def findFrom (toks : List Tok) : List Char → Bool → Option (List (List Char))
  | inp, st =>
    match matchToks toks inp st with
    | some caps => some caps
    | none =>
      match inp with
      | [] => none
      | _ :: r => findFrom toks r false

def find (toks : List Tok) (input : List Char) : Option (List (List Char)) := findFrom toks input true

def natDigits (n : Nat) : List Char := (toString n).toList

/-- first `k` (in order `from, from+1, …`) whose key `$k` is a prefix of `s` -/
def keyAt : List (List Char) → Nat → List Char → Option (List Char × List Char)
  | [], _, _ => none
  | v :: vs, k, s =>
    let key := '$' :: natDigits k
    if key.isPrefixOf s then some (v, s.drop key.length) else keyAt vs (k + 1) s

/-- `strings.NewReplacer("$1", v1, "$2", v2, …).Replace(tmpl)`; fuel = length of the template -/
def substAux (caps : List (List Char)) : Nat → List Char → List Char
  | 0, s => s
  | fuel + 1, s =>
    match s with
    | [] => []
    | c :: r =>
      match keyAt caps 1 s with
      | some (v, rest) => v ++ substAux caps fuel rest
      | none => c :: substAux caps fuel r

def subst (caps : List (List Char)) (tmpl : List Char) : List Char := substAux caps tmpl.length tmpl

end Glob

structure Rule where
  pat : List Char
  tmpl : List Char
deriving DecidableEq, Repr, Inhabited

def Rule.apply (r : Rule) (uri : List Char) : Option (List Char) :=
  (Glob.find (Glob.compile r.pat) uri).map fun caps => Glob.subst caps r.tmpl

/-- `rewriteURL` on the rule list in iteration order: first matching rule, rewrite once -/
def rewrite : List Rule → List Char → List Char
  | [], uri => uri
  | r :: rs, uri =>
    match r.apply uri with
    | some u => u
    | none => rewrite rs uri

/-! ## the configurable retry loop (round 4)

`ProxyWithConfig` with everything a configuration can vary: a custom `RetryFilter`, a balancer
that is a `TargetProvider` (and may answer an error instead of a target), websocket requests
(`proxyRaw`: dial, then hijack — after the F21 fix), a response writer that cannot be hijacked.
`proxyLoop` above is the special case "default filter, plain balancer, HTTP request"
(`EchoProofs/C19Cfg.lean: C19_cfg_refines`). -/

/-- what is stored under `_error` / returned by `NextTarget`: an `*echo.HTTPError` with a code,
    or any other error value -/
inductive Err where
  | http (code : Nat)
  | other
deriving DecidableEq, Repr, Inhabited

/-- the `RetryFilter` installed when `config.RetryFilter == nil`: retry exactly the 502s, whatever
    the request (first argument: number of earlier filter calls for this request) -/
def defaultFilter (_call : Nat) (e : Err) : Bool := e == .http 502

structure EnvG where
  rr : Bool
  alive : Target → Bool
  canceled : Bool
  bodyOnce : Bool
  /-- `c.IsWebSocket()`: the attempt goes through `proxyRaw` -/
  ws : Bool
  /-- `c.Response().Hijack()` works (a real `http.Server` connection; not a ResponseRecorder) -/
  hijackable : Bool
  /-- the balancer implements `TargetProvider` -/
  provider : Bool
  /-- error answered by the `k`-th `NextTarget` call of this request (if any) -/
  provErr : Nat → Option Err
  /-- `config.RetryFilter`, by number of earlier calls for this request and error -/
  filter : Nat → Err → Bool

/-- one attempt on target `t`: `none` = the upstream answered and its answer was relayed,
    `some e` = `e` was left under `_error`.
    * websocket (`proxyRaw`, fixed order): dial (fails for a dead target or a cancelled client
      context → 502), then hijack (fails on a writer that is no `http.Hijacker` → plain error);
    * HTTP (`proxyHTTP`): cancelled client → 499; dead target, or a body an earlier attempt
      closed (F16) → 502. -/
def attemptErr (env : EnvG) (closed : Bool) (t : Target) : Option Err :=
  if env.ws then
    if env.canceled || !env.alive t then some (.http 502)
    else if !env.hijackable then some .other
    else none
  else if env.canceled then some (.http 499)
  else if env.alive t && !(env.bodyOnce && closed) then none
  else some (.http 502)

inductive OutG where
  | relayed (t : Target)     -- the upstream's answer went to the client; the loop returned nil
  | failed (e : Err)         -- `config.ErrorHandler(c, e)` was called (exactly once, at the end)
  | panic
deriving DecidableEq, Repr, Inhabited

structure LoopRes where
  bal : Bal
  last : Option Nat
  /-- results of the `Next` calls, in order -/
  picks : List Res
  /-- the errors `config.RetryFilter` was called with, in order -/
  fcalls : List Err
  out : OutG
deriving Repr, Inhabited

/-- the `for` loop of `ProxyWithConfig`.  `retries` = the local variable; `closed` = an earlier
    attempt closed the request body; `k` = `Next`/`NextTarget` calls made so far; `fc` = filter
    calls made so far. -/
def loopG (env : EnvG) : Nat → Bool → Nat → Nat → Bal → Option Nat → List (List Char) → LoopRes
  | retries, closed, k, fc, b, last, hints =>
    match (if env.provider then env.provErr k else none) with
    | some e => ⟨b, last, [], [], .failed e⟩             -- `return config.ErrorHandler(c, err)`
    | none =>
      let (b', l', r) := nextOf env.rr b last hints.head?
      match r with
      | .pick .nil => ⟨b', l', [r], [], .failed (.http 502)⟩   -- F12 fix
      | .pick (.tgt t) =>
        match attemptErr env closed t with
        | none => ⟨b', l', [r], [], .relayed t⟩
        | some e =>
          match retries with
          | 0 => ⟨b', l', [r], [], .failed e⟩              -- `retries > 0 &&` : filter not consulted
          | n + 1 =>
            if env.filter fc e then
              let R := loopG env n true (k + 1) (fc + 1) b' l' hints.tail
              ⟨R.bal, R.last, r :: R.picks, e :: R.fcalls, R.out⟩
            else ⟨b', l', [r], [e], .failed e⟩
      | _ => ⟨b', l', [r], [], .panic⟩

/-! ### `rewriteURL`: which string the rules are matched against -/

/-- `rawURI[strings.Index(rawURI, "://")+3:]` (`none`: no `://`) -/
def afterSchemeSep : List Char → Option (List Char)
  | [] => none
  | c :: r => if c == ':' && "//".toList.isPrefixOf r then some (r.drop 2) else afterSchemeSep r

/-- `rest[strings.IndexAny(rest, "/?"):]`, the empty string when there is neither -/
def fromPathStart : List Char → List Char
  | [] => []
  | c :: r => if c == '/' || c == '?' then c :: r else fromPathStart r

/-- lines 59-71 of middleware.go (after the F23 fix): `req.RequestURI`, and when it does not start
    with `/` (a request target in absolute form) the part after scheme and authority -/
def matchInput (requestURI : List Char) : List Char :=
  match requestURI with
  | [] => []
  | c :: _ =>
    if c == '/' then requestURI
    else
      match afterSchemeSep requestURI with
      | some rest => fromPathStart rest
      | none => requestURI

/-- first matching rule in iteration order -/
def rewrite? : List Rule → List Char → Option (List Char)
  | [], _ => none
  | r :: rs, uri =>
    match r.apply uri with
    | some u => some u
    | none => rewrite? rs uri

/-- the request target the upstream sees: the result of the first rule that matches the match
    input, else the unchanged path and query of the request URL -/
def rewriteReq (rules : List Rule) (requestURI pathq : List Char) : List Char :=
  (rewrite? rules (matchInput requestURI)).getD pathq

/-! ## end-to-end scenarios -/

/-- a `RetryFilter` the harness can install -/
inductive FilterSpec where
  | dflt                                        -- `nil`
  | script (answers : List Bool) (rest : Bool)  -- answer of the k-th call, whatever the error
  | codes (cs : List Nat)                       -- retry iff `*echo.HTTPError` with one of these codes
deriving Repr, Inhabited

def FilterSpec.fn : FilterSpec → Nat → Err → Bool
  | .dflt => defaultFilter
  | .script a r => fun k _ => a.getD k r
  | .codes cs => fun _ e => match e with
    | .http c => cs.contains c
    | .other => false

def FilterSpec.custom : FilterSpec → Bool
  | .dflt => false
  | _ => true

structure ReqIn where
  requestURI : List Char       -- `req.RequestURI` as sent
  pathq : List Char            -- path and query of `req.URL`
  canceled : Bool
  bodyOnce : Bool
  ws : Bool
  hijackable : Bool
  skip : Bool                  -- the configured Skipper answers true for this request
  provErrs : List (Option Err) -- by `NextTarget` call
  hints : List (List Char)
deriving Repr, Inhabited

inductive Step where
  | add (t : Target)
  | remove (name : List Char)
  | request (q : ReqIn)
deriving Repr, Inhabited

structure Scenario where
  rr : Bool
  /-- `true`: the middleware was made by `Proxy(balancer)` — `DefaultProxyConfig` with the
      balancer, every other field of the configuration below is ignored -/
  viaProxy : Bool
  retryCount : Nat
  provider : Bool
  filter : FilterSpec
  skipper : Bool               -- a custom Skipper is configured
  init : List Target
  alive : List Bool          -- indexed by url id
  rules : List Rule
  steps : List Step
deriving Repr, Inhabited

/-- the configuration in force: `Proxy(b)` = `ProxyWithConfig(DefaultProxyConfig + b)` -/
def Scenario.eff (sc : Scenario) : Scenario :=
  if sc.viaProxy then { sc with retryCount := 0, filter := .dflt, skipper := false, rules := [] } else sc

inductive StepObs where
  | bool (b : Bool)
  | skipped
  | served (picks : List Res) (fcalls : Option (List Err)) (o : OutG) (uri : List Char)
deriving Repr, Inhabited

def aliveOf (alive : List Bool) (t : Target) : Bool := alive.getD t.url false

def envOf (sc : Scenario) (q : ReqIn) : EnvG :=
  { rr := sc.rr, alive := aliveOf sc.alive, canceled := q.canceled, bodyOnce := q.bodyOnce, ws := q.ws,
    hijackable := q.hijackable, provider := sc.provider, provErr := fun k => (q.provErrs.getD k none),
    filter := sc.eff.filter.fn }

def runSteps (sc : Scenario) : Bal → List Step → List StepObs
  | _, [] => []
  | b, .add t :: ss => let (b', r) := addTarget b t; .bool r :: runSteps sc b' ss
  | b, .remove nm :: ss => let (b', r) := removeTarget b nm; .bool r :: runSteps sc b' ss
  | b, .request q :: ss =>
    if sc.eff.skipper && q.skip then .skipped :: runSteps sc b ss     -- `return next(c)`
    else
      -- a fresh echo context per request: no last index
      let R := loopG (envOf sc q) sc.eff.retryCount false 0 0 b none q.hints
      let seen := match R.out with
        | .relayed _ => rewriteReq sc.eff.rules q.requestURI q.pathq
        | _ => []
      .served R.picks (if sc.eff.filter.custom then some R.fcalls else none) R.out seen :: runSteps sc R.bal ss

/-! ## wire -/
open Wire

def pTarget : P Target := do
  let n ← str
  let u ← nat
  pure ⟨n, u⟩

def pOp : P Op := do
  let k ← nat
  match k with
  | 0 => do let t ← pTarget; pure (.add t)
  | 1 => do let n ← str; pure (.remove n)
  | 2 => do let c ← nat; let h ← opt str; pure (.next c h)
  | _ => failure

def encPick : Pick → List String
  | .nil => ["0"]
  | .tgt t => ["1", encStr t.name, toString t.url]
  | .panic => ["2"]

def encRes : Res → List String
  | .bool b => [encBool b]
  | .pick p => encPick p
  | .notMember => ["3"]

def pRule : P Rule := do
  let p ← str
  let t ← str
  pure ⟨p, t⟩

/-- `0` = plain error, `n` = `*echo.HTTPError` with code `n` -/
def pErr : P Err := do
  let c ← nat
  pure (if c = 0 then .other else .http c)

def encErr : Err → List String
  | .http c => ["h" ++ toString c]
  | .other => ["o"]

def pFilter : P FilterSpec := do
  let k ← nat
  match k with
  | 0 => pure .dflt
  | 1 => do let a ← list bool; let r ← bool; pure (.script a r)
  | 2 => do let cs ← list nat; pure (.codes cs)
  | _ => failure

def pReq : P ReqIn := do
  let raw ← str
  let pathq ← str
  let c ← bool
  let bo ← bool
  let ws ← bool
  let hj ← bool
  let skip ← bool
  let pe ← list (opt pErr)
  let h ← list str
  pure ⟨raw, pathq, c, bo, ws, hj, skip, pe, h⟩

def pStep : P Step := do
  let k ← nat
  match k with
  | 0 => do let t ← pTarget; pure (.add t)
  | 1 => do let n ← str; pure (.remove n)
  | 3 => do let q ← pReq; pure (.request q)
  | _ => failure

def encOut : OutG → List String
  | .relayed _ => ["1"]
  | .failed e => "2" :: encErr e
  | .panic => ["4"]

def encStepObs : StepObs → List String
  | .bool b => [encBool b]
  | .skipped => ["5"]
  | .served picks fcalls o uri =>
    encList encRes picks ++ encOut o ++ [encStr uri] ++ encOpt (encList encErr) fcalls

def pScenario : P Scenario := do
  let rr ← bool
  let viaProxy ← bool
  let rc ← nat
  let prov ← bool
  let f ← pFilter
  let sk ← bool
  let init ← list pTarget
  let alive ← list bool
  let rules ← list pRule
  let steps ← list pStep
  pure ⟨rr, viaProxy, rc, prov, f, sk, init, alive, rules, steps⟩

/-- lines:
    `0 rr ninit (name url)* nops op*`  →  results of the ops, flattened
       op = `0 name url` (AddTarget) | `1 name` (RemoveTarget) | `2 ctx (0 | 1 name)` (Next with context `ctx`)
    `1 rr viaProxy retryCount provider filter skipper ninit (name url)* nalive alive* nrules (pat tmpl)* nsteps step*`
       → per step observation
       filter = `0` | `1 n answer* rest` | `2 n code*`
       step = `0 name url` | `1 name` |
              `3 requestURI pathq canceled bodyOnce ws hijackable skip nprov (0 | 1 err)* nhints name*`
       observation of a request: `5` (skipped) |
              `npicks pick* (1 | 2 err | 4) uri (0 | 1 ncalls err*)`     err = `h<code>` | `o`
    `2 pat tmpl uri` → `0` (no match) | `1 rewritten` -/
def runLine (line : String) : String :=
  let p : P String := do
    let kind ← nat
    match kind with
    | 0 => do
      let rr ← bool
      let init ← list pTarget
      let ops ← list pOp
      let (_, rs) := runOps ⟨rr, ⟨init, 0⟩, []⟩ ops
      pure (render (rs.flatMap encRes))
    | 1 => do
      let sc ← pScenario
      pure (render ((runSteps sc ⟨sc.init, 0⟩ sc.steps).flatMap encStepObs))
    | 2 => do
      let r ← pRule
      let u ← str
      match r.apply u with
      | none => pure "0"
      | some v => pure (render ["1", encStr v])
    | _ => failure
  match parseLine p line with
  | none => "bad-op"
  | some s => s

end C19
