import EchoModel.Router
/-! wire format shared by the router-based properties (C01, C02, C03, C05, C20) -/
namespace Router
open Wire

def pRoute : P (Str × Str) := do
  let m ← str
  let p ← str
  pure (m, p)

/-- `n (method path)*` ; the handler id of a route is its index in the list -/
def pTable : P (List Route) := do
  let rs ← list pRoute
  pure (rs.zipIdx.map fun ((m, p), i) => ⟨m, p, i⟩)

def encStrs (l : List Str) : List String := encList (fun s => [encStr s]) l

/-- insertion sort on strings (canonical order for the Allow set) -/
def strLe (a b : Str) : Bool := a.map Char.toNat ≤ b.map Char.toNat
def insertSorted (x : Str) : List Str → List Str
  | [] => [x]
  | y :: ys => if strLe x y then x :: y :: ys else y :: insertSorted x ys
def sortStrs (l : List Str) : List Str := l.foldr insertSorted []

def encOutcome : Outcome → List String
  | .dispatch rm vals => ["D", toString rm.hid, encStr rm.ppath] ++ encStrs rm.pnames ++ encStrs vals
  | .notFound p => ["N", encStr p]
  | .methodNotAllowed p allow => ["M", encStr p] ++ encStrs (sortStrs allow)
  | .panic => ["P"]

end Router
