package main

// C07 — every error or recovered panic becomes exactly one well-formed response.
//
// Real code: Echo.ServeHTTP + Echo.DefaultHTTPErrorHandler + Context.Error + middleware.Recover
// (all constructors and options), driven through e.ServeHTTP on a recording http.ResponseWriter
// (every WriteHeader call, every Write as its own chunk); in the thorough tier additionally
// through a real httptest.Server round trip.
// Model: lean/EchoModel/C07.lean (serve / serveAll).
//
// A case is an Echo configuration (Debug, a middleware chain of Recover instances and
// error-reporting middlewares placed at Pre / Use / group / route level, optionally a counting
// wrapper as Echo.HTTPErrorHandler) and a SEQUENCE of failing requests through that one Echo.
// Error values are trees built from errors.New / fmt.Errorf(%w) / *echo.HTTPError and from the
// well-known error VALUES of the standard library and of echo itself (context.Canceled, io.EOF,
// echo.ErrNotFound, echo.ErrInternalServerError.SetInternal(x), ...).  SetInternal on one of
// echo's exported variables changes process-wide state; the harness keeps a symbolic copy of that
// state (c07Heap) so that the oracle and the model are given the tree each value really has when
// it is handled, runs such cases under an exclusive lock and restores the variables afterwards.

import (
	"bufio"
	"bytes"
	"context"
	"database/sql"
	"encoding/json"
	"errors"
	"fmt"
	"io"
	stdlog "log"
	"math/rand"
	"net"
	"net/http"
	"net/http/httptest"
	"os"
	"regexp"
	"sort"
	"strconv"
	"strings"
	"sync"
	"time"

	"github.com/labstack/echo/v4"
	"github.com/labstack/echo/v4/middleware"
	"github.com/labstack/gommon/log"
)

type c07Msg struct {
	K string `json:"k"` // str dflt err marsh other nil
	T int    `json:"t,omitempty"`
	V int    `json:"v,omitempty"` // which Go type carries it
	// str / err: index into c07Decor — bytes appended to the marker (control bytes, DEL, invalid
	// UTF-8, non-printable runes, quotes, HTML characters, ...); the client must get them back
	// through JSON decoding
	Dec int `json:"dec,omitempty"`
}

type c07Err struct {
	K    string  `json:"k"` // plain wrap http
	T    int     `json:"t,omitempty"`
	Code int     `json:"code,omitempty"`
	Msg  *c07Msg `json:"msg,omitempty"`
	In   *c07Err `json:"in,omitempty"` // wrap: inner; http: Internal (nil = none)
	V    int     `json:"v,omitempty"`  // how the HTTPError is constructed / Internal attached (V%3==0: WithInternal, else SetInternal)
	// plain: 1-based index into c07StdErrs — the error IS that well-known value (context.Canceled, ...)
	Std int `json:"std,omitempty"`
	// plain (Std == 0) / wrap: index into c07Decor, appended to the marker in the error text
	Dec int `json:"dec,omitempty"`
	// http: 1-based index into c07EchoSent — the error is built from that exported echo variable
	// (code and default message are the variable's; In == nil: the variable itself, with whatever
	// Internal an earlier SetInternal left in it)
	Sent int `json:"sent,omitempty"`
}

// one middleware of the chain
type c07Layer struct {
	K string `json:"k"` // recover | cerr
	// recover
	Default    bool    `json:"default,omitempty"` // middleware.Recover(): no config at all
	DisableEH  bool    `json:"disable_eh,omitempty"`
	LogFn      string  `json:"logfn,omitempty"` // "" unset | same | replace | nil
	Repl       *c07Err `json:"repl,omitempty"`  // logfn == replace: what LogErrorFunc returns
	LogLevel   int     `json:"loglevel,omitempty"`
	NoStack    bool    `json:"no_stack,omitempty"`
	NoStackAll bool    `json:"no_stack_all,omitempty"`
	StackSize  int     `json:"stack_size,omitempty"`
	// cerr: err := next(c); if err != nil { c.Error(err) }; return err (Ret) / nil
	Ret bool `json:"ret,omitempty"`
}

type c07Case struct {
	Debug  bool   `json:"debug"`
	Method string `json:"method"`
	// legacy chain description (corpus files): Double = outer cerr{Ret}, Recover = Recover() or
	// RecoverWithConfig{DisableErrorHandler, DisablePrintStack}; used only when Layers is empty
	Recover   bool    `json:"recover"`
	DisableEH bool    `json:"disable_eh,omitempty"`
	Double    bool    `json:"double,omitempty"`
	Pre       string  `json:"pre"` // "" wrote nocontent flush jsonbad writeheader
	PreCode   int     `json:"pre_code,omitempty"`
	Panic     string  `json:"panic,omitempty"` // "" (returned) err str int struct abort
	PanicT    int     `json:"panic_t,omitempty"`
	Err       *c07Err `json:"err,omitempty"`
	RoundTrip bool    `json:"round_trip,omitempty"`
	// further failing requests served by the SAME Echo instance, one after the other on the same
	// goroutine (so sync.Pool hands the context of the previous request back); only the
	// per-request fields (Method, Pre, PreCode, Panic, PanicT, Err, Skip, Via, Ctx, WFail) of these are used
	Then []*c07Case `json:"then,omitempty"`

	// ---- Echo level ----
	// the middleware chain, OUTERMOST FIRST; the first NPre go to e.Pre, the next NUse to e.Use,
	// the next NGroup to the group, the rest to the route
	Layers   []c07Layer `json:"layers,omitempty"`
	NPre     int        `json:"npre,omitempty"`
	NUse     int        `json:"nuse,omitempty"`
	NGroup   int        `json:"ngroup,omitempty"`
	CustomEH bool       `json:"custom_eh,omitempty"` // Echo.HTTPErrorHandler = counting wrapper around DefaultHTTPErrorHandler
	PreNoop  bool       `json:"pre_noop,omitempty"`  // a transparent Pre middleware (ServeHTTP's premiddleware branch)
	// configuration NEXT to Debug that must not matter for the response:
	// LogLvl: Echo.Logger.SetLevel (0 = leave the default; 1 DEBUG 2 INFO 3 WARN 4 ERROR 5 OFF)
	// Knobs (bits): 1 HideBanner+HidePort, 2 a JSONSerializer of the application's own type that
	// delegates to the default one, 4 Validator + Renderer + Binder + IPExtractor set, 8 Logger
	// prefix / header / output to a buffer, 16 StdLogger + Server timeouts + DisableHTTP2 +
	// ListenerNetwork, 32 Debug logging on the per-request logger (Context.SetLogger at DEBUG)
	LogLvl int `json:"log_lvl,omitempty"`
	Knobs  int `json:"knobs,omitempty"`
	// ---- request level ----
	Skip  []int  `json:"skip,omitempty"`  // indices of Recover layers whose Skipper skips this request
	Via   string `json:"via,omitempty"`   // "" our handler | 404 | 405: the router's own handlers return echo.ErrNotFound / echo.ErrMethodNotAllowed
	Ctx   string `json:"ctx,omitempty"`   // request context: "" live | cancelled | deadline
	WFail bool   `json:"wfail,omitempty"` // every Write on the underlying writer fails
	// a panic raised INSIDE the commit step of the failing code's own response write (Pre must be
	// wrote / nocontent / writeheader / flush): "hook" = a Response.Before hook panics the first
	// time it runs (with the value Panic describes); "writer" = PreCode is outside 100..999 and
	// the underlying writer refuses it like net/http does (panics with a string naming atom
	// PanicT).  Either way the commit is aborted: nothing is out, Committed must still be false.
	In string `json:"in,omitempty"`
	// panic("…") values: index into c07Decor, appended to the marker
	PanicDec int `json:"panic_dec,omitempty"`
	// optional interfaces of the UNDERLYING writer, as net/http's connection writer has them
	// (httptest.ResponseRecorder has none): bit 1 io.ReaderFrom, bit 2 io.StringWriter + FlushError;
	// round 8: bit 4 NO Flush method (http.TimeoutHandler's writer, many third-party wrappers: with
	// neither Flush nor FlushError echo's Response.Flush commits and then panics), bit 8 the writer is
	// handed in behind a wrapper that offers nothing but Unwrap() (http.ResponseController finds the
	// capabilities through it, a type assertion does not), bit 16 http.Hijacker + http.Pusher (must
	// never be used by the error path: the client would not receive the response)
	Caps int `json:"caps,omitempty"`
	// where the error is raised: "" in the route's handler | pre | use | group: in a middleware
	// that sits innermost at that level (so only the layers of that level and outside see it);
	// after: the route's handler does the Pre part and returns nil, the innermost Use-level
	// middleware then fails on the way back
	From string `json:"from,omitempty"`
}

// ---- well-known error values ----

// plain errors (no *HTTPError): atom 9000+index
var c07StdErrs = []error{
	context.Canceled, context.DeadlineExceeded, io.EOF, io.ErrUnexpectedEOF, io.ErrClosedPipe,
	http.ErrAbortHandler, http.ErrHandlerTimeout, http.ErrServerClosed, http.ErrBodyNotAllowed, http.ErrNoCookie,
	os.ErrNotExist, os.ErrDeadlineExceeded, net.ErrClosed, sql.ErrNoRows,
	echo.ErrValidatorNotRegistered, echo.ErrRendererNotRegistered, echo.ErrInvalidRedirectCode, echo.ErrCookieNotFound,
	errC07NoFlush,
}

// the text echo's Response.Flush panics with on a writer that cannot flush (In == "noflush": echo
// raises its own value with this text; as an ordinary plain error it is just another text)
var errC07NoFlush = errors.New("response writer flushing is not supported")

const c07StdAbort = 6 // http.ErrAbortHandler
const c07StdNoFlush = 19

// can the underlying writer be flushed at all (Flush, or FlushError which http.ResponseController prefers)?
func c07NoFlush(caps int) bool { return caps&4 != 0 && caps&2 == 0 }

// echo's exported *HTTPError variables; an error tree may use them only with increasing index
// from the outside in (no cycles through SetInternal)
var c07EchoSent = []*echo.HTTPError{
	echo.ErrInternalServerError, echo.ErrBadGateway, echo.ErrServiceUnavailable, echo.ErrGatewayTimeout,
	echo.ErrBadRequest, echo.ErrUnauthorized, echo.ErrForbidden, echo.ErrNotFound, echo.ErrMethodNotAllowed,
	echo.ErrRequestTimeout, echo.ErrConflict, echo.ErrStatusRequestEntityTooLarge, echo.ErrUnsupportedMediaType,
	echo.ErrUnprocessableEntity, echo.ErrTooManyRequests, echo.ErrTeapot,
}

const (
	c07SentISE      = 1
	c07SentNotFound = 8
	c07SentNotAllow = 9
)

// cases that touch echo's exported variables run alone
var c07Globals sync.RWMutex

func c07ResetSentinels() {
	for _, he := range c07EchoSent {
		he.Internal = nil
	}
}

func c07UsesSent(e *c07Err) bool {
	for ; e != nil; e = e.In {
		if e.Sent > 0 {
			return true
		}
	}
	return false
}

// ---- markers: every atom is a unique string ----
func c07Mk(t int) string { return "qx" + strconv.Itoa(t) + "xq" }

var c07MkRe = regexp.MustCompile(`qx(\d+)xq|\b7(\d{6})\b`)

type c07StdText struct {
	text string
	atom int
}

var c07StdTexts = func() []c07StdText {
	var l []c07StdText
	for i, e := range c07StdErrs {
		l = append(l, c07StdText{e.Error(), 9001 + i})
	}
	sort.Slice(l, func(i, j int) bool { return len(l[i].text) > len(l[j].text) }) // longest first ("unexpected EOF" before "EOF")
	return l
}()

func c07Atoms(s string) []int {
	seen := map[int]bool{}
	for _, m := range c07MkRe.FindAllStringSubmatch(s, -1) {
		d := m[1]
		if d == "" {
			d = m[2]
		}
		n, _ := strconv.Atoi(d)
		seen[n] = true
	}
	for _, st := range c07StdTexts {
		if strings.Contains(s, st.text) {
			seen[st.atom] = true
			s = strings.ReplaceAll(s, st.text, " ")
		}
	}
	var out []int
	for n := range seen {
		out = append(out, n)
	}
	sort.Ints(out)
	return out
}

// bytes appended to a marker: what strconv.Quote and JSON escape differently, what JSON cannot
// carry (invalid UTF-8 arrives as U+FFFD, one per byte), what encoding/json HTML-escapes
var c07Decor = []string{
	"", "\x00", "\x01", "\a", "\v", "\x7f", "\xff", "\xc3(", "\U000e0001", "\u2028\u2029", " \"quoted\" ", " back\\slash ",
	" <b>&amp;</b> ", "\n\t\r\b\f", "é日本", "\x1b[31m", "\xed\xa0\x80", "\x1f\x7f\u0080\u009f", "\ufeff\ufffd", "'`${}%s%d",
}

func c07Dec(i int) string {
	if i <= 0 || i >= len(c07Decor) {
		return ""
	}
	return c07Decor[i]
}

// what a JSON client decodes for a Go string: every byte that is not part of a valid UTF-8
// sequence arrives as U+FFFD
func c07Coerce(s string) string {
	var b strings.Builder
	for _, r := range s {
		b.WriteRune(r)
	}
	return b.String()
}

var c07MarkerPrefix = regexp.MustCompile(`^qx(\d+)xq`)

// a decoded message text that is a marker followed by one of the decorations
func c07MarkerText(ms string) (int, bool) {
	m := c07MarkerPrefix.FindStringSubmatch(ms)
	if m == nil {
		return 0, false
	}
	rest := ms[len(m[0]):]
	for _, d := range c07Decor {
		if rest == c07Coerce(d) {
			n, _ := strconv.Atoi(m[1])
			return n, true
		}
	}
	return 0, false
}

// atom and text of a plain / wrap node
func c07Atom(e *c07Err) int {
	if e.K == "plain" && e.Std > 0 {
		return 9000 + e.Std
	}
	return e.T
}
func c07Text(e *c07Err) string {
	if e.K == "plain" && e.Std > 0 {
		return c07StdErrs[e.Std-1].Error()
	}
	return c07Mk(e.T) + c07Dec(e.Dec)
}

// the part of the text that identifies it in a body whatever the escaping
func c07Needle(e *c07Err) string {
	if e.K == "plain" && e.Std > 0 {
		return c07StdErrs[e.Std-1].Error()
	}
	return c07Mk(e.T)
}

// ---- message / error values of various Go types ----
type c07Marsh struct{ ID string }

func (m c07Marsh) MarshalJSON() ([]byte, error) {
	return json.Marshal(map[string]string{"doc": m.ID})
}

type c07MarshErr struct{ ID string }

func (m c07MarshErr) MarshalJSON() ([]byte, error) {
	return json.Marshal(map[string]string{"doc": m.ID})
}
func (m c07MarshErr) Error() string { return "marshErr " + m.ID }

// an application error type with Unwrap
type c07Wrapper struct {
	text  string
	inner error
}

func (w *c07Wrapper) Error() string { return w.text + " <- " + w.inner.Error() }
func (w *c07Wrapper) Unwrap() error { return w.inner }

// a message of a named string type is not a `string` for the handler's type switch
type c07NamedString string

type c07DocStruct struct {
	Doc string `json:"doc"`
}
type c07PanicStruct struct{ ID string }

func c07BuildMsg(m *c07Msg) interface{} {
	switch m.K {
	case "str":
		return c07Mk(m.T) + c07Dec(m.Dec)
	case "err":
		return errors.New(c07Mk(m.T) + c07Dec(m.Dec))
	case "marsh":
		if m.V%2 == 1 {
			return c07MarshErr{c07Mk(m.T)}
		}
		return c07Marsh{c07Mk(m.T)}
	case "other":
		if m.V == 5 {
			return c07NamedString(c07Mk(m.T))
		}
		switch m.V % 3 {
		case 1:
			return c07DocStruct{c07Mk(m.T)}
		case 2:
			return []string{c07Mk(m.T)}
		}
		return echo.Map{"doc": c07Mk(m.T)}
	}
	return nil
}

func c07Build(e *c07Err) error {
	switch e.K {
	case "plain":
		if e.Std > 0 {
			return c07StdErrs[e.Std-1]
		}
		return errors.New(c07Text(e))
	case "wrap":
		switch e.V % 3 {
		case 1:
			return errors.Join(errors.New(c07Text(e)), c07Build(e.In))
		case 2:
			return &c07Wrapper{c07Text(e), c07Build(e.In)}
		}
		return fmt.Errorf("%s: %w", c07Text(e), c07Build(e.In))
	}
	var he *echo.HTTPError
	if e.Sent > 0 {
		he = c07EchoSent[e.Sent-1]
	} else if e.Msg.K == "dflt" {
		he = echo.NewHTTPError(e.Code)
	} else if e.V%2 == 0 {
		he = echo.NewHTTPError(e.Code, c07BuildMsg(e.Msg))
	} else {
		he = &echo.HTTPError{Code: e.Code, Message: c07BuildMsg(e.Msg)}
	}
	if e.In != nil {
		if e.V%3 == 0 {
			he = he.WithInternal(c07Build(e.In))
		} else {
			he = he.SetInternal(c07Build(e.In))
		}
	}
	return he
}

// ---- symbolic copy of what c07Build does to echo's exported variables ----
//
// alias form: a node with Sent > 0 stands for "the variable itself" (its Internal lives in the
// heap); every other node is a value of its own.
type c07Heap map[int]*c07Err

var c07Dflt = &c07Msg{K: "dflt"}

func (h c07Heap) build(e *c07Err) *c07Err {
	if e == nil {
		return nil
	}
	switch e.K {
	case "plain":
		return e
	case "wrap":
		return &c07Err{K: "wrap", T: e.T, V: e.V, Dec: e.Dec, In: h.build(e.In)}
	}
	in := h.build(e.In)
	if e.Sent > 0 {
		code := c07EchoSent[e.Sent-1].Code
		if e.In != nil && e.V%3 == 0 { // WithInternal: a fresh copy, the variable stays as it is
			return &c07Err{K: "http", Code: code, Msg: c07Dflt, In: in}
		}
		if e.In != nil { // SetInternal: the variable itself is changed and returned
			h[e.Sent] = in
		}
		return &c07Err{K: "http", Sent: e.Sent, Code: code, Msg: c07Dflt}
	}
	d := *e
	d.In = in
	return &d
}

// the tree an alias-form value has NOW
func (h c07Heap) resolve(a *c07Err) *c07Err {
	if a == nil {
		return nil
	}
	d := *a
	if a.K == "http" && a.Sent > 0 {
		d.Sent = 0
		d.In = h.resolve(h[a.Sent])
	} else {
		d.In = h.resolve(a.In)
	}
	return &d
}

// exported variables are used with strictly increasing index from the outside in; trees a
// LogErrorFunc returns do not use them at all
func c07ValidErr(e *c07Err, allowSent bool) bool {
	last := 0
	for ; e != nil; e = e.In {
		switch e.K {
		case "plain":
			if e.Std < 0 || e.Std > len(c07StdErrs) || e.In != nil {
				return false
			}
		case "wrap":
			if e.In == nil {
				return false
			}
		case "http":
			if e.Sent != 0 {
				if !allowSent || e.Sent <= last || e.Sent > len(c07EchoSent) {
					return false
				}
				last = e.Sent
			} else if e.Msg == nil || e.Code < 200 || e.Code > 599 {
				return false // the property quantifies over codes 200-599
			}
		default:
			return false
		}
	}
	return true
}

func c07EncMsg(m *c07Msg) string {
	k := map[string]int{"str": 0, "dflt": 1, "err": 2, "marsh": 3, "other": 4, "nil": 5}[m.K]
	return wJoin(wInt(k), wInt(m.T))
}

// resolved trees only
func c07EncErr(e *c07Err) string {
	switch e.K {
	case "plain":
		return wJoin("0", wInt(c07Atom(e)))
	case "wrap":
		return wJoin("1", wInt(e.T), c07EncErr(e.In))
	}
	if e.In == nil {
		return wJoin("2", wInt(e.Code), c07EncMsg(e.Msg))
	}
	return wJoin("3", wInt(e.Code), c07EncMsg(e.Msg), c07EncErr(e.In))
}

// ---- the chain ----

// layers (outermost first) and their placement; legacy fields are translated
func (c *c07Case) chain() (layers []c07Layer, nPre, nUse, nGroup int) {
	if len(c.Layers) > 0 {
		nPre, nUse, nGroup = c.NPre, c.NUse, c.NGroup
		clamp := func(v *int, max int) {
			if *v < 0 {
				*v = 0
			}
			if *v > max {
				*v = max
			}
		}
		clamp(&nPre, len(c.Layers))
		clamp(&nUse, len(c.Layers)-nPre)
		clamp(&nGroup, len(c.Layers)-nPre-nUse)
		return c.Layers, nPre, nUse, nGroup
	}
	if c.Double {
		layers = append(layers, c07Layer{K: "cerr", Ret: true})
	}
	if c.Recover {
		if c.DisableEH {
			layers = append(layers, c07Layer{K: "recover", DisableEH: true, NoStack: true})
		} else {
			layers = append(layers, c07Layer{K: "recover", Default: true})
		}
	}
	return layers, 0, len(layers), 0
}

// What the failing code did to the response first.  Besides the direct calls (wrote = c.String,
// nocontent, flush = Response.Flush, writeheader, jsonbad) there are the ways that reach
// echo.Response through the optional-interface probes of the standard library — an
// implementation of such an interface on Response would have to do the commit bookkeeping itself:
//   copy     io.Copy(resp, source without WriteTo)      probes resp for io.ReaderFrom
//   copywt   io.Copy(resp, strings.NewReader("pre"))    WriteTo → io.WriteString: io.StringWriter
//   wstring  io.WriteString(resp, "pre")                io.StringWriter
//   stream   c.Stream(code, type, reader)               WriteHeader, then io.Copy
//   rcflush  http.NewResponseController(resp).Flush()   FlushError / http.Flusher
//   feflush  FlushError() if resp offers it, else Flush()
// copy / copywt / wstring commit implicitly: with 200, or with PreCode preset by a failed c.JSON.
// Category for model and oracle: wrote | nocontent | flush | writeheader | jsonbad | "".
func c07PreCat(pre string) string {
	switch pre {
	case "copy", "copywt", "wstring", "stream":
		return "wrote"
	case "rcflush", "feflush":
		return "flush"
	}
	return pre
}

func c07PreImplicit(pre string) bool { return pre == "copy" || pre == "copywt" || pre == "wstring" }

// a reader without WriteTo that hands out its text in one Read
type c07Src struct{ s string }

func (r *c07Src) Read(b []byte) (int, error) {
	if r.s == "" {
		return 0, io.EOF
	}
	n := copy(b, r.s)
	r.s = r.s[n:]
	return n, nil
}

func c07IsAbort(rq *c07Case) bool {
	return rq.Panic == "abort" || (rq.Panic == "err" && rq.Err != nil && rq.Err.K == "plain" && rq.Err.Std == c07StdAbort)
}

func c07Skips(rq *c07Case, i int, l c07Layer) bool {
	if l.K != "recover" || l.Default {
		return false
	}
	for _, k := range rq.Skip {
		if k == i {
			return true
		}
	}
	return false
}

// what the chain must do with the request, from the documented contract of the middlewares
// (harness's own cerr; Recover: Skipper, ErrAbortHandler re-panicked, LogErrorFunc's result
// replaces the error, DisableErrorHandler hands the error upstream instead of calling c.Error)
type c07Expect struct {
	crash     bool
	swallowed bool    // a LogErrorFunc returned nil
	final     *c07Err // resolved tree of the error the client must be told about
	replBy    int     // index of the layer whose LogErrorFunc replaced the error, or -1
	catcher   int     // index of the Recover layer that caught the panic, or -1
	nInv      int     // HTTPErrorHandler invocations
}

func c07Travel(layers []c07Layer, rq *c07Case, raised *c07Err) c07Expect {
	x := c07Expect{replBy: -1, catcher: -1}
	panicking := rq.Panic != ""
	cur := raised         // the error the chain carries
	carrying := !panicking // does next(c) return it at this level?
	for i := len(layers) - 1; i >= 0; i-- {
		l := layers[i]
		switch {
		case l.K == "recover" && panicking:
			if c07Skips(rq, i, l) || c07IsAbort(rq) {
				continue
			}
			panicking, carrying, x.catcher = false, true, i
			if !l.Default {
				switch l.LogFn {
				case "replace":
					cur, x.replBy = l.Repl, i
				case "nil":
					carrying, x.swallowed = false, true
				}
			}
			if carrying && !(l.DisableEH && !l.Default) {
				x.nInv++ // c.Error(err); the chain goes on with nil
				carrying = false
			}
		case l.K == "cerr" && carrying:
			x.nInv++
			carrying = l.Ret
		}
	}
	if panicking {
		return c07Expect{crash: true, replBy: -1, catcher: -1}
	}
	if carrying {
		x.nInv++ // ServeHTTP
	}
	if !x.swallowed {
		x.final = cur
	}
	return x
}

// effective chain of a request: the router's own 404/405 handlers are inside Pre and Use only
func c07Effective(cfg, rq *c07Case) []c07Layer {
	layers, nPre, nUse, nGroup := cfg.chain()
	switch {
	case rq.From == "pre":
		return layers[:nPre]
	case rq.Via != "" || rq.From == "use" || rq.From == "after":
		return layers[:nPre+nUse]
	case rq.From == "group":
		return layers[:nPre+nUse+nGroup]
	}
	return layers
}

func c07EncLayer(rq *c07Case, i int, l c07Layer) string {
	if l.K == "cerr" {
		return wJoin("1", wBool(l.Ret))
	}
	if l.Default {
		return "0 0 0 0"
	}
	fn := "0"
	switch l.LogFn {
	case "same":
		fn = "1"
	case "replace":
		fn = wJoin("2", c07EncErr(l.Repl))
	case "nil":
		fn = "3"
	}
	return wJoin("0", wBool(c07Skips(rq, i, l)), wBool(l.DisableEH), fn)
}

// model line of one request; raised = resolved tree of the raised error value (nil for non-error panics)
func c07OpsOne(cfg, c *c07Case, raised *c07Err) string {
	pre := map[string]int{"": 0, "wrote": 1, "nocontent": 2, "flush": 3, "jsonbad": 4, "writeheader": 5}[c07PreCat(c.Pre)]
	preCode := c.PreCode
	switch c.In {
	case "hook", "writer":
		pre = 6 // the commit of the pre-step is aborted by a panic
		if preCode < 0 {
			preCode = 1000000 - preCode
		}
	case "noflush":
		pre, preCode = 7, 9000+c07StdNoFlush // commit, then Response.Flush panics with the error of that text
	}
	layers := c07Effective(cfg, c)
	parts := []string{wBool(cfg.Debug), wBool(c.Method == http.MethodHead), wInt(len(layers))}
	for i, l := range layers {
		parts = append(parts, c07EncLayer(c, i, l))
	}
	parts = append(parts, wInt(pre), wInt(preCode))
	switch {
	case c07IsAbort(c):
		parts = append(parts, "1", "4")
	case c.Panic == "":
		parts = append(parts, "0", c07EncErr(raised))
	case c.Panic == "err":
		parts = append(parts, "1", "0", c07EncErr(raised))
	case c.Panic == "str":
		parts = append(parts, "1", "1", wInt(c.PanicT))
	case c.Panic == "int":
		parts = append(parts, "1", "2", wInt(c.PanicT))
	case c.Panic == "struct":
		parts = append(parts, "1", "3", wInt(c.PanicT))
	}
	parts = append(parts, wBool(cfg.CustomEH))
	return strings.Join(parts, " ")
}

// ---- recording writer ----
type c07Writer struct {
	h      http.Header
	calls  []int
	chunks [][]byte
	fail   bool
	// refuse status codes outside 100..999 like net/http's writer: panic before recording
	strict bool
	atom   int // named in the panic text
	// what reached the optional interfaces
	flushes, hijacks, pushes int
}

var errC07Write = errors.New("underlying writer: connection lost")

func (w *c07Writer) Header() http.Header  { return w.h }
func (w *c07Writer) WriteHeader(code int) {
	if w.strict && len(w.calls) == 0 && (code < 100 || code > 999) {
		panic(fmt.Sprintf("invalid WriteHeader code %v %s", code, c07Mk(w.atom)))
	}
	w.calls = append(w.calls, code)
}
func (w *c07Writer) Write(b []byte) (int, error) {
	if len(w.calls) == 0 {
		w.calls = append(w.calls, -200) // implicit 200 of the underlying writer: echo wrote without committing
	}
	w.chunks = append(w.chunks, append([]byte(nil), b...))
	if w.fail {
		return 0, errC07Write
	}
	return len(b), nil
}
// optional interfaces of the underlying writer (Caps)
type c07mR struct{ w *c07Writer }
type c07mX struct{ w *c07Writer }
type c07mF struct{ w *c07Writer }
type c07mH struct{ w *c07Writer }

func (m c07mR) ReadFrom(src io.Reader) (int64, error) {
	buf := make([]byte, 32*1024)
	var total int64
	for {
		n, rerr := src.Read(buf)
		if n > 0 {
			k, werr := m.w.Write(buf[:n])
			total += int64(k)
			if werr != nil {
				return total, werr
			}
		}
		if rerr == io.EOF {
			return total, nil
		}
		if rerr != nil {
			return total, rerr
		}
	}
}
func (m c07mX) WriteString(s string) (int, error) { return m.w.Write([]byte(s)) }
func (m c07mX) FlushError() error                 { m.w.flush(); return nil }
func (m c07mF) Flush()                            { m.w.flush() }

var errC07Hijack = errors.New("recording writer: no connection to hand out")

func (m c07mH) Hijack() (net.Conn, *bufio.ReadWriter, error) {
	m.w.hijacks++
	return nil, nil, errC07Hijack
}
func (m c07mH) Push(target string, opts *http.PushOptions) error {
	m.w.pushes++
	return http.ErrNotSupported
}

// a writer wrapper as middleware and libraries write them: the three methods plus Unwrap
type c07Wrap struct{ inner http.ResponseWriter }

func (u c07Wrap) Header() http.Header         { return u.inner.Header() }
func (u c07Wrap) WriteHeader(code int)        { u.inner.WriteHeader(code) }
func (u c07Wrap) Write(b []byte) (int, error) { return u.inner.Write(b) }
func (u c07Wrap) Unwrap() http.ResponseWriter { return u.inner }

// c07Under: the recording core with exactly the optional interfaces Caps asks for (16 distinct
// dynamic types), behind an Unwrap-only wrapper for bit 8
func c07Under(w *c07Writer, caps int) http.ResponseWriter {
	u := c07Core(w, caps&4 == 0, caps&1 != 0, caps&2 != 0, caps&16 != 0)
	if caps&8 != 0 {
		return c07Wrap{u}
	}
	return u
}

func c07Core(w *c07Writer, fl, rf, x, hj bool) http.ResponseWriter {
	f, r, xx, h := c07mF{w}, c07mR{w}, c07mX{w}, c07mH{w}
	switch {
	case fl && rf && x && hj:
		return struct {
			*c07Writer
			c07mF
			c07mR
			c07mX
			c07mH
		}{w, f, r, xx, h}
	case fl && rf && x:
		return struct {
			*c07Writer
			c07mF
			c07mR
			c07mX
		}{w, f, r, xx}
	case fl && rf && hj:
		return struct {
			*c07Writer
			c07mF
			c07mR
			c07mH
		}{w, f, r, h}
	case fl && x && hj:
		return struct {
			*c07Writer
			c07mF
			c07mX
			c07mH
		}{w, f, xx, h}
	case rf && x && hj:
		return struct {
			*c07Writer
			c07mR
			c07mX
			c07mH
		}{w, r, xx, h}
	case fl && rf:
		return struct {
			*c07Writer
			c07mF
			c07mR
		}{w, f, r}
	case fl && x:
		return struct {
			*c07Writer
			c07mF
			c07mX
		}{w, f, xx}
	case fl && hj:
		return struct {
			*c07Writer
			c07mF
			c07mH
		}{w, f, h}
	case rf && x:
		return struct {
			*c07Writer
			c07mR
			c07mX
		}{w, r, xx}
	case rf && hj:
		return struct {
			*c07Writer
			c07mR
			c07mH
		}{w, r, h}
	case x && hj:
		return struct {
			*c07Writer
			c07mX
			c07mH
		}{w, xx, h}
	case fl:
		return struct {
			*c07Writer
			c07mF
		}{w, f}
	case rf:
		return struct {
			*c07Writer
			c07mR
		}{w, r}
	case x:
		return struct {
			*c07Writer
			c07mX
		}{w, xx}
	case hj:
		return struct {
			*c07Writer
			c07mH
		}{w, h}
	}
	return w // Header, WriteHeader, Write: nothing else
}

// a flush that reached the underlying writer
func (w *c07Writer) flush() {
	w.flushes++
	if len(w.calls) == 0 {
		w.calls = append(w.calls, -200)
	}
}

// ---- recording logger: where Recover logs the stack, what the error handler logs ----
type c07Logger struct {
	echo.Logger
	st *c07State
}

func (l *c07Logger) rec(level string, i []interface{}) {
	s := fmt.Sprint(i...)
	if strings.Contains(s, "[PANIC RECOVER]") {
		l.st.panicLogs = append(l.st.panicLogs, level)
	} else if level == "ERROR" {
		l.st.errorLogs++
	}
}
func (l *c07Logger) Print(i ...interface{}) { l.rec("PRINT", i) }
func (l *c07Logger) Debug(i ...interface{}) { l.rec("DEBUG", i) }
func (l *c07Logger) Info(i ...interface{})  { l.rec("INFO", i) }
func (l *c07Logger) Warn(i ...interface{})  { l.rec("WARN", i) }
func (l *c07Logger) Error(i ...interface{}) { l.rec("ERROR", i) }

// canonical form of one body chunk, in the model's encDoc format
func c07CanonChunk(b []byte, status int) string {
	if string(b) == "pre" {
		return "0"
	}
	var v interface{}
	if json.Unmarshal(b, &v) != nil {
		return "9"
	}
	if v == nil {
		return "3" // the JSON document null
	}
	if obj, ok := v.(map[string]interface{}); ok {
		if mv, has := obj["message"]; has {
			ms, isStr := mv.(string)
			if !isStr {
				return "9"
			}
			var text string
			if at, ok := c07MarkerText(ms); ok {
				text = wJoin("0", wInt(at))
			} else if ms == http.StatusText(status) {
				text = wJoin("1", wInt(status))
			} else {
				return "9"
			}
			extra := len(obj) - 1
			dbg := "0"
			if ev, has := obj["error"]; has {
				es, isStr := ev.(string)
				if !isStr {
					return "9"
				}
				extra--
				at := c07Atoms(es)
				p := []string{"1", wInt(len(at))}
				for _, a := range at {
					p = append(p, wInt(a))
				}
				dbg = strings.Join(p, " ")
			}
			if extra != 0 {
				return "9"
			}
			return wJoin("1", text, dbg)
		}
	}
	if at := c07Atoms(string(b)); len(at) == 1 {
		return wJoin("2", wInt(at[0]))
	}
	return "9"
}

// ---- what the property demands, computed from the (resolved) error value alone ----
func c07Rule(e *c07Err) (int, *c07Msg) {
	if e.K == "http" {
		he := e
		if e.In != nil && e.In.K == "http" {
			he = e.In
		}
		return he.Code, he.Msg
	}
	return http.StatusInternalServerError, nil
}

// texts of non-HTTP errors anywhere in the value: must never reach the client unless Debug
func c07Secrets(e *c07Err, out *[]string) {
	for ; e != nil; e = e.In {
		if e.K == "plain" || e.K == "wrap" {
			*out = append(*out, c07Needle(e))
		}
	}
}

func c07Depth(e *c07Err) int {
	if e == nil {
		return 0
	}
	return 1 + c07Depth(e.In)
}

// ---- everything observed while one case runs ----
type c07State struct {
	cur     *c07Case       // the request being served
	resp    *echo.Response // its echo.Response
	raised  error          // the error value its handler built (returned or panicked with)
	repl    map[int]error  // what the LogErrorFunc of layer i returns
	ehErrs  []error        // errors the configured HTTPErrorHandler was invoked with
	logFn   []c07LogFnCall // LogErrorFunc invocations
	skipper []int          // layers whose Skipper was consulted

	serialized int     // calls of the application's JSONSerializer
	after     bool     // From == after: the handler has returned, the middleware is failing now
	panicLogs []string // levels at which "[PANIC RECOVER] ..." was logged
	errorLogs int      // other Logger.Error calls (the error handler's own write failed)
}

type c07LogFnCall struct {
	layer int
	err   error
	stack int
}

func (st *c07State) reset(rq *c07Case) {
	st.cur, st.resp, st.raised, st.after = rq, nil, nil, false
	st.ehErrs, st.logFn, st.skipper, st.panicLogs, st.errorLogs = nil, nil, nil, nil, 0
}

func c07SkipHeader(rq *c07Case) string {
	var p []string
	for _, k := range rq.Skip {
		p = append(p, strconv.Itoa(k))
	}
	return "," + strings.Join(p, ",") + ","
}

func c07Middleware(c *c07Case, st *c07State, i int, l c07Layer, skippable bool) echo.MiddlewareFunc {
	if l.K == "cerr" {
		return func(next echo.HandlerFunc) echo.HandlerFunc {
			return func(ctx echo.Context) error {
				err := next(ctx)
				if err != nil {
					ctx.Error(err)
				}
				if l.Ret {
					return err
				}
				return nil
			}
		}
	}
	if l.Default {
		return middleware.Recover()
	}
	cfg := middleware.RecoverConfig{
		StackSize: l.StackSize, DisableStackAll: l.NoStackAll, DisablePrintStack: l.NoStack,
		LogLevel: log.Lvl(l.LogLevel), DisableErrorHandler: l.DisableEH,
	}
	if skippable { // otherwise left nil: the constructor fills in the default
		key := "," + strconv.Itoa(i) + ","
		cfg.Skipper = func(ctx echo.Context) bool {
			st.skipper = append(st.skipper, i)
			return strings.Contains(ctx.Request().Header.Get("X-Skip"), key)
		}
	}
	switch l.LogFn {
	case "same":
		cfg.LogErrorFunc = func(_ echo.Context, err error, stack []byte) error {
			st.logFn = append(st.logFn, c07LogFnCall{i, err, len(stack)})
			return err
		}
	case "replace":
		cfg.LogErrorFunc = func(_ echo.Context, err error, stack []byte) error {
			st.logFn = append(st.logFn, c07LogFnCall{i, err, len(stack)})
			return st.repl[i]
		}
	case "nil":
		cfg.LogErrorFunc = func(_ echo.Context, err error, stack []byte) error {
			st.logFn = append(st.logFn, c07LogFnCall{i, err, len(stack)})
			return nil
		}
	}
	return middleware.RecoverWithConfig(cfg)
}

// a JSONSerializer of the application's own type, behaviourally the default one
type c07Serializer struct {
	echo.DefaultJSONSerializer
	n *int
}

func (s c07Serializer) Serialize(c echo.Context, i interface{}, indent string) error {
	*s.n++
	return s.DefaultJSONSerializer.Serialize(c, i, indent)
}

type c07Validator struct{}

func (c07Validator) Validate(i interface{}) error { return nil }

type c07Renderer struct{}

func (c07Renderer) Render(w io.Writer, name string, data interface{}, c echo.Context) error {
	_, err := io.WriteString(w, "page")
	return err
}

func c07NewEcho(c *c07Case, st *c07State) *echo.Echo {
	e := echo.New()
	e.Logger.SetOutput(io.Discard)
	if c.LogLvl >= 1 && c.LogLvl <= 5 {
		e.Logger.SetLevel(log.Lvl(c.LogLvl))
	}
	if c.Knobs&8 != 0 {
		e.Logger.SetPrefix("app")
		e.Logger.SetHeader("${time_rfc3339} ${level} ${prefix}")
		e.Logger.SetOutput(&bytes.Buffer{})
	}
	e.Logger = &c07Logger{Logger: e.Logger, st: st}
	e.Debug = c.Debug
	if c.Knobs&1 != 0 {
		e.HideBanner, e.HidePort = true, true
	}
	if c.Knobs&2 != 0 {
		e.JSONSerializer = c07Serializer{n: &st.serialized}
	}
	if c.Knobs&4 != 0 {
		e.Validator, e.Renderer, e.Binder = c07Validator{}, c07Renderer{}, &echo.DefaultBinder{}
		e.IPExtractor = echo.ExtractIPDirect()
	}
	if c.Knobs&16 != 0 {
		e.StdLogger = stdlog.New(io.Discard, "std: ", 0)
		e.Server.ReadTimeout, e.Server.WriteTimeout = time.Second, time.Second
		e.DisableHTTP2, e.ListenerNetwork = true, "tcp4"
	}
	if c.Knobs&32 != 0 {
		// the application switches debug LOGGING on for the request: not Echo.Debug
		e.Pre(func(next echo.HandlerFunc) echo.HandlerFunc {
			return func(ctx echo.Context) error {
				l := log.New("request")
				l.SetOutput(io.Discard)
				l.SetLevel(log.DEBUG)
				ctx.SetLogger(l)
				return next(ctx)
			}
		})
	}
	if c.CustomEH {
		e.HTTPErrorHandler = func(err error, ctx echo.Context) {
			st.ehErrs = append(st.ehErrs, err)
			e.DefaultHTTPErrorHandler(err, ctx)
		}
	}
	layers, nPre, nUse, nGroup := c.chain()
	skippable := map[int]bool{}
	for _, rq := range append([]*c07Case{c}, c.Then...) {
		for _, k := range rq.Skip {
			skippable[k] = true
		}
	}
	st.repl = map[int]error{}
	var mws []echo.MiddlewareFunc
	for i, l := range layers {
		if l.K == "recover" && l.LogFn == "replace" && l.Repl != nil {
			st.repl[i] = c07Build(l.Repl)
		}
		mws = append(mws, c07Middleware(c, st, i, l, skippable[i]))
	}
	if c.PreNoop {
		e.Pre(func(next echo.HandlerFunc) echo.HandlerFunc {
			return func(ctx echo.Context) error { return next(ctx) }
		})
	}
	// the failing code: what it does to the response first, then how it fails
	raise := func(ctx echo.Context) error {
		c := st.cur // the request being served
		st.resp = ctx.Response()
		throw := func() {
			switch c.Panic {
			case "err":
				st.raised = c07Build(c.Err)
				panic(st.raised)
			case "str":
				panic(c07Mk(c.PanicT) + c07Dec(c.PanicDec))
			case "int":
				panic(7000000 + c.PanicT)
			case "struct":
				panic(c07PanicStruct{c07Mk(c.PanicT)})
			case "abort":
				panic(http.ErrAbortHandler)
			}
		}
		if c.In == "hook" {
			fired := false
			ctx.Response().Before(func() {
				if !fired { // the first commit attempt only: the error handler's own commit passes
					fired = true
					throw()
				}
			})
		}
		if c07PreImplicit(c.Pre) && c.PreCode != 200 && c.PreCode != 0 {
			_ = ctx.JSON(c.PreCode, make(chan int)) // presets the status, sends nothing
		}
		switch c.Pre {
		case "copy":
			_, _ = io.Copy(ctx.Response(), &c07Src{"pre"})
		case "copywt":
			_, _ = io.Copy(ctx.Response(), strings.NewReader("pre"))
		case "wstring":
			_, _ = io.WriteString(ctx.Response(), "pre")
		case "stream":
			_ = ctx.Stream(c.PreCode, "text/plain", &c07Src{"pre"})
		case "rcflush":
			_ = http.NewResponseController(ctx.Response()).Flush()
		case "feflush":
			var rw http.ResponseWriter = ctx.Response()
			if fe, ok := rw.(interface{ FlushError() error }); ok {
				_ = fe.FlushError()
			} else {
				ctx.Response().Flush()
			}
		case "wrote":
			_ = ctx.String(c.PreCode, "pre")
		case "nocontent":
			_ = ctx.NoContent(c.PreCode)
		case "flush":
			ctx.Response().Flush()
		case "jsonbad":
			_ = ctx.JSON(c.PreCode, make(chan int))
		case "writeheader":
			ctx.Response().WriteHeader(c.PreCode)
		}
		if c.From == "after" && !st.after {
			return nil // the middleware fails on the way back
		}
		if c.Panic == "" {
			st.raised = c07Build(c.Err)
			return st.raised
		}
		throw()
		return nil
	}
	// a middleware that fails instead of calling next, for the requests raised at its level
	raiser := func(level string) echo.MiddlewareFunc {
		return func(next echo.HandlerFunc) echo.HandlerFunc {
			return func(ctx echo.Context) error {
				if st.cur != nil && st.cur.From == level && st.cur.Via == "" {
					return raise(ctx)
				}
				if level == "use" && st.cur != nil && st.cur.From == "after" && st.cur.Via == "" {
					if err := next(ctx); err != nil {
						return err
					}
					st.after = true
					rq := *st.cur
					rq.Pre, rq.In = "", "" // the response part is done: now fail
					saved := st.cur
					st.cur = &rq
					defer func() { st.cur = saved }()
					return raise(ctx)
				}
				return next(ctx)
			}
		}
	}
	fromLevels := map[string]bool{}
	for _, rq := range append([]*c07Case{c}, c.Then...) {
		fromLevels[rq.From] = true
	}
	e.Pre(mws[:nPre]...)
	if fromLevels["pre"] {
		e.Pre(raiser("pre"))
	}
	// transparent: lets the harness see the echo.Response of every request (also of those the
	// router answers itself)
	e.Use(func(next echo.HandlerFunc) echo.HandlerFunc {
		return func(ctx echo.Context) error {
			st.resp = ctx.Response()
			return next(ctx)
		}
	})
	e.Use(mws[nPre : nPre+nUse]...)
	e.Use(raiser("use"))
	h := raise
	g := e.Group("/g", append(append([]echo.MiddlewareFunc(nil), mws[nPre+nUse:nPre+nUse+nGroup]...), raiser("group"))...)
	g.Any("/x", h, mws[nPre+nUse+nGroup:]...)
	e.GET("/ok", func(ctx echo.Context) error { return ctx.String(http.StatusOK, "ok") })
	e.GET("/only", func(ctx echo.Context) error { return ctx.String(http.StatusOK, "ok") })
	return e
}

// the router answers itself: the request's error is echo's own variable
func c07Normalise(rq *c07Case) {
	switch rq.Via {
	case "404":
		rq.Pre, rq.PreCode, rq.Panic, rq.PanicT = "", 0, "", 0
		rq.Err = &c07Err{K: "http", Sent: c07SentNotFound}
	case "405":
		rq.Pre, rq.PreCode, rq.Panic, rq.PanicT = "", 0, "", 0
		rq.Err = &c07Err{K: "http", Sent: c07SentNotAllow}
		if rq.Method == http.MethodGet || rq.Method == http.MethodOptions {
			rq.Method = http.MethodPost // OPTIONS is answered 204 by the router, not an error
		}
	default:
		rq.Via = ""
	}
	if rq.Via != "" || (rq.From != "pre" && rq.From != "use" && rq.From != "group" && rq.From != "after") {
		rq.From = ""
	}
	if rq.From == "after" {
		rq.In = ""
	}
	if c07PreImplicit(rq.Pre) && rq.PreCode == 0 {
		rq.PreCode = 200
	}
	if c07PreCat(rq.Pre) == "flush" {
		rq.PreCode = 0
	}
	switch {
	case rq.Via != "":
		rq.In = ""
	case rq.In == "hook":
		if cat := c07PreCat(rq.Pre); cat != "wrote" && cat != "nocontent" && cat != "writeheader" && cat != "flush" {
			rq.Pre, rq.PreCode = "wrote", 200
		}
		if c07PreCat(rq.Pre) != "flush" && (rq.PreCode < 100 || rq.PreCode > 999) {
			rq.PreCode = 200
		}
		if rq.Panic == "" {
			rq.Panic = "err" // a hook cannot return an error: it panics with it
		}
	case rq.In == "writer":
		if rq.Pre != "wrote" && rq.Pre != "nocontent" && rq.Pre != "writeheader" {
			rq.Pre = "nocontent"
		}
		if rq.PreCode >= 100 && rq.PreCode <= 999 {
			rq.PreCode = 0
		}
		rq.Panic, rq.PanicDec, rq.Err = "str", 0, nil // net/http panics with a string
		if rq.PanicT == 0 {
			rq.PanicT = 77
		}
	default:
		rq.In = ""
	}
	// Response.Flush — also when reached through http.ResponseController or the FlushError probe:
	// echo.Response offers only Flush — on a writer that cannot flush commits and then panics with
	// echo's own error value: that panic, not what the handler was going to do next, is what the chain sees
	if rq.In == "" && c07NoFlush(rq.Caps) && c07PreCat(rq.Pre) == "flush" {
		rq.In, rq.Panic, rq.PanicT, rq.PanicDec = "noflush", "err", 0, 0
		rq.Err = &c07Err{K: "plain", Std: c07StdNoFlush}
		if rq.From == "after" {
			rq.From = "" // the handler itself fails
		}
	}
	if rq.In != "writer" && rq.Pre != "" && c07PreCat(rq.Pre) != "flush" && (rq.PreCode < 100 || rq.PreCode > 999) {
		rq.PreCode = 200 // codes the writer would refuse only with In == writer
	}
}

func c07Valid(c *c07Case) bool {
	layers, _, _, _ := c.chain()
	for _, l := range layers {
		if l.K != "recover" && l.K != "cerr" {
			return false
		}
		if l.K == "recover" && l.LogFn == "replace" && (l.Repl == nil || !c07ValidErr(l.Repl, false)) {
			return false
		}
		if l.LogLevel < 0 || l.LogLevel > 7 || l.StackSize < 0 || l.StackSize > 1<<16 {
			return false
		}
	}
	for _, rq := range append([]*c07Case{c}, c.Then...) {
		switch rq.Panic {
		case "", "err":
			if rq.Err == nil || !c07ValidErr(rq.Err, true) {
				return false
			}
		case "str", "int", "struct", "abort":
		default:
			return false
		}
		if rq.Method == "" {
			return false
		}
	}
	return true
}

func c07Run(ci any) (res Result) {
	c := ci.(*c07Case)
	reqs := append([]*c07Case{c}, c.Then...)
	for _, rq := range reqs {
		c07Normalise(rq)
	}
	if !c07Valid(c) {
		return Result{Tags: []string{"invalid-case"}}
	}
	exclusive := false
	for _, rq := range reqs {
		if c07UsesSent(rq.Err) {
			exclusive = true
		}
	}
	if exclusive {
		c07Globals.Lock()
		defer c07Globals.Unlock()
		c07ResetSentinels()
		defer c07ResetSentinels()
	} else {
		c07Globals.RLock()
		defer c07Globals.RUnlock()
	}
	ops := ""
	defer func() {
		if p := recover(); p != nil {
			res = Result{Ops: ops, Obs: "harness-panic", Oracle: fmt.Sprintf("panic outside ServeHTTP: %v", p)}
		}
	}()
	st := &c07State{}
	e := c07NewEcho(c, st)
	heap := c07Heap{}

	oracle := ""
	tagSet := map[string]bool{}
	obs := []string{wInt(len(reqs))}
	opsParts := []string{wInt(len(reqs))}
	nontrivial := len(reqs) > 1
	for i, rq := range reqs {
		st.reset(rq)
		// the value the handler is about to build, as a tree: SetInternal on an exported variable
		// takes effect now, and what was stored there by earlier requests shows through
		var raised *c07Err
		switch rq.Panic {
		case "", "err":
			raised = heap.resolve(heap.build(rq.Err))
		}
		opsParts = append(opsParts, c07OpsOne(c, rq, raised))
		ops = strings.Join(opsParts, " ")
		o, msg, nt := c07One(e, c, rq, raised, st, tagSet, exclusive)
		obs = append(obs, o)
		nontrivial = nontrivial || nt
		if msg != "" && oracle == "" {
			if len(reqs) > 1 {
				msg = fmt.Sprintf("request %d of %d through the same Echo: %s", i+1, len(reqs), msg)
			}
			oracle = msg
		}
	}
	if len(reqs) > 1 {
		tagSet[fmt.Sprintf("sequence-of-%d", len(reqs))] = true
	}

	// the server goes on serving
	rec := httptest.NewRecorder()
	func() {
		defer func() {
			if r := recover(); r != nil && oracle == "" {
				oracle = fmt.Sprintf("follow-up request panicked: %v", r)
			}
		}()
		st.reset(&c07Case{})
		e.ServeHTTP(rec, httptest.NewRequest(http.MethodGet, "/ok", nil))
	}()
	if (rec.Code != http.StatusOK || rec.Body.String() != "ok") && oracle == "" {
		oracle = fmt.Sprintf("follow-up request not served: status %d body %q", rec.Code, rec.Body.String())
	}
	var tags []string
	for t := range tagSet {
		tags = append(tags, t)
	}
	return Result{Ops: ops, Obs: strings.Join(obs, " "), Oracle: oracle, Tags: tags, Nontrivial: nontrivial}
}

// c07One serves one failing request (rq) on the Echo built from cfg and judges it on its own:
// observation in the model's format, oracle verdict, non-triviality
func c07One(e *echo.Echo, cfg, c *c07Case, raised *c07Err, st *c07State, tagSet map[string]bool, exclusive bool) (string, string, bool) {
	w := &c07Writer{h: http.Header{}, fail: c.WFail, strict: c.In == "writer", atom: c.PanicT}
	path := "/g/x"
	switch c.Via {
	case "404":
		path = "/nope"
	case "405":
		path = "/only"
	}
	req := httptest.NewRequest(c.Method, path, nil)
	if len(c.Skip) > 0 {
		req.Header.Set("X-Skip", c07SkipHeader(c))
	}
	switch c.Ctx {
	case "cancelled":
		ctx, cancel := context.WithCancel(req.Context())
		cancel()
		req = req.WithContext(ctx)
	case "deadline":
		ctx, cancel := context.WithDeadline(req.Context(), time.Unix(0, 0))
		defer cancel()
		req = req.WithContext(ctx)
	}
	crashed := false
	committed := false
	func() {
		defer func() {
			if r := recover(); r != nil {
				crashed = true
			}
		}()
		e.ServeHTTP(c07Under(w, c.Caps), req)
		committed = st.resp != nil && st.resp.Committed
	}()

	oracle := ""
	fail := func(format string, a ...any) {
		if oracle == "" {
			oracle = fmt.Sprintf(format, a...)
		}
	}
	tag := func(t string) { tagSet[t] = true }
	// observation in the model's format
	var obs string
	status := 0
	if len(w.calls) > 0 {
		status = w.calls[0]
	}
	if crashed {
		obs = "X"
	} else {
		p := []string{wBool(committed), wInt(len(w.calls))}
		for _, cc := range w.calls {
			p = append(p, wInt(cc))
		}
		p = append(p, wInt(len(w.chunks)))
		for _, ch := range w.chunks {
			p = append(p, c07CanonChunk(ch, status))
		}
		// hand-overs to Echo.HTTPErrorHandler, visible only through the counting wrapper
		p = append(p, wInt(len(st.ehErrs)))
		obs = strings.Join(p, " ")
	}

	// ---------- model-free oracle ----------
	layers := c07Effective(cfg, c)
	carried := raised // the error value travelling up the chain, as a tree
	if c.Panic == "str" || c.Panic == "int" || c.Panic == "struct" {
		carried = &c07Err{K: "plain", T: c.PanicT}
	}
	want := c07Travel(layers, c, carried)
	head := c.Method == http.MethodHead
	preCat := c07PreCat(c.Pre)
	preCommitted := (preCat == "wrote" || preCat == "nocontent" || preCat == "flush" || preCat == "writeheader") && (c.In == "" || c.In == "noflush")
	var body []byte
	for _, ch := range w.chunks {
		body = append(body, ch...)
	}
	if want.crash {
		tag("unrecovered-panic")
		if !crashed {
			fail("a panic that no Recover instance handles (none installed, all skipping, or http.ErrAbortHandler) did not leave ServeHTTP")
		}
	} else if crashed {
		if c.Panic == "" {
			fail("ServeHTTP panicked although the handler only returned an error")
		} else {
			fail("the panic escaped ServeHTTP although a Recover instance that does not skip the request is installed")
		}
	} else {
		// information leak (checked first: the gravest way to fail)
		if !cfg.Debug {
			var secrets []string
			c07Secrets(carried, &secrets)
			if want.final != nil && want.final != carried {
				c07Secrets(want.final, &secrets)
			}
			if c.Panic == "int" {
				secrets = append(secrets, strconv.Itoa(7000000+c.PanicT))
			}
			for _, s := range secrets {
				if bytes.Contains(body, []byte(s)) {
					fail("text of an internal (non-HTTP) error (%q) reached the client with Debug off: %q", s, body)
				}
			}
		}
		if want.swallowed {
			tag("LogErrorFunc-returned-nil")
		}
		if want.swallowed && !preCommitted {
			// the application's LogErrorFunc returned nil: echo's contract is that the error
			// handler is not called; nothing must have been written on its behalf
			if len(w.calls) != 0 || len(w.chunks) != 0 || committed {
				fail("LogErrorFunc returned nil (error handler must not be called) but a response was written: WriteHeader calls %v, body %q", w.calls, body)
			}
		} else {
			if len(w.calls) != 1 {
				fail("exactly one response expected, the underlying writer received WriteHeader calls %v", w.calls)
			} else if w.calls[0] < 0 {
				fail("body written without a status line (underlying writer had to send its implicit 200)")
			}
			if !committed {
				fail("Response.Committed is false after the error was handled")
			}
		}
		if preCommitted {
			tag("committed-before")
			wantStatus := c.PreCode
			if preCat == "flush" {
				wantStatus = 200
			}
			wantBody := ""
			if preCat == "wrote" {
				wantBody = "pre"
			}
			if status != wantStatus || string(body) != wantBody {
				fail("response was committed (%d %q) before the error; afterwards status %d body %q", wantStatus, wantBody, status, body)
			}
		} else if !want.swallowed {
			// the rule, applied to the error the chain ends up reporting
			code, msg := c07Rule(want.final)
			if status != code {
				fail("status %d, the error value demands %d", status, code)
			}
			if head {
				tag("head")
				if len(body) != 0 {
					fail("HEAD response has a body: %q", body)
				}
			} else {
				if len(w.chunks) != 1 {
					fail("expected one JSON document, got %d body writes", len(w.chunks))
				}
				var v interface{}
				if json.Unmarshal(body, &v) != nil {
					fail("body is not a JSON document: %q", body)
				} else {
					obj, _ := v.(map[string]interface{})
					wantText, textual := "", true
					switch {
					case msg == nil:
						wantText = http.StatusText(http.StatusInternalServerError)
					case msg.K == "str" || msg.K == "err":
						// what a JSON client decodes must be the message itself
						wantText = c07Coerce(c07Mk(msg.T) + c07Dec(msg.Dec))
					case msg.K == "dflt":
						wantText = http.StatusText(code)
					default:
						textual = false
					}
					if textual {
						if got, _ := obj["message"].(string); obj == nil || got != wantText {
							fail("message %q expected, body %q", wantText, body)
						}
					} else {
						wantDoc, _ := json.Marshal(c07BuildMsg(msg))
						var wv interface{}
						json.Unmarshal(wantDoc, &wv)
						if fmt.Sprint(wv) != fmt.Sprint(v) {
							fail("body %q is not the message value %s", body, wantDoc)
						}
					}
					if _, has := obj["error"]; has && !cfg.Debug {
						fail("\"error\" detail in the body although Debug is off: %q", body)
					}
					// Debug: the detail is the text of the error that was handed over, as JSON carries it
					if det, has := obj["error"].(string); has && cfg.Debug && want.replBy < 0 && c.Via == "" && st.raised != nil && (c.Panic == "" || c.Panic == "err") && c.In != "writer" {
						if det != c07Coerce(st.raised.Error()) {
							fail("Debug detail %q is not the text of the error %q", det, st.raised.Error())
						}
					}
				}
			}
		}
		// "ServeHTTP hands the chain's error to HTTPErrorHandler once", c.Error reaches the
		// CONFIGURED handler: the counting wrapper saw every hand-over, each with the error the
		// chain carried
		if cfg.CustomEH {
			tag("custom-HTTPErrorHandler")
			if len(st.ehErrs) != want.nInv {
				fail("Echo.HTTPErrorHandler was invoked %d times, the chain hands the error over %d times", len(st.ehErrs), want.nInv)
			}
			for _, got := range st.ehErrs {
				switch {
				case want.replBy >= 0:
					if got != st.repl[want.replBy] {
						fail("Echo.HTTPErrorHandler was given %v, not the error LogErrorFunc returned", got)
					}
				case c.In == "noflush":
					if got == nil || got.Error() != errC07NoFlush.Error() {
						fail("Echo.HTTPErrorHandler was given %v, not the error Response.Flush panicked with", got)
					}
				case c.Panic == "" || c.Panic == "err":
					if c.Via == "" && got != st.raised {
						fail("Echo.HTTPErrorHandler was given %v, not the error the handler raised", got)
					}
				default:
					if at := c07Atoms(got.Error()); len(at) != 1 || at[0] != c.PanicT {
						fail("Echo.HTTPErrorHandler was given %q for a panic value carrying atom %d", got.Error(), c.PanicT)
					}
				}
			}
		}
		// Recover hands LogErrorFunc the recovered error and (unless disabled) the stack
		if want.catcher >= 0 {
			l := layers[want.catcher]
			if !l.Default && l.LogFn != "" {
				tag("LogErrorFunc:" + l.LogFn)
				if len(st.logFn) != 1 || st.logFn[0].layer != want.catcher {
					fail("LogErrorFunc of the catching Recover (layer %d) must run exactly once, ran %d times", want.catcher, len(st.logFn))
				} else {
					got := st.logFn[0]
					if c.In == "noflush" {
						if got.err == nil || got.err.Error() != errC07NoFlush.Error() {
							fail("LogErrorFunc was given %v, not the error Response.Flush panicked with", got.err)
						}
					} else if c.Panic == "err" && got.err != st.raised {
						fail("LogErrorFunc was given %v, not the error value the handler panicked with", got.err)
					}
					if (got.stack > 0) == l.NoStack {
						fail("LogErrorFunc got a stack of %d bytes with DisablePrintStack=%v", got.stack, l.NoStack)
					}
				}
			} else if len(st.logFn) != 0 {
				fail("a LogErrorFunc ran although the catching Recover has none")
			}
			for _, lv := range st.panicLogs {
				tag("stack-logged-at:" + lv)
			}
		}
	}

	// the optional interfaces of the underlying writer: error handling must not take the connection
	// away from net/http (the client would not receive the response) nor push; a writer that cannot
	// flush is never flushed
	if w.hijacks != 0 || w.pushes != 0 {
		fail("error handling used http.Hijacker / http.Pusher of the underlying writer (%d / %d calls): the client does not receive the response over this connection", w.hijacks, w.pushes)
	}

	// real server round trip: what a client gets is what the recording writer saw
	if cfg == c && c.RoundTrip && len(c.Then) == 0 && !want.crash && !crashed && !exclusive && c.Ctx == "" && !c.WFail && c.In != "writer" &&
		(c.Caps&4 == 0 || c07NoFlush(c.Caps)) {
		tag("round-trip")
		if c07NoFlush(c.Caps) {
			tag("round-trip-behind-http.TimeoutHandler")
		}
		if msg := c07RoundTrip(c, status, body); msg != "" {
			fail("%s", msg)
		}
	}

	if cfg.Debug {
		tag("debug")
	}
	if cfg.LogLvl != 0 {
		tag("logger-level:" + []string{"", "DEBUG", "INFO", "WARN", "ERROR", "OFF"}[cfg.LogLvl%6])
	}
	if cfg.Knobs != 0 {
		tag("config-knobs-next-to-Debug")
	}
	if c.Panic != "" {
		tag("panic:" + c.Panic)
	} else {
		tag("returned")
	}
	nrec := 0
	for i, l := range layers {
		if l.K == "cerr" {
			if l.Ret {
				tag("double-handling-middleware")
			} else {
				tag("middleware-reports-error-returns-nil")
			}
			continue
		}
		nrec++
		if l.Default {
			tag("Recover()")
		}
		if l.DisableEH && !l.Default {
			tag("recover-returns-error")
		}
		if c07Skips(c, i, l) {
			tag("recover-skipped")
		}
		if l.NoStack && !l.Default {
			tag("DisablePrintStack")
		}
	}
	if nrec >= 2 {
		tag("two-or-more-Recover-instances")
	}
	if _, nPre, _, nGroup := cfg.chain(); nPre > 0 || cfg.PreNoop {
		tag("pre-middleware")
	} else if nGroup > 0 {
		tag("group-middleware")
	}
	if c.Via != "" {
		tag("router-" + c.Via)
	}
	if c.From != "" {
		tag("raised-in-middleware:" + c.From)
	}
	if c.In == "hook" || c.In == "writer" {
		tag("panic-inside-commit:" + c.In)
	}
	if c.Pre != c07PreCat(c.Pre) {
		tag("response-written-through:" + c.Pre)
	}
	if c.Caps&1 != 0 {
		tag("underlying-writer-is-ReaderFrom")
	}
	if c.Caps&2 != 0 {
		tag("underlying-writer-is-StringWriter+FlushError")
	}
	if c07NoFlush(c.Caps) {
		tag("underlying-writer-is-no-Flusher")
	} else if c.Caps&4 != 0 {
		tag("underlying-writer-flushes-through-FlushError-only")
	}
	if c.Caps&8 != 0 {
		tag("underlying-writer-behind-Unwrap-only-wrapper")
	}
	if c.Caps&16 != 0 {
		tag("underlying-writer-is-Hijacker+Pusher")
	}
	if c.In == "noflush" {
		tag("Response.Flush-panics-after-commit")
	}
	if c.Ctx != "" {
		tag("request-context-" + c.Ctx)
	}
	if c.WFail {
		tag("underlying-write-fails")
		if st.errorLogs > 0 {
			tag("error-handler-write-failure-logged")
		}
	}
	if exclusive {
		tag("exported-echo-error-variable")
	}
	for x := carried; x != nil; x = x.In {
		if x.K == "plain" && x.Std > 0 {
			tag("well-known-plain-error")
		}
	}
	if c.Err != nil {
		tag("top:" + c.Err.K)
		if c.Err.K == "http" {
			if c.Err.Sent == 0 {
				tag("msg:" + c.Err.Msg.K)
			}
			if c.Err.In != nil {
				tag("internal:" + c.Err.In.K)
				if c.Err.In.K == "http" && c.Err.In.Sent == 0 {
					tag("carried-msg:" + c.Err.In.Msg.K)
				}
			}
		}
		if c.Err.K == "wrap" && c.Err.In.K == "http" {
			tag("wrapped-http-error")
		}
	}
	if status == 204 || status == 304 {
		tag("bodyless-status")
	}
	if c.Pre == "jsonbad" || (c07PreImplicit(c.Pre) && c.PreCode != 200) {
		tag("status-preset-before")
	}
	return obs, oracle, c07Depth(carried) >= 2 || c.Panic != "" || preCommitted || len(layers) >= 2
}

func c07RoundTrip(c *c07Case, status int, body []byte) string {
	st := &c07State{}
	e := c07NewEcho(c, st)
	st.reset(c)
	var app http.Handler = e
	if c07NoFlush(c.Caps) {
		// the standard library's own writer without Flush: echo mounted under http.TimeoutHandler
		app = http.TimeoutHandler(e, time.Minute, "timeout")
	}
	srv := httptest.NewUnstartedServer(app)
	srv.Config.ErrorLog = stdlog.New(io.Discard, "", 0)
	srv.Start()
	defer srv.Close()
	req, _ := http.NewRequest(c.Method, srv.URL+"/g/x", nil)
	if c.Via == "404" {
		req, _ = http.NewRequest(c.Method, srv.URL+"/nope", nil)
	} else if c.Via == "405" {
		req, _ = http.NewRequest(c.Method, srv.URL+"/only", nil)
	}
	if len(c.Skip) > 0 {
		req.Header.Set("X-Skip", c07SkipHeader(c))
	}
	// the server's own client/transport: Server.Close of a concurrently running case closes the
	// idle connections of http.DefaultTransport
	client := srv.Client()
	client.CheckRedirect = func(*http.Request, []*http.Request) error { return http.ErrUseLastResponse }
	resp, err := client.Do(req)
	if err != nil {
		return fmt.Sprintf("real server: client got no response: %v", err)
	}
	defer resp.Body.Close()
	got, _ := io.ReadAll(resp.Body)
	if status == 0 {
		status = 200 // nothing was written through echo: net/http answers with its own 200
	}
	if resp.StatusCode != status {
		return fmt.Sprintf("real server: client status %d, recording writer %d", resp.StatusCode, status)
	}
	want := body
	if c.Method == http.MethodHead || status == 204 || status == 304 || status < 200 {
		want = nil // net/http does not transmit a body here
	}
	if !bytes.Equal(got, want) {
		return fmt.Sprintf("real server: client body %q, recording writer %q", got, want)
	}
	// and the server goes on serving
	st.reset(&c07Case{})
	r2, err := client.Get(srv.URL + "/ok")
	if err != nil {
		return fmt.Sprintf("real server: follow-up failed: %v", err)
	}
	b2, _ := io.ReadAll(r2.Body)
	r2.Body.Close()
	if r2.StatusCode != 200 || string(b2) != "ok" {
		return fmt.Sprintf("real server: follow-up status %d body %q", r2.StatusCode, b2)
	}
	return ""
}

// ---------- generator ----------

var c07Codes = []int{200, 201, 204, 301, 304, 400, 401, 403, 404, 405, 409, 413, 418, 422, 429, 499, 500, 501, 502, 503, 599}

type c07G struct {
	r    *rand.Rand
	next int
}

func (g *c07G) atom() int { g.next++; return g.next }
func (g *c07G) code() int {
	if g.r.Intn(3) == 0 {
		return 200 + g.r.Intn(400)
	}
	return c07Codes[g.r.Intn(len(c07Codes))]
}
func (g *c07G) msg() *c07Msg {
	k := []string{"str", "str", "str", "dflt", "err", "marsh", "other", "nil"}[g.r.Intn(8)]
	m := &c07Msg{K: k, V: g.r.Intn(6)}
	if k != "dflt" && k != "nil" {
		m.T = g.atom()
	}
	if (k == "str" || k == "err") && g.r.Intn(3) == 0 {
		m.Dec = g.r.Intn(len(c07Decor))
	}
	return m
}
func (g *c07G) dec() int {
	if g.r.Intn(4) == 0 {
		return g.r.Intn(len(c07Decor))
	}
	return 0
}
func (g *c07G) plain() *c07Err {
	if g.r.Intn(5) == 0 {
		return &c07Err{K: "plain", Std: 1 + g.r.Intn(len(c07StdErrs))}
	}
	return &c07Err{K: "plain", T: g.atom(), Dec: g.dec()}
}

// minSent: exported echo variables may be used with an index above this one only (0 = any,
// len(c07EchoSent) = none)
func (g *c07G) err(depth, minSent int) *c07Err {
	k := g.r.Intn(10)
	switch {
	case depth <= 1 && k < 4, k < 2:
		return g.plain()
	case k < 4 && depth > 1:
		return &c07Err{K: "wrap", T: g.atom(), V: g.r.Intn(3), Dec: g.dec(), In: g.err(depth-1, minSent)}
	}
	e := &c07Err{K: "http", Code: g.code(), Msg: g.msg(), V: g.r.Intn(6)}
	if minSent < len(c07EchoSent) && g.r.Intn(6) == 0 {
		e.Sent = minSent + 1 + g.r.Intn(len(c07EchoSent)-minSent)
		if g.r.Intn(3) == 0 {
			e.Sent = minSent + 1 // the lowest one still allowed (0 → ErrInternalServerError)
		}
		e.Code, e.Msg = c07EchoSent[e.Sent-1].Code, nil
		minSent = e.Sent
	}
	if depth > 1 && g.r.Intn(3) != 0 {
		e.In = g.err(depth-1, minSent)
	}
	return e
}

func (g *c07G) layer() c07Layer {
	r := g.r
	if r.Intn(5) < 2 {
		return c07Layer{K: "cerr", Ret: r.Intn(3) != 0}
	}
	if r.Intn(4) == 0 {
		return c07Layer{K: "recover", Default: true}
	}
	l := c07Layer{K: "recover", DisableEH: r.Intn(3) == 0, NoStack: r.Intn(3) == 0, NoStackAll: r.Intn(2) == 0,
		LogLevel: []int{0, 0, 1, 2, 3, 4, 5, 6}[r.Intn(8)], StackSize: []int{0, 0, 1, 64, 4096, 16384}[r.Intn(6)]}
	switch r.Intn(8) {
	case 0, 1:
		l.LogFn = "same"
	case 2, 3:
		l.LogFn = "replace"
		rg := &c07G{r: r, next: 4000 + 50*r.Intn(20)}
		l.Repl = rg.err(1+r.Intn(3), len(c07EchoSent))
	case 4:
		l.LogFn = "nil"
	}
	return l
}

// Echo-level configuration
func c07GenConfig(r *rand.Rand, c *c07Case) {
	g := &c07G{r: r}
	c.Debug = r.Intn(3) == 0
	n := []int{0, 1, 1, 1, 2, 2, 3, 4}[r.Intn(8)]
	c.Layers = nil
	for i := 0; i < n; i++ {
		c.Layers = append(c.Layers, g.layer())
	}
	if n > 0 && r.Intn(4) != 0 {
		// most chains contain a Recover, as the property assumes
		has := false
		for _, l := range c.Layers {
			has = has || l.K == "recover"
		}
		if !has {
			c.Layers[r.Intn(n)] = c07Layer{K: "recover", Default: r.Intn(2) == 0}
		}
	}
	c.NPre, c.NUse, c.NGroup = 0, 0, 0
	switch r.Intn(4) {
	case 0: // all at Use level
		c.NUse = n
	case 1: // all on the route
	default:
		for i := 0; i < n; i++ {
			switch r.Intn(4) {
			case 0:
				if c.NUse == 0 && c.NGroup == 0 && i == c.NPre {
					c.NPre++
				}
			case 1:
				if c.NGroup == 0 && i == c.NPre+c.NUse {
					c.NUse++
				}
			case 2:
				if i == c.NPre+c.NUse+c.NGroup {
					c.NGroup++
				}
			}
		}
	}
	c.CustomEH = r.Intn(3) == 0
	c.PreNoop = r.Intn(6) == 0
	c.Recover, c.DisableEH, c.Double = false, false, false
	c.LogLvl = []int{0, 0, 1, 1, 1, 2, 3, 4, 5}[r.Intn(9)]
	if r.Intn(2) == 0 {
		c.Knobs = r.Intn(64)
	}
}

// one failing request for the chain of cfg
func c07GenRequest(r *rand.Rand, cfg *c07Case, maxDepth int) *c07Case {
	g := &c07G{r: r}
	c := &c07Case{Method: []string{http.MethodGet, http.MethodGet, http.MethodGet, http.MethodHead, http.MethodHead, http.MethodPost, http.MethodPut, http.MethodDelete, http.MethodOptions, http.MethodPatch}[r.Intn(10)]}
	if r.Intn(6) == 0 {
		c.From = []string{"pre", "use", "group", "after"}[r.Intn(4)]
	}
	c.Caps = []int{0, 1, 1, 2, 3, 3}[r.Intn(6)]
	if r.Intn(3) == 0 {
		c.Caps |= 4 // no Flush method
	}
	if r.Intn(6) == 0 {
		c.Caps |= 8 // behind an Unwrap-only wrapper
	}
	if r.Intn(6) == 0 {
		c.Caps |= 16 // Hijacker + Pusher
	}
	if r.Intn(3) == 0 {
		c.Pre = []string{"wrote", "nocontent", "flush", "jsonbad", "writeheader", "copy", "copy", "copywt", "wstring", "stream", "rcflush", "feflush"}[r.Intn(12)]
		if c.Pre != "flush" {
			c.PreCode = g.code()
		}
	}
	if r.Intn(5) < 2 {
		c.Panic = []string{"err", "err", "str", "int", "struct", "abort"}[r.Intn(6)]
	}
	switch c.Panic {
	case "", "err":
		c.Err = g.err(1+r.Intn(maxDepth), 0)
	case "abort":
	default:
		c.PanicT = g.atom()
		if c.Panic == "str" {
			c.PanicDec = g.dec()
		}
	}
	// one request in eight fails INSIDE the commit step of its own response write
	switch r.Intn(16) {
	case 0:
		c.In = "hook"
		c.Pre, c.PreCode = []string{"wrote", "nocontent", "writeheader", "flush", "copy", "copywt", "wstring", "stream", "rcflush"}[r.Intn(9)], g.code()
	case 1:
		c.In = "writer"
		c.Pre, c.PreCode = []string{"wrote", "nocontent", "writeheader"}[r.Intn(3)], []int{0, 0, 1, 99, 1000, 65536, -1}[r.Intn(7)]
		c.PanicT = g.atom()
	}
	for i, l := range cfg.Layers {
		if l.K == "recover" && !l.Default && r.Intn(5) == 0 {
			c.Skip = append(c.Skip, i)
		}
	}
	switch r.Intn(24) {
	case 0:
		c.Via = "404"
	case 1:
		c.Via = "405"
	}
	switch r.Intn(12) {
	case 0:
		c.Ctx = "cancelled"
	case 1:
		c.Ctx = "deadline"
	}
	c.WFail = r.Intn(12) == 0
	c07Normalise(c)
	return c
}

func c07GenCase(r *rand.Rand, maxDepth int) *c07Case {
	cfg := &c07Case{}
	c07GenConfig(r, cfg)
	c := c07GenRequest(r, cfg, maxDepth)
	c.Debug, c.Layers, c.NPre, c.NUse, c.NGroup, c.CustomEH, c.PreNoop, c.LogLvl, c.Knobs = cfg.Debug, cfg.Layers, cfg.NPre, cfg.NUse, cfg.NGroup, cfg.CustomEH, cfg.PreNoop, cfg.LogLvl, cfg.Knobs
	return c
}

func c07Gen(r *rand.Rand, tier string) []any {
	n, depth, nrt := 3000, 3, 40
	if tier == "thorough" {
		n, depth, nrt = 60000, 5, 3000
	}
	var out []any
	for i := 0; i < n; i++ {
		c := c07GenCase(r, depth)
		// a third of the cases: 1-3 more failing requests through the same Echo (pooled context
		// reused, exported error variables keep what SetInternal stored in them)
		if r.Intn(3) == 0 {
			for k := 1 + r.Intn(3); k > 0; k-- {
				c.Then = append(c.Then, c07GenRequest(r, c, depth))
			}
		}
		out = append(out, c)
	}
	// sequences aimed at state that survives a request: panic after panic, error after panic,
	// panic after error, with every legacy Echo-level configuration
	for _, recoverOn := range []bool{true, false} {
		for _, disableEH := range []bool{false, true} {
			for _, double := range []bool{false, true} {
				for _, debug := range []bool{false, true} {
					kinds := [][]string{{"str", "str"}, {"err", "int", "struct"}, {"", "str", ""}, {"str", "", "err"}, {"", ""}, {"err", "err", "err", "err"}}
					for _, ks := range kinds {
						var head *c07Case
						for i, k := range ks {
							g := &c07G{r: r, next: 100 * i}
							rq := &c07Case{Method: []string{http.MethodGet, http.MethodPost, http.MethodHead}[r.Intn(3)], Panic: k}
							if k == "" || k == "err" {
								rq.Err = g.err(1+r.Intn(depth), len(c07EchoSent))
							} else {
								rq.PanicT = g.atom()
							}
							if head == nil {
								head = rq
								head.Debug, head.Recover, head.DisableEH, head.Double = debug, recoverOn, disableEH, double
							} else {
								head.Then = append(head.Then, rq)
							}
						}
						out = append(out, head)
					}
				}
			}
		}
	}
	// adversarial shapes aimed at the decision points
	g := &c07G{r: r, next: 500}
	for _, debug := range []bool{false, true} {
		for _, method := range []string{http.MethodGet, http.MethodHead} {
			for _, mk := range []string{"str", "dflt", "err", "marsh", "other", "nil"} {
				mkMsg := func() *c07Msg {
					m := &c07Msg{K: mk, V: r.Intn(6)}
					if mk != "dflt" && mk != "nil" {
						m.T = g.atom()
					}
					return m
				}
				shapes := []*c07Err{
					// two levels of Internal HTTPError: only one level is unwrapped
					{K: "http", Code: 400, Msg: mkMsg(), In: &c07Err{K: "http", Code: 409, Msg: mkMsg(), In: &c07Err{K: "http", Code: 418, Msg: mkMsg()}}},
					// %w around an HTTPError is not an HTTPError
					{K: "wrap", T: g.atom(), In: &c07Err{K: "http", Code: 403, Msg: mkMsg()}},
					// Internal is a %w-wrapped HTTPError: not unwrapped
					{K: "http", Code: 422, Msg: mkMsg(), In: &c07Err{K: "wrap", T: g.atom(), In: &c07Err{K: "http", Code: 404, Msg: mkMsg()}}},
					// plain Internal below an internal HTTPError
					{K: "http", Code: 502, Msg: mkMsg(), In: &c07Err{K: "http", Code: 503, Msg: mkMsg(), In: &c07Err{K: "plain", T: g.atom()}}},
					{K: "http", Code: 204, Msg: mkMsg(), In: &c07Err{K: "plain", T: g.atom()}},
					// message of this kind on the directly carried HTTPError, which itself carries a plain error
					{K: "http", Code: 400, Msg: &c07Msg{K: "str", T: g.atom()}, In: &c07Err{K: "http", Code: 409, Msg: mkMsg(), In: &c07Err{K: "plain", T: g.atom()}}},
					// no Internal at all
					{K: "http", Code: 502, Msg: mkMsg()},
				}
				for _, s := range shapes {
					for _, pk := range []string{"", "err"} {
						out = append(out, &c07Case{Debug: debug, Method: method, Recover: true, Panic: pk, Err: s, Double: r.Intn(4) == 0, DisableEH: r.Intn(4) == 0})
					}
				}
			}
		}
	}
	out = append(out, c07GenValues(r)...)
	out = append(out, c07GenChains(r)...)
	out = append(out, c07GenBytes(r)...)
	out = append(out, c07GenCommitPanics(r)...)
	out = append(out, c07GenFastPaths(r)...)
	out = append(out, c07GenKnobs(r)...)
	out = append(out, c07GenCaps(r)...)
	for i := 0; i < nrt; i++ {
		c := c07GenCase(r, depth)
		for c07UsesSent(c.Err) || c.Ctx != "" || c.WFail {
			c = c07GenCase(r, depth)
		}
		c.RoundTrip = true
		if i%2 == 1 {
			c.Caps = c.Caps&^2 | 4 // behind http.TimeoutHandler, whose writer has no Flush
		}
		out = append(out, c)
	}
	return out
}

// well-known error VALUES: every one of them returned as it is, %w-wrapped, panicked with,
// carried as Internal; echo's exported *HTTPError variables decorated with SetInternal /
// WithInternal in one request and plain errors, panics, the bare variable and the router's own
// 404/405 in the following requests of the same Echo
func c07GenValues(r *rand.Rand) []any {
	var out []any
	chains := [][]c07Layer{
		nil,
		{{K: "recover", Default: true}},
		{{K: "cerr", Ret: true}, {K: "recover", DisableEH: true, NoStack: true}},
	}
	for i := range c07StdErrs {
		std := &c07Err{K: "plain", Std: i + 1}
		shapes := []*c07Err{
			std,
			{K: "wrap", T: 31, In: std},
			{K: "http", Code: 499, Msg: &c07Msg{K: "str", T: 32}, In: std, V: 1},
			{K: "http", Code: 400, Msg: &c07Msg{K: "str", T: 33}, In: &c07Err{K: "http", Code: 502, Msg: &c07Msg{K: "dflt"}, In: std, V: 3}, V: 2},
		}
		for si, s := range shapes {
			for ci, ch := range chains {
				pk := ""
				if ci > 0 && (si+ci+i)%2 == 0 {
					pk = "err"
				}
				c := &c07Case{Debug: (i+si+ci)%3 == 0, Method: []string{http.MethodGet, http.MethodHead, http.MethodPost}[(i+si)%3],
					Layers: ch, NUse: len(ch) * (i % 2), Panic: pk, Err: s, CustomEH: (i+ci)%2 == 0,
					Ctx: []string{"", "", "cancelled", "deadline"}[(i+si+ci)%4], PreNoop: (i+si)%5 == 0}
				out = append(out, c)
			}
		}
	}
	g := &c07G{r: r, next: 700}
	// an exported variable behind a wrapper is not an HTTP error for the handler, whichever
	// variable and whichever kind of wrapper (errors.Is / errors.As would find it)
	for vi := range c07EchoSent {
		bare := &c07Err{K: "http", Sent: vi + 1}
		shapes := []*c07Err{
			{K: "wrap", T: g.atom(), V: vi % 3, In: bare},
			{K: "wrap", T: g.atom(), V: (vi + 1) % 3, In: &c07Err{K: "wrap", T: g.atom(), V: (vi + 2) % 3, In: bare}},
			{K: "http", Code: 400, Msg: &c07Msg{K: "str", T: g.atom()}, V: 1, In: &c07Err{K: "wrap", T: g.atom(), V: vi % 3, In: bare}},
			{K: "wrap", T: g.atom(), V: vi % 3, In: &c07Err{K: "http", Sent: vi + 1, V: 3, In: &c07Err{K: "plain", T: g.atom()}}},
		}
		for si, sh := range shapes {
			pk := ""
			if (vi+si)%2 == 1 {
				pk = "err"
			}
			out = append(out, &c07Case{Debug: (vi+si)%5 == 0, Method: []string{http.MethodGet, http.MethodHead}[(vi+si)%2*(si%2)],
				Layers: chains[1+(vi+si)%2], NUse: 1 + (vi+si)%2, Panic: pk, Err: sh, CustomEH: si%2 == 0})
		}
	}
	for vi := range c07EchoSent {
		carried := []*c07Err{
			{K: "http", Code: 400, Msg: &c07Msg{K: "str", T: g.atom()}},                                    // what a failing Bind returns
			{K: "http", Code: 422, Msg: &c07Msg{K: "other", T: g.atom()}, In: &c07Err{K: "plain", T: g.atom()}, V: 1},
			{K: "plain", T: g.atom()},
			{K: "plain", Std: 1 + r.Intn(len(c07StdErrs))},
			{K: "wrap", T: g.atom(), In: &c07Err{K: "http", Code: 404, Msg: &c07Msg{K: "str", T: g.atom()}}},
		}
		if vi+1 < len(c07EchoSent) {
			carried = append(carried, &c07Err{K: "http", Sent: vi + 2 + r.Intn(len(c07EchoSent)-vi-1)}) // another exported variable, as it is
		}
		for ci, in := range carried {
			for _, v := range []int{1, 3} { // SetInternal, WithInternal
				first := &c07Case{Debug: (vi+ci)%4 == 0, Method: http.MethodPost, CustomEH: ci%2 == 0,
					Layers: chains[(vi+ci)%3], NUse: len(chains[(vi+ci)%3]),
					Err: &c07Err{K: "http", Sent: vi + 1, In: in, V: v}}
				later := []*c07Case{
					{Method: http.MethodGet, Err: &c07Err{K: "plain", T: g.atom()}},
					{Method: http.MethodHead, Err: &c07Err{K: "wrap", T: g.atom(), In: &c07Err{K: "plain", Std: 1 + r.Intn(len(c07StdErrs))}}},
					{Method: http.MethodGet, Panic: "str", PanicT: g.atom()},
					{Method: http.MethodGet, Err: &c07Err{K: "http", Sent: vi + 1}}, // the variable itself, afterwards
					{Method: http.MethodGet, Via: "404"},
					{Method: http.MethodPost, Via: "405"},
					{Method: http.MethodGet, Err: &c07Err{K: "http", Code: 500, Msg: &c07Msg{K: "dflt"}}},
				}
				// two of them, in random order, after the decorating request
				a, b := r.Intn(len(later)), r.Intn(len(later))
				first.Then = []*c07Case{later[a]}
				if b != a {
					first.Then = append(first.Then, later[b])
				}
				out = append(out, first)
			}
		}
	}
	return out
}

// Recover's options and positions: Skipper, LogErrorFunc (same / replace / nil) with and without
// DisableErrorHandler and an outer reporting middleware, every LogLevel, DisablePrintStack, stack
// sizes, two instances, Pre / Use / group / route placement, the counting HTTPErrorHandler
func c07GenChains(r *rand.Rand) []any {
	var out []any
	g := &c07G{r: r, next: 900}
	raise := func(k int) *c07Case {
		switch k % 6 {
		case 0:
			return &c07Case{Method: http.MethodGet, Panic: "str", PanicT: g.atom()}
		case 1:
			return &c07Case{Method: http.MethodGet, Panic: "err", Err: &c07Err{K: "http", Code: 409, Msg: &c07Msg{K: "str", T: g.atom()}, In: &c07Err{K: "plain", T: g.atom()}, V: 1}}
		case 2:
			return &c07Case{Method: http.MethodHead, Panic: "int", PanicT: g.atom()}
		case 3:
			return &c07Case{Method: http.MethodPost, Panic: "err", Err: &c07Err{K: "plain", Std: 1 + r.Intn(len(c07StdErrs))}}
		case 4:
			return &c07Case{Method: http.MethodGet, Err: &c07Err{K: "http", Code: 404, Msg: &c07Msg{K: "str", T: g.atom()}}}
		}
		return &c07Case{Method: http.MethodGet, Panic: "struct", PanicT: g.atom(), Pre: "jsonbad", PreCode: 202}
	}
	with := func(rq *c07Case, cfg c07Case) *c07Case {
		rq.Debug, rq.Layers, rq.NPre, rq.NUse, rq.NGroup, rq.CustomEH, rq.PreNoop = cfg.Debug, cfg.Layers, cfg.NPre, cfg.NUse, cfg.NGroup, cfg.CustomEH, cfg.PreNoop
		return rq
	}
	k := 0
	repl := func() *c07Err {
		rg := &c07G{r: r, next: 4000 + 50*(k%20)}
		return []*c07Err{
			{K: "http", Code: 503, Msg: &c07Msg{K: "str", T: rg.atom()}},
			{K: "plain", T: rg.atom()},
			{K: "http", Code: 400, Msg: &c07Msg{K: "dflt"}, In: &c07Err{K: "http", Code: 418, Msg: &c07Msg{K: "str", T: rg.atom()}}, V: 1},
			{K: "plain", Std: 1 + r.Intn(len(c07StdErrs))},
		}[k%4]
	}
	for _, fn := range []string{"", "same", "replace", "nil"} {
		for _, dis := range []bool{false, true} {
			for _, outer := range []int{0, 1, 2} { // none, cerr returning, cerr returning nil
				for _, lvl := range []int{0, 1, 2, 3, 4, 5} {
					k++
					rec := c07Layer{K: "recover", DisableEH: dis, LogFn: fn, LogLevel: lvl, NoStack: k%3 == 0, NoStackAll: k%2 == 0, StackSize: []int{0, 1, 512}[k%3]}
					if fn == "replace" {
						rec.Repl = repl()
					}
					ch := []c07Layer{rec}
					if outer > 0 {
						ch = []c07Layer{{K: "cerr", Ret: outer == 1}, rec}
					}
					cfg := c07Case{Debug: k%5 == 0, Layers: ch, CustomEH: k%2 == 0, PreNoop: k%7 == 0}
					switch k % 4 {
					case 0:
						cfg.NUse = len(ch)
					case 1:
						cfg.NPre = 1
					case 2:
						cfg.NGroup = len(ch)
					}
					c := with(raise(k), cfg)
					c.Then = []*c07Case{raise(k + 1), raise(k + 4)}
					out = append(out, c)
				}
			}
		}
	}
	// Skipper: one / two / three instances, skipped in every combination
	for n := 1; n <= 3; n++ {
		for mask := 0; mask < 1<<n; mask++ {
			for _, outerDefault := range []bool{false, true} {
				k++
				var ch []c07Layer
				for i := 0; i < n; i++ {
					ch = append(ch, c07Layer{K: "recover", DisableEH: (k+i)%3 == 0, NoStack: true})
				}
				if outerDefault {
					ch = append([]c07Layer{{K: "recover", Default: true}}, ch...)
				}
				cfg := c07Case{Layers: ch, CustomEH: k%2 == 0, NUse: k % (len(ch) + 1)}
				c := with(raise(k), cfg)
				c.Then = []*c07Case{raise(k + 2)}
				for _, rq := range append([]*c07Case{c}, c.Then...) {
					for i := 0; i < n; i++ {
						if mask&(1<<i) != 0 {
							idx := i
							if outerDefault {
								idx++
							}
							rq.Skip = append(rq.Skip, idx)
						}
					}
				}
				// the second request is not skipped by the innermost instance
				if len(c.Then[0].Skip) > 0 {
					c.Then[0].Skip = c.Then[0].Skip[:len(c.Then[0].Skip)-1]
				}
				out = append(out, c)
			}
		}
	}
	// the underlying writer fails while the error handler writes
	for i := 0; i < 24; i++ {
		k++
		c := with(raise(k), c07Case{Debug: i%2 == 0, Layers: []c07Layer{{K: "recover", Default: i%3 == 0, NoStack: true}}, NUse: 1, CustomEH: i%4 == 0})
		c.WFail = true
		c.Then = []*c07Case{raise(k + 1)}
		out = append(out, c)
	}
	return out
}

// every decoration in every place a text can stand: the HTTP error's own message (string and
// error-valued), the message of the directly carried HTTP error, plain / wrapping / internal
// error texts and panic strings (which show up under Debug only), returned and panicked
func c07GenBytes(r *rand.Rand) []any {
	var out []any
	g := &c07G{r: r, next: 1200}
	rec := []c07Layer{{K: "recover", Default: true}}
	for d := 1; d < len(c07Decor); d++ {
		for _, debug := range []bool{false, true} {
			shapes := []*c07Err{
				{K: "http", Code: 422, Msg: &c07Msg{K: "str", T: g.atom(), Dec: d}, V: d},
				{K: "http", Code: 400, Msg: &c07Msg{K: "err", T: g.atom(), Dec: d}, V: d},
				{K: "http", Code: 500, Msg: &c07Msg{K: "str", T: g.atom()}, V: 1, In: &c07Err{K: "http", Code: 409, Msg: &c07Msg{K: "str", T: g.atom(), Dec: d}}},
				{K: "http", Code: 502, Msg: &c07Msg{K: "str", T: g.atom(), Dec: d}, V: 1, In: &c07Err{K: "plain", T: g.atom(), Dec: (d + 3) % len(c07Decor)}},
				{K: "plain", T: g.atom(), Dec: d},
				{K: "wrap", T: g.atom(), Dec: d, V: d % 3, In: &c07Err{K: "plain", T: g.atom(), Dec: (d + 7) % len(c07Decor)}},
			}
			for si, sh := range shapes {
				pk := ""
				if (d+si)%3 == 0 {
					pk = "err"
				}
				out = append(out, &c07Case{Debug: debug, Method: []string{http.MethodGet, http.MethodPost, http.MethodGet, http.MethodHead}[(d+si)%4],
					Layers: rec, NUse: si % 2, Panic: pk, Err: sh, CustomEH: (d+si)%2 == 0})
			}
			out = append(out, &c07Case{Debug: debug, Method: http.MethodGet, Layers: rec, NUse: 1, Panic: "str", PanicT: g.atom(), PanicDec: d})
		}
	}
	return out
}

// panics raised inside the commit step: a before-hook that panics (with every kind of value), a
// status code the writer refuses (0 = zero-valued config field, 99, 1000, ...), through every
// helper that commits, under the usual chains, followed by an ordinary failing request
func c07GenCommitPanics(r *rand.Rand) []any {
	var out []any
	g := &c07G{r: r, next: 1600}
	chains := [][]c07Layer{
		{{K: "recover", Default: true}},
		{{K: "recover", NoStack: true}},
		{{K: "cerr", Ret: true}, {K: "recover", DisableEH: true, NoStack: true}},
		{{K: "recover", Default: true}, {K: "cerr", Ret: false}},
		nil,
	}
	k := 0
	for _, pre := range []string{"wrote", "nocontent", "writeheader", "flush"} {
		for ci, ch := range chains {
			for _, pk := range []string{"err", "str", "int", "struct", "abort"} {
				k++
				c := &c07Case{Debug: k%3 == 0, Method: []string{http.MethodGet, http.MethodHead, http.MethodPost}[k%3], Layers: ch, NUse: len(ch) * (k % 2),
					In: "hook", Pre: pre, PreCode: []int{200, 201, 204, 302, 404, 500}[k%6], Panic: pk, CustomEH: k%2 == 0, From: []string{"", "", "use"}[(k+ci)%3]}
				if pk == "err" {
					c.Err = g.err(1+r.Intn(3), len(c07EchoSent))
				} else if pk != "abort" {
					c.PanicT = g.atom()
				}
				c.Then = []*c07Case{{Method: http.MethodGet, Err: &c07Err{K: "http", Code: 404, Msg: &c07Msg{K: "str", T: g.atom()}}}}
				out = append(out, c)
			}
			if pre == "flush" {
				continue
			}
			for _, code := range []int{0, 1, 99, 1000, 65536, -1} {
				k++
				c := &c07Case{Debug: k%3 == 0, Method: []string{http.MethodGet, http.MethodHead, http.MethodPost}[k%3], Layers: ch, NUse: len(ch) * (k % 2),
					In: "writer", Pre: pre, PreCode: code, Panic: "str", PanicT: g.atom(), CustomEH: k%2 == 0, From: []string{"", "", "group"}[(k+ci)%3]}
				c.Then = []*c07Case{{Method: http.MethodGet, In: "writer", Pre: "nocontent", PreCode: 0, Panic: "str", PanicT: g.atom()}}
				out = append(out, c)
			}
		}
	}
	return out
}

// the response written through every optional-interface route, on every kind of underlying
// writer, and THEN the failure: returned by the handler, by a middleware on the way back,
// panicked; followed by the same on the recycled context
func c07GenFastPaths(r *rand.Rand) []any {
	var out []any
	g := &c07G{r: r, next: 2000}
	chains := [][]c07Layer{
		nil,
		{{K: "recover", Default: true}},
		{{K: "cerr", Ret: true}, {K: "recover", DisableEH: true, NoStack: true}},
	}
	k := 0
	for _, pre := range []string{"copy", "copywt", "wstring", "stream", "rcflush", "feflush", "wrote", "flush"} {
		for caps := 0; caps < 4; caps++ {
			for ci, ch := range chains {
				for _, from := range []string{"", "after"} {
					k++
					c := &c07Case{Debug: k%4 == 0, Method: []string{http.MethodGet, http.MethodPost, http.MethodHead}[k%3], Layers: ch, NUse: len(ch),
						Pre: pre, PreCode: []int{200, 0, 202, 404, 500}[k%5], Caps: caps, From: from, CustomEH: k%2 == 0}
					if ci > 0 && k%2 == 0 {
						c.Panic, c.PanicT = "str", g.atom()
					} else {
						c.Err = []*c07Err{{K: "plain", T: g.atom()}, {K: "http", Code: 409, Msg: &c07Msg{K: "str", T: g.atom()}}}[k%2]
					}
					c.Then = []*c07Case{{Method: http.MethodGet, Pre: []string{"copy", "wstring", "rcflush"}[k%3], Caps: 3 - caps, Err: &c07Err{K: "plain", T: g.atom()}}}
					out = append(out, c)
				}
			}
		}
	}
	return out
}

// the no-leak clause (and everything else) under every configuration knob next to Debug: logger
// level, logger prefix / output, banner, an application JSONSerializer, Validator / Renderer /
// Binder, server settings, a request logger at DEBUG — with Debug OFF and ON
func c07GenKnobs(r *rand.Rand) []any {
	var out []any
	g := &c07G{r: r, next: 2400}
	rec := []c07Layer{{K: "recover", Default: true}}
	k := 0
	for lvl := 0; lvl <= 5; lvl++ {
		for _, knobs := range []int{0, 1, 2, 4, 8, 16, 32, 63} {
			for _, debug := range []bool{false, false, true} {
				k++
				shapes := []*c07Err{
					{K: "plain", T: g.atom()},
					{K: "wrap", T: g.atom(), V: k % 3, In: &c07Err{K: "plain", Std: 1 + k%len(c07StdErrs)}},
					{K: "http", Code: 502, Msg: &c07Msg{K: "str", T: g.atom()}, V: 1, In: &c07Err{K: "plain", T: g.atom()}},
					{K: "http", Code: 400, Msg: &c07Msg{K: "str", T: g.atom()}, V: 1, In: &c07Err{K: "http", Code: 409, Msg: &c07Msg{K: "str", T: g.atom()}, V: 1, In: &c07Err{K: "plain", T: g.atom()}}},
				}
				c := &c07Case{Debug: debug, Method: []string{http.MethodGet, http.MethodPost}[k%2], LogLvl: lvl, Knobs: knobs, Layers: rec, NUse: k % 2,
					Err: shapes[k%4], CustomEH: k%3 == 0}
				c.Then = []*c07Case{
					{Method: http.MethodGet, Panic: "str", PanicT: g.atom()},
					{Method: http.MethodGet, Panic: "err", Err: shapes[(k+1)%4]},
				}
				out = append(out, c)
			}
		}
	}
	return out
}

// the optional capabilities of the underlying writer x what the error path might want from them:
// writers without Flush (plain; with io.ReaderFrom; with FlushError only), behind an Unwrap-only
// wrapper, with Hijacker + Pusher — x chains with and without Recover x returned / panicked x
// the failing code flushed first (on a writer that cannot flush that IS the failure: Response.Flush
// commits, then panics), wrote first, preset a status, or did nothing; followed by an ordinary
// failing request on a full-featured writer and by the same failure on the same kind of writer
func c07GenCaps(r *rand.Rand) []any {
	var out []any
	g := &c07G{r: r, next: 2800}
	chains := [][]c07Layer{
		{{K: "recover", Default: true}},
		nil,
		{{K: "recover", NoStack: true, LogFn: "same"}},
		{{K: "cerr", Ret: true}, {K: "recover", DisableEH: true, NoStack: true}},
		{{K: "recover", Default: true}, {K: "recover", NoStack: true}},
		{{K: "recover", Default: true}, {K: "cerr", Ret: false}},
	}
	pres := []string{"", "flush", "rcflush", "feflush", "wrote", "jsonbad", "copy", "nocontent"}
	k := 0
	for _, caps := range []int{4, 5, 6, 7, 8, 12, 13, 16, 20, 28, 31} {
		for ci, ch := range chains {
			for pi, pre := range pres {
				k++
				if (k+ci)%2 == 0 && pre != "" && c07PreCat(pre) != "flush" {
					continue
				}
				c := &c07Case{Debug: k%4 == 0, Method: []string{http.MethodGet, http.MethodPost, http.MethodHead, http.MethodGet}[k%4], Layers: ch,
					NUse: len(ch) * (k % 2), Pre: pre, PreCode: []int{200, 201, 404, 500, 204}[k%5], Caps: caps, CustomEH: k%3 == 0,
					From: []string{"", "", "", "use", "after"}[(k+pi)%5]}
				switch (k + ci + pi) % 5 {
				case 0:
					c.Panic, c.PanicT = "str", g.atom()
				case 1:
					c.Panic, c.Err = "err", &c07Err{K: "http", Code: 418, Msg: &c07Msg{K: "str", T: g.atom()}}
				case 2:
					c.Err = &c07Err{K: "plain", T: g.atom()}
				case 3:
					c.Err = &c07Err{K: "http", Code: 409, Msg: &c07Msg{K: "str", T: g.atom()}, V: 1, In: &c07Err{K: "plain", T: g.atom()}}
				default:
					c.Panic, c.PanicT = "int", g.atom()
				}
				same := *c
				same.Layers, same.Then = nil, nil
				c.Then = []*c07Case{
					{Method: http.MethodGet, Caps: 3, Err: &c07Err{K: "plain", T: g.atom()}},
					&same,
				}
				out = append(out, c)
			}
		}
	}
	return out
}

func c07Shrink(ci any) []any {
	c := ci.(*c07Case)
	var out []any
	add := func(f func(d *c07Case)) {
		d := *c
		d.Then = nil
		for _, t := range c.Then {
			tt := *t
			d.Then = append(d.Then, &tt)
		}
		f(&d)
		out = append(out, &d)
	}
	if c.RoundTrip {
		add(func(d *c07Case) { d.RoundTrip = false })
	}
	for i := range c.Then {
		i := i
		// drop a later request; or drop everything before it (it becomes the first, keeping the configuration)
		add(func(d *c07Case) { d.Then = append(append([]*c07Case(nil), d.Then[:i]...), d.Then[i+1:]...) })
	}
	if len(c.Then) > 0 {
		add(func(d *c07Case) {
			h := *d.Then[0]
			h.Debug, h.Recover, h.DisableEH, h.Double, h.RoundTrip = c.Debug, c.Recover, c.DisableEH, c.Double, false
			h.Layers, h.NPre, h.NUse, h.NGroup, h.CustomEH, h.PreNoop, h.LogLvl, h.Knobs = c.Layers, c.NPre, c.NUse, c.NGroup, c.CustomEH, c.PreNoop, c.LogLvl, c.Knobs
			h.Then = d.Then[1:]
			*d = h
		})
	}
	// drop one middleware
	for i := range c.Layers {
		i := i
		add(func(d *c07Case) {
			d.Layers = append(append([]c07Layer(nil), c.Layers[:i]...), c.Layers[i+1:]...)
			switch {
			case i < c.NPre:
				d.NPre--
			case i < c.NPre+c.NUse:
				d.NUse--
			case i < c.NPre+c.NUse+c.NGroup:
				d.NGroup--
			}
			for _, rq := range append([]*c07Case{d}, d.Then...) {
				var sk []int
				for _, k := range rq.Skip {
					if k < i {
						sk = append(sk, k)
					} else if k > i {
						sk = append(sk, k-1)
					}
				}
				rq.Skip = sk
			}
		})
	}
	for i, l := range c.Layers {
		i := i
		if l.K == "recover" && !l.Default && (l.LogFn != "" || l.LogLevel != 0 || l.StackSize != 0 || l.NoStackAll) {
			add(func(d *c07Case) {
				d.Layers = append([]c07Layer(nil), c.Layers...)
				d.Layers[i] = c07Layer{K: "recover", DisableEH: l.DisableEH, NoStack: l.NoStack}
			})
		}
	}
	if c.NPre+c.NUse+c.NGroup > 0 && c.NUse != len(c.Layers) {
		add(func(d *c07Case) { d.NPre, d.NUse, d.NGroup = 0, len(d.Layers), 0 })
	}
	if c.CustomEH {
		add(func(d *c07Case) { d.CustomEH = false })
	}
	if c.Knobs != 0 {
		add(func(d *c07Case) { d.Knobs = 0 })
		for b := 1; b <= 32; b <<= 1 {
			if c.Knobs&b != 0 && c.Knobs != b {
				b := b
				add(func(d *c07Case) { d.Knobs = b })
			}
		}
	}
	if c.LogLvl != 0 {
		add(func(d *c07Case) { d.LogLvl = 0 })
	}
	if c.PreNoop {
		add(func(d *c07Case) { d.PreNoop = false })
	}
	if c.Double {
		add(func(d *c07Case) { d.Double = false })
	}
	if c.DisableEH {
		add(func(d *c07Case) { d.DisableEH = false })
	}
	if c.Pre != "" && c.In == "" { // (with In set the normalisation would put a Pre back)
		add(func(d *c07Case) { d.Pre, d.PreCode = "", 0 })
	}
	if c.Debug {
		add(func(d *c07Case) { d.Debug = false })
	}
	if c.Method != http.MethodGet && c.Via != "405" { // (405 needs a method the route does not have)
		add(func(d *c07Case) { d.Method = http.MethodGet })
	}
	if c.Ctx != "" {
		add(func(d *c07Case) { d.Ctx = "" })
	}
	if c.Via != "" {
		add(func(d *c07Case) { d.Via, d.Method, d.Err = "", http.MethodGet, &c07Err{K: "plain", T: 1} })
	}
	if c.WFail {
		add(func(d *c07Case) { d.WFail = false })
	}
	if c.From != "" {
		add(func(d *c07Case) { d.From = "" })
	}
	if c.In != "" && c.In != "noflush" { // (noflush follows from Caps and Pre: the normalisation would put it back)
		add(func(d *c07Case) { d.In = "" })
	}
	if c.Caps != 0 {
		add(func(d *c07Case) { d.Caps = 0 })
		for b := 1; b <= 16; b <<= 1 {
			if c.Caps&b != 0 && c.Caps != b {
				b := b
				add(func(d *c07Case) { d.Caps = c.Caps &^ b })
			}
		}
	}
	if c.Pre != c07PreCat(c.Pre) {
		add(func(d *c07Case) { d.Pre = c07PreCat(c.Pre) })
	}
	if c.PanicDec != 0 {
		add(func(d *c07Case) { d.PanicDec = 0 })
	}
	if len(c.Skip) > 0 {
		add(func(d *c07Case) { d.Skip = nil })
	}
	if c.Panic == "err" && c.In == "" {
		add(func(d *c07Case) { d.Panic = "" })
	}
	if c.Err != nil && c.Via == "" && c.In != "noflush" {
		for _, v := range c07ShrinkErr(c.Err) {
			v := v
			add(func(d *c07Case) { d.Err = v })
		}
	}
	// the same simplifications inside the later requests
	for i, t := range c.Then {
		i, t := i, t
		if t.Pre != "" {
			add(func(d *c07Case) { d.Then[i].Pre, d.Then[i].PreCode = "", 0 })
		}
		if t.Method != http.MethodGet && t.Via != "405" {
			add(func(d *c07Case) { d.Then[i].Method = http.MethodGet })
		}
		if t.Ctx != "" || t.WFail || len(t.Skip) > 0 || t.From != "" || t.Caps != 0 {
			add(func(d *c07Case) {
				d.Then[i].Ctx, d.Then[i].WFail, d.Then[i].Skip, d.Then[i].From, d.Then[i].Caps = "", false, nil, "", 0
			})
		}
		if t.Err != nil && t.Via == "" && t.In != "noflush" {
			for _, v := range c07ShrinkErr(t.Err) {
				v := v
				add(func(d *c07Case) { d.Then[i].Err = v })
			}
		}
	}
	return out
}

// smaller valid variants of an error tree: a subtree in place of the tree, an Internal cut off,
// a simpler message, and the same one level down
func c07ShrinkErr(e *c07Err) []*c07Err {
	var out []*c07Err
	if e.In != nil {
		out = append(out, e.In)
		if e.K == "http" {
			d := *e
			d.In = nil
			out = append(out, &d)
		}
		for _, v := range c07ShrinkErr(e.In) {
			d := *e
			d.In = v
			out = append(out, &d)
		}
	}
	if e.K == "wrap" {
		out = append(out, &c07Err{K: "plain", T: e.T})
		if e.V != 0 {
			d := *e
			d.V = 0
			out = append(out, &d)
		}
	}
	if e.K == "plain" && e.Std > 0 {
		out = append(out, &c07Err{K: "plain", T: 800 + e.Std})
	}
	if (e.K == "plain" || e.K == "wrap") && e.Dec != 0 {
		d := *e
		d.Dec = 0
		out = append(out, &d)
	}
	if e.K == "http" && e.Sent == 0 && e.Msg != nil && e.Msg.Dec != 0 {
		d := *e
		m := *e.Msg
		m.Dec = 0
		d.Msg = &m
		out = append(out, &d)
	}
	if e.K == "http" && e.Sent == 0 && e.Msg.K != "str" {
		d := *e
		d.Msg = &c07Msg{K: "str", T: 900 + e.Msg.T, Dec: e.Msg.Dec}
		out = append(out, &d)
	}
	if e.K == "http" && e.Sent > 0 {
		d := *e
		d.Code, d.Sent, d.Msg = c07EchoSent[e.Sent-1].Code, 0, &c07Msg{K: "dflt"}
		out = append(out, &d)
	}
	return out
}

func c07Mutate(r *rand.Rand, ci any) []any {
	c := ci.(*c07Case)
	var out []any
	for _, debug := range []bool{false, true} {
		for _, m := range []string{http.MethodGet, http.MethodHead, http.MethodPost} {
			for _, pre := range []string{"", "wrote"} {
				d := *c
				d.Debug, d.Method, d.Pre = debug, m, pre
				if pre != "" {
					d.PreCode = 200
				}
				out = append(out, &d)
			}
		}
	}
	// the same failure on underlying writers with other optional capabilities
	for _, caps := range []int{0, 4, 5, 8, 12, 16, 3} {
		if caps != c.Caps {
			d := *c
			d.Caps = caps
			out = append(out, &d)
		}
	}
	return out
}

func init() {
	register(&Prop{
		ID:             "C07",
		Rule:           "an Echo configuration x a sequence of 1-4 failing requests through that one Echo, served one after the other on one goroutine (pooled context reused), each judged on its own.  Error values as trees: plain | wrap (fmt.Errorf(%w), errors.Join, an application type with Unwrap) | *echo.HTTPError (NewHTTPError / literal / SetInternal / WithInternal) with message kinds {string, default StatusText, error value, json.Marshaler (also one that is an error too), map/struct/slice/named string type, nil} and Internal {none, plain, wrapped, HTTPError, nested}, depth <= 3 (thorough: 5), codes 200-599 incl. 204/304; plain errors are unique markers or one of 18 well-known error VALUES (context.Canceled, context.DeadlineExceeded, io.EOF, io.ErrUnexpectedEOF, http.ErrAbortHandler (returned), http.ErrHandlerTimeout, os.ErrNotExist, sql.ErrNoRows, net.ErrClosed, echo.ErrValidatorNotRegistered, ...); HTTP errors may be built from 16 exported echo variables (echo.ErrInternalServerError, ErrNotFound, ErrUnauthorized, ...) as they are or decorated with SetInternal (changes the variable for all later requests; the harness tracks that symbolically, runs such cases alone and restores the variables) / WithInternal; the router's own 404 / 405 as error sources.  x raised in the route's handler or in a middleware at Pre / Use / group level x returned or panicked (panic values: error, string, int, struct, http.ErrAbortHandler) x a middleware chain of 0-4 layers, each a Recover instance (Recover() or RecoverWithConfig with DisableErrorHandler, Skipper skipping per request, LogErrorFunc returning the same error / another error / nil, every LogLevel, DisablePrintStack, DisableStackAll, StackSize 0/1/64/4096/16384) or a middleware that calls c.Error(err) and returns err or nil, placed at Pre / Use / group / route level x configuration next to Debug that must not matter {Echo.Logger level DEBUG / INFO / WARN / ERROR / OFF, logger prefix + header + output, HideBanner / HidePort, an application JSONSerializer delegating to the default, Validator + Renderer + Binder + IPExtractor, StdLogger + Server timeouts + DisableHTTP2 + ListenerNetwork, a per-request logger at DEBUG}: random on half of the cases plus a fixed family (every level x every knob x Debug off/on) — the model line does not contain them x Echo.HTTPErrorHandler = the default or a counting wrapper around it (number of hand-overs and the error value handed over are checked) x the failing code did {nothing, String, NoContent, Flush, WriteHeader, failed JSON} before failing, or wrote / flushed through the optional-interface probes of the standard library {io.Copy from a source without WriteTo (io.ReaderFrom), io.Copy from a strings.Reader and io.WriteString (io.StringWriter), c.Stream, http.ResponseController.Flush, the FlushError convention} with the implicit commit theirs (200 or a status preset by a failed JSON), on an underlying writer with none / io.ReaderFrom / io.StringWriter+FlushError / all of them (net/http's connection writer has all, httptest.ResponseRecorder none), and (round 8) a third of the requests on a writer WITHOUT a Flush method (like http.TimeoutHandler's: plain, with io.ReaderFrom, or flushable through FlushError only), a sixth behind a wrapper that offers nothing but Unwrap(), a sixth with http.Hijacker + http.Pusher (which error handling must never use) plus a fixed family (11 capability sets x 6 chains x 8 things done first x returned / panicked): when the failing code flushes a writer that cannot flush, Response.Flush commits with 200 and then panics with echo's own error — that panic is then what the chain sees (model: Pre.flushUnsupported), the failure coming from the handler, from a middleware instead of the handler, or from the innermost Use-level middleware AFTER the handler returned x GET/HEAD/POST/PUT/DELETE/OPTIONS/PATCH x Debug x request context live / cancelled / past its deadline x underlying writer accepting or failing every Write; fixed families: legacy configurations, decision points of the handler (two Internal levels, %w around / inside an HTTPError), every well-known value in four positions x three chains, every exported variable decorated in request 1 and plain errors / panics / the bare variable / router 404+405 afterwards, every LogErrorFunc mode x DisableErrorHandler x outer middleware x LogLevel, Skipper masks over 1-3 (+1 default) instances; every text is a unique marker, a third of the string / error-valued messages and a quarter of the plain / wrapper texts and panic strings followed by one of 19 byte decorations (NUL, 0x01, \\a, \\v, DEL, invalid UTF-8, a surrogate half, a non-printable astral rune, U+2028/2029, C1 controls, BOM, quotes, backslash, HTML characters, ESC sequence, non-ASCII text, format verbs): the oracle decodes the body as JSON and compares message (and Debug detail) with the original text up to U+FFFD for invalid bytes; one request in eight panics INSIDE the commit step of its own response write (a Response.Before hook that panics with any kind of value, or a status code outside 100..999 on a writer that refuses it like net/http); a follow-up request checks the server still serves; 40 cases (thorough: 3000) also through a real httptest.Server, every other one of them with echo mounted under http.TimeoutHandler (no Flush on its writer); non-trivial = tree depth >= 2, or a panic, or committed before the error, or a chain of >= 2 middlewares, or a sequence of requests",
		New:            func() any { return &c07Case{} },
		Gen:            c07Gen,
		Run:            c07Run,
		Shrink:         c07Shrink,
		Mutate:         c07Mutate,
		Tolerable:      c07Tolerable,
		Correspondence: "C07.serveAll / C07.serve (lean/EchoModel/C07.lean) vs Echo.ServeHTTP + Echo.DefaultHTTPErrorHandler + Context.Error + middleware.Recover / RecoverWithConfig on a recording http.ResponseWriter",
	})
}
