package main

// C07 — every error or recovered panic becomes exactly one well-formed response.
//
// Real code: Echo.ServeHTTP + Echo.DefaultHTTPErrorHandler + middleware.Recover, driven through
// e.ServeHTTP on a recording http.ResponseWriter (every WriteHeader call, every Write as its own
// chunk); in the thorough tier additionally through a real httptest.Server round trip.
// Model: lean/EchoModel/C07.lean (serve).

import (
	"bytes"
	"encoding/json"
	"errors"
	"fmt"
	"io"
	"math/rand"
	"net/http"
	"net/http/httptest"
	"regexp"
	"sort"
	"strconv"
	"strings"

	"github.com/labstack/echo/v4"
	"github.com/labstack/echo/v4/middleware"
)

type c07Msg struct {
	K string `json:"k"` // str dflt err marsh other nil
	T int    `json:"t,omitempty"`
	V int    `json:"v,omitempty"` // which Go type carries it
}

type c07Err struct {
	K    string  `json:"k"` // plain wrap http
	T    int     `json:"t,omitempty"`
	Code int     `json:"code,omitempty"`
	Msg  *c07Msg `json:"msg,omitempty"`
	In   *c07Err `json:"in,omitempty"` // wrap: inner; http: Internal (nil = none)
	V    int     `json:"v,omitempty"`  // how the HTTPError is constructed
}

type c07Case struct {
	Debug     bool    `json:"debug"`
	Method    string  `json:"method"`
	Recover   bool    `json:"recover"`
	DisableEH bool    `json:"disable_eh,omitempty"`
	Double    bool    `json:"double,omitempty"`
	Pre       string  `json:"pre"` // "" wrote nocontent flush jsonbad writeheader
	PreCode   int     `json:"pre_code,omitempty"`
	Panic     string  `json:"panic,omitempty"` // "" (returned) err str int struct abort
	PanicT    int     `json:"panic_t,omitempty"`
	Err       *c07Err `json:"err,omitempty"`
	RoundTrip bool    `json:"round_trip,omitempty"`
	// further failing requests served by the SAME Echo instance, one after the other on the same
	// goroutine (so sync.Pool hands the context of the previous request back); only the
	// per-request fields (Method, Pre, PreCode, Panic, PanicT, Err) of these are used
	Then []*c07Case `json:"then,omitempty"`
}

// ---- markers: every atom is a unique string ----
func c07Mk(t int) string { return "qx" + strconv.Itoa(t) + "xq" }

var c07MkRe = regexp.MustCompile(`qx(\d+)xq|\b7(\d{6})\b`)

func c07Atoms(s string) []int {
	seen := map[int]bool{}
	for _, m := range c07MkRe.FindAllStringSubmatch(s, -1) {
		d := m[1]
		if d == "" {
			d = m[2]
		}
		n, _ := strconv.Atoi(d)
		seen[n] = true
	}
	var out []int
	for n := range seen {
		out = append(out, n)
	}
	sort.Ints(out)
	return out
}

// ---- message / error values of various Go types ----
type c07Marsh struct{ ID string }

func (m c07Marsh) MarshalJSON() ([]byte, error) {
	return json.Marshal(map[string]string{"doc": m.ID})
}

type c07MarshErr struct{ ID string }

func (m c07MarshErr) MarshalJSON() ([]byte, error) {
	return json.Marshal(map[string]string{"doc": m.ID})
}
func (m c07MarshErr) Error() string { return "marshErr " + m.ID }

type c07DocStruct struct {
	Doc string `json:"doc"`
}
type c07PanicStruct struct{ ID string }

func c07BuildMsg(m *c07Msg) interface{} {
	switch m.K {
	case "str":
		return c07Mk(m.T)
	case "err":
		return errors.New(c07Mk(m.T))
	case "marsh":
		if m.V%2 == 1 {
			return c07MarshErr{c07Mk(m.T)}
		}
		return c07Marsh{c07Mk(m.T)}
	case "other":
		switch m.V % 3 {
		case 1:
			return c07DocStruct{c07Mk(m.T)}
		case 2:
			return []string{c07Mk(m.T)}
		}
		return echo.Map{"doc": c07Mk(m.T)}
	}
	return nil
}

func c07Build(e *c07Err) error {
	switch e.K {
	case "plain":
		return errors.New(c07Mk(e.T))
	case "wrap":
		return fmt.Errorf(c07Mk(e.T)+": %w", c07Build(e.In))
	}
	var he *echo.HTTPError
	if e.Msg.K == "dflt" {
		he = echo.NewHTTPError(e.Code)
	} else if e.V%2 == 0 {
		he = echo.NewHTTPError(e.Code, c07BuildMsg(e.Msg))
	} else {
		he = &echo.HTTPError{Code: e.Code, Message: c07BuildMsg(e.Msg)}
	}
	if e.In != nil {
		if e.V%3 == 0 {
			he = he.WithInternal(c07Build(e.In))
		} else {
			he = he.SetInternal(c07Build(e.In))
		}
	}
	return he
}

func c07EncMsg(m *c07Msg) string {
	k := map[string]int{"str": 0, "dflt": 1, "err": 2, "marsh": 3, "other": 4, "nil": 5}[m.K]
	return wJoin(wInt(k), wInt(m.T))
}

func c07EncErr(e *c07Err) string {
	switch e.K {
	case "plain":
		return wJoin("0", wInt(e.T))
	case "wrap":
		return wJoin("1", wInt(e.T), c07EncErr(e.In))
	}
	if e.In == nil {
		return wJoin("2", wInt(e.Code), c07EncMsg(e.Msg))
	}
	return wJoin("3", wInt(e.Code), c07EncMsg(e.Msg), c07EncErr(e.In))
}

// line for the model: number of requests, then each request with the Echo-level configuration
func c07Ops(c *c07Case) string {
	parts := []string{wInt(1 + len(c.Then)), c07OpsOne(c, c)}
	for _, rq := range c.Then {
		parts = append(parts, c07OpsOne(c, rq))
	}
	return strings.Join(parts, " ")
}

func c07OpsOne(cfg, c *c07Case) string {
	pre := map[string]int{"": 0, "wrote": 1, "nocontent": 2, "flush": 3, "jsonbad": 4, "writeheader": 5}[c.Pre]
	parts := []string{wBool(cfg.Debug), wBool(c.Method == http.MethodHead), wBool(cfg.Recover), wBool(cfg.DisableEH), wBool(cfg.Double),
		wInt(pre), wInt(c.PreCode)}
	switch c.Panic {
	case "":
		parts = append(parts, "0", c07EncErr(c.Err))
	case "err":
		parts = append(parts, "1", "0", c07EncErr(c.Err))
	case "str":
		parts = append(parts, "1", "1", wInt(c.PanicT))
	case "int":
		parts = append(parts, "1", "2", wInt(c.PanicT))
	case "struct":
		parts = append(parts, "1", "3", wInt(c.PanicT))
	case "abort":
		parts = append(parts, "1", "4")
	}
	return strings.Join(parts, " ")
}

// ---- recording writer ----
type c07Writer struct {
	h      http.Header
	calls  []int
	chunks [][]byte
}

func (w *c07Writer) Header() http.Header  { return w.h }
func (w *c07Writer) WriteHeader(code int) { w.calls = append(w.calls, code) }
func (w *c07Writer) Write(b []byte) (int, error) {
	if len(w.calls) == 0 {
		w.calls = append(w.calls, -200) // implicit 200 of the underlying writer: echo wrote without committing
	}
	w.chunks = append(w.chunks, append([]byte(nil), b...))
	return len(b), nil
}
func (w *c07Writer) Flush() {
	if len(w.calls) == 0 {
		w.calls = append(w.calls, -200)
	}
}

// canonical form of one body chunk, in the model's encDoc format
func c07CanonChunk(b []byte, status int) string {
	if string(b) == "pre" {
		return "0"
	}
	var v interface{}
	if json.Unmarshal(b, &v) != nil {
		return "9"
	}
	if v == nil {
		return "3" // the JSON document null
	}
	if obj, ok := v.(map[string]interface{}); ok {
		if mv, has := obj["message"]; has {
			ms, isStr := mv.(string)
			if !isStr {
				return "9"
			}
			var text string
			if at := c07Atoms(ms); len(at) == 1 && ms == c07Mk(at[0]) {
				text = wJoin("0", wInt(at[0]))
			} else if ms == http.StatusText(status) {
				text = wJoin("1", wInt(status))
			} else {
				return "9"
			}
			extra := len(obj) - 1
			dbg := "0"
			if ev, has := obj["error"]; has {
				es, isStr := ev.(string)
				if !isStr {
					return "9"
				}
				extra--
				at := c07Atoms(es)
				p := []string{"1", wInt(len(at))}
				for _, a := range at {
					p = append(p, wInt(a))
				}
				dbg = strings.Join(p, " ")
			}
			if extra != 0 {
				return "9"
			}
			return wJoin("1", text, dbg)
		}
	}
	if at := c07Atoms(string(b)); len(at) == 1 {
		return wJoin("2", wInt(at[0]))
	}
	return "9"
}

// ---- what the property demands, computed from the error value alone ----
func c07Effective(e *c07Err) (int, *c07Msg) {
	if e.K == "http" {
		he := e
		if e.In != nil && e.In.K == "http" {
			he = e.In
		}
		return he.Code, he.Msg
	}
	return http.StatusInternalServerError, nil
}

// texts of non-HTTP errors anywhere in the value: must never reach the client unless Debug
func c07Secrets(e *c07Err, out *[]int) {
	if e == nil {
		return
	}
	if e.K == "plain" || e.K == "wrap" {
		*out = append(*out, e.T)
	}
	c07Secrets(e.In, out)
}

func c07Depth(e *c07Err) int {
	if e == nil {
		return 0
	}
	return 1 + c07Depth(e.In)
}

func c07NewEcho(c *c07Case, cur func() *c07Case, onCtx func(echo.Context)) *echo.Echo {
	e := echo.New()
	e.Logger.SetOutput(io.Discard)
	e.Debug = c.Debug
	if c.Double {
		e.Use(func(next echo.HandlerFunc) echo.HandlerFunc {
			return func(ctx echo.Context) error {
				err := next(ctx)
				if err != nil {
					ctx.Error(err)
				}
				return err
			}
		})
	}
	if c.Recover {
		if c.DisableEH {
			e.Use(middleware.RecoverWithConfig(middleware.RecoverConfig{DisableErrorHandler: true, DisablePrintStack: true}))
		} else {
			e.Use(middleware.Recover())
		}
	}
	h := func(ctx echo.Context) error {
		if onCtx != nil {
			onCtx(ctx)
		}
		c := cur() // the request being served
		switch c.Pre {
		case "wrote":
			_ = ctx.String(c.PreCode, "pre")
		case "nocontent":
			_ = ctx.NoContent(c.PreCode)
		case "flush":
			ctx.Response().Flush()
		case "jsonbad":
			_ = ctx.JSON(c.PreCode, make(chan int))
		case "writeheader":
			ctx.Response().WriteHeader(c.PreCode)
		}
		switch c.Panic {
		case "":
			return c07Build(c.Err)
		case "err":
			panic(c07Build(c.Err))
		case "str":
			panic(c07Mk(c.PanicT))
		case "int":
			panic(7000000 + c.PanicT)
		case "struct":
			panic(c07PanicStruct{c07Mk(c.PanicT)})
		case "abort":
			panic(http.ErrAbortHandler)
		}
		return nil
	}
	e.Any("/x", h)
	e.GET("/ok", func(ctx echo.Context) error { return ctx.String(http.StatusOK, "ok") })
	return e
}

func c07Run(ci any) (res Result) {
	c := ci.(*c07Case)
	ops := ""
	defer func() {
		if p := recover(); p != nil {
			res = Result{Ops: ops, Obs: "harness-panic", Oracle: fmt.Sprintf("panic outside ServeHTTP: %v", p)}
		}
	}()
	ops = c07Ops(c)
	reqs := append([]*c07Case{c}, c.Then...)
	var resp *echo.Response
	cur := c
	e := c07NewEcho(c, func() *c07Case { return cur }, func(ctx echo.Context) { resp = ctx.Response() })

	oracle := ""
	tagSet := map[string]bool{}
	obs := []string{wInt(len(reqs))}
	nontrivial := len(reqs) > 1
	for i, rq := range reqs {
		cur, resp = rq, nil
		o, msg, nt := c07One(e, c, rq, &resp, tagSet)
		obs = append(obs, o)
		nontrivial = nontrivial || nt
		if msg != "" && oracle == "" {
			if len(reqs) > 1 {
				msg = fmt.Sprintf("request %d of %d through the same Echo: %s", i+1, len(reqs), msg)
			}
			oracle = msg
		}
	}
	if len(reqs) > 1 {
		tagSet[fmt.Sprintf("sequence-of-%d", len(reqs))] = true
	}

	// the server goes on serving
	rec := httptest.NewRecorder()
	func() {
		defer func() {
			if r := recover(); r != nil && oracle == "" {
				oracle = fmt.Sprintf("follow-up request panicked: %v", r)
			}
		}()
		e.ServeHTTP(rec, httptest.NewRequest(http.MethodGet, "/ok", nil))
	}()
	if (rec.Code != http.StatusOK || rec.Body.String() != "ok") && oracle == "" {
		oracle = fmt.Sprintf("follow-up request not served: status %d body %q", rec.Code, rec.Body.String())
	}
	var tags []string
	for t := range tagSet {
		tags = append(tags, t)
	}
	return Result{Ops: ops, Obs: strings.Join(obs, " "), Oracle: oracle, Tags: tags, Nontrivial: nontrivial}
}

// c07One serves one failing request (c) on the Echo built from cfg and judges it on its own:
// observation in the model's format, oracle verdict, non-triviality
func c07One(e *echo.Echo, cfg, c *c07Case, resp **echo.Response, tagSet map[string]bool) (string, string, bool) {
	w := &c07Writer{h: http.Header{}}
	req := httptest.NewRequest(c.Method, "/x", nil)
	crashed := false
	committed := false
	func() {
		defer func() {
			if r := recover(); r != nil {
				crashed = true
			}
		}()
		e.ServeHTTP(w, req)
		committed = *resp != nil && (*resp).Committed
	}()

	oracle := ""
	fail := func(format string, a ...any) {
		if oracle == "" {
			oracle = fmt.Sprintf(format, a...)
		}
	}
	tag := func(t string) { tagSet[t] = true }
	// observation in the model's format
	var obs string
	status := 0
	if len(w.calls) > 0 {
		status = w.calls[0]
	}
	if crashed {
		obs = "X"
	} else {
		p := []string{wBool(committed), wInt(len(w.calls))}
		for _, cc := range w.calls {
			p = append(p, wInt(cc))
		}
		p = append(p, wInt(len(w.chunks)))
		for _, ch := range w.chunks {
			p = append(p, c07CanonChunk(ch, status))
		}
		obs = strings.Join(p, " ")
	}

	// ---------- model-free oracle ----------
	head := c.Method == http.MethodHead
	preCommitted := c.Pre == "wrote" || c.Pre == "nocontent" || c.Pre == "flush" || c.Pre == "writeheader"
	expectCrash := c.Panic != "" && (!cfg.Recover || c.Panic == "abort")
	var body []byte
	for _, ch := range w.chunks {
		body = append(body, ch...)
	}
	if expectCrash {
		tag("unrecovered-panic")
		if !crashed {
			fail("a panic without Recover (or http.ErrAbortHandler) did not leave ServeHTTP")
		}
	} else if crashed {
		fail("the panic escaped ServeHTTP although Recover is installed")
	} else {
		// information leak (checked first: the gravest way to fail)
		if !cfg.Debug {
			var secrets []int
			if c.Panic == "" || c.Panic == "err" {
				c07Secrets(c.Err, &secrets)
			} else {
				secrets = append(secrets, c.PanicT)
			}
			for _, s := range secrets {
				if bytes.Contains(body, []byte(c07Mk(s))) || bytes.Contains(body, []byte(strconv.Itoa(7000000+s))) {
					fail("text of internal error (atom %d) reached the client with Debug off: %q", s, body)
				}
			}
		}
		if len(w.calls) != 1 {
			fail("exactly one response expected, the underlying writer received WriteHeader calls %v", w.calls)
		} else if w.calls[0] < 0 {
			fail("body written without a status line (underlying writer had to send its implicit 200)")
		}
		if !committed {
			fail("Response.Committed is false after the error was handled")
		}
		if preCommitted {
			tag("committed-before")
			wantStatus := c.PreCode
			if c.Pre == "flush" {
				wantStatus = 200
			}
			wantBody := ""
			if c.Pre == "wrote" {
				wantBody = "pre"
			}
			if status != wantStatus || string(body) != wantBody {
				fail("response was committed (%d %q) before the error; afterwards status %d body %q", wantStatus, wantBody, status, body)
			}
		} else {
			// which error reaches the handler
			var code int
			var msg *c07Msg
			if c.Panic == "" || c.Panic == "err" {
				code, msg = c07Effective(c.Err)
			} else {
				code, msg = http.StatusInternalServerError, nil
			}
			if status != code {
				fail("status %d, the error value demands %d", status, code)
			}
			if head {
				tag("head")
				if len(body) != 0 {
					fail("HEAD response has a body: %q", body)
				}
			} else {
				if len(w.chunks) != 1 {
					fail("expected one JSON document, got %d body writes", len(w.chunks))
				}
				var v interface{}
				if json.Unmarshal(body, &v) != nil {
					fail("body is not a JSON document: %q", body)
				} else {
					obj, _ := v.(map[string]interface{})
					wantText, textual := "", true
					switch {
					case msg == nil:
						wantText = http.StatusText(http.StatusInternalServerError)
					case msg.K == "str" || msg.K == "err":
						wantText = c07Mk(msg.T)
					case msg.K == "dflt":
						wantText = http.StatusText(code)
					default:
						textual = false
					}
					if textual {
						if got, _ := obj["message"].(string); obj == nil || got != wantText {
							fail("message %q expected, body %q", wantText, body)
						}
					} else {
						want, _ := json.Marshal(c07BuildMsg(msg))
						var wv interface{}
						json.Unmarshal(want, &wv)
						if fmt.Sprint(wv) != fmt.Sprint(v) {
							fail("body %q is not the message value %s", body, want)
						}
					}
					if _, has := obj["error"]; has && !cfg.Debug {
						fail("\"error\" detail in the body although Debug is off: %q", body)
					}
				}
			}
		}
	}

	// real server round trip: what a client gets is what the recording writer saw
	if cfg == c && c.RoundTrip && len(c.Then) == 0 && !expectCrash && !crashed {
		tag("round-trip")
		if msg := c07RoundTrip(c, status, body); msg != "" {
			fail("%s", msg)
		}
	}

	if cfg.Debug {
		tag("debug")
	}
	if c.Panic != "" {
		tag("panic:" + c.Panic)
	} else {
		tag("returned")
	}
	if cfg.Double {
		tag("double-handling-middleware")
	}
	if cfg.DisableEH {
		tag("recover-returns-error")
	}
	if c.Err != nil {
		tag("top:" + c.Err.K)
		if c.Err.K == "http" {
			tag("msg:" + c.Err.Msg.K)
			if c.Err.In != nil {
				tag("internal:" + c.Err.In.K)
				if c.Err.In.K == "http" {
					tag("carried-msg:" + c.Err.In.Msg.K)
				}
			}
		}
		if c.Err.K == "wrap" && c.Err.In.K == "http" {
			tag("wrapped-http-error")
		}
	}
	if status == 204 || status == 304 {
		tag("bodyless-status")
	}
	if c.Pre == "jsonbad" {
		tag("status-preset-before")
	}
	return obs, oracle, c07Depth(c.Err) >= 2 || c.Panic != "" || preCommitted || cfg.Double
}

func c07RoundTrip(c *c07Case, status int, body []byte) string {
	e := c07NewEcho(c, func() *c07Case { return c }, nil)
	srv := httptest.NewServer(e)
	defer srv.Close()
	req, _ := http.NewRequest(c.Method, srv.URL+"/x", nil)
	// the server's own client/transport: Server.Close of a concurrently running case closes the
	// idle connections of http.DefaultTransport
	client := srv.Client()
	client.CheckRedirect = func(*http.Request, []*http.Request) error { return http.ErrUseLastResponse }
	resp, err := client.Do(req)
	if err != nil {
		return fmt.Sprintf("real server: client got no response: %v", err)
	}
	defer resp.Body.Close()
	got, _ := io.ReadAll(resp.Body)
	if resp.StatusCode != status {
		return fmt.Sprintf("real server: client status %d, recording writer %d", resp.StatusCode, status)
	}
	want := body
	if c.Method == http.MethodHead || status == 204 || status == 304 || status < 200 {
		want = nil // net/http does not transmit a body here
	}
	if !bytes.Equal(got, want) {
		return fmt.Sprintf("real server: client body %q, recording writer %q", got, want)
	}
	// and the server goes on serving
	r2, err := client.Get(srv.URL + "/ok")
	if err != nil {
		return fmt.Sprintf("real server: follow-up failed: %v", err)
	}
	b2, _ := io.ReadAll(r2.Body)
	r2.Body.Close()
	if r2.StatusCode != 200 || string(b2) != "ok" {
		return fmt.Sprintf("real server: follow-up status %d body %q", r2.StatusCode, b2)
	}
	return ""
}

// ---------- generator ----------

var c07Codes = []int{200, 201, 204, 301, 304, 400, 401, 403, 404, 405, 409, 413, 418, 422, 429, 499, 500, 501, 502, 503, 599}

type c07G struct {
	r    *rand.Rand
	next int
}

func (g *c07G) atom() int { g.next++; return g.next }
func (g *c07G) code() int {
	if g.r.Intn(3) == 0 {
		return 200 + g.r.Intn(400)
	}
	return c07Codes[g.r.Intn(len(c07Codes))]
}
func (g *c07G) msg() *c07Msg {
	k := []string{"str", "str", "str", "dflt", "err", "marsh", "other", "nil"}[g.r.Intn(8)]
	m := &c07Msg{K: k, V: g.r.Intn(6)}
	if k != "dflt" && k != "nil" {
		m.T = g.atom()
	}
	return m
}
func (g *c07G) err(depth int) *c07Err {
	k := g.r.Intn(10)
	switch {
	case depth <= 1 && k < 4, k < 2:
		return &c07Err{K: "plain", T: g.atom()}
	case k < 4 && depth > 1:
		return &c07Err{K: "wrap", T: g.atom(), In: g.err(depth - 1)}
	}
	e := &c07Err{K: "http", Code: g.code(), Msg: g.msg(), V: g.r.Intn(6)}
	if depth > 1 && g.r.Intn(3) != 0 {
		e.In = g.err(depth - 1)
	}
	return e
}

func c07GenCase(r *rand.Rand, maxDepth int) *c07Case {
	g := &c07G{r: r}
	c := &c07Case{
		Debug:   r.Intn(3) == 0,
		Method:  []string{http.MethodGet, http.MethodGet, http.MethodHead, http.MethodPost}[r.Intn(4)],
		Recover: r.Intn(8) != 0,
	}
	if r.Intn(3) == 0 {
		c.Pre = []string{"wrote", "nocontent", "flush", "jsonbad", "writeheader"}[r.Intn(5)]
		if c.Pre != "flush" {
			c.PreCode = g.code()
		}
	}
	if c.Recover && r.Intn(4) == 0 {
		c.DisableEH = true
	}
	c.Double = r.Intn(5) == 0
	if r.Intn(5) < 2 {
		c.Panic = []string{"err", "err", "str", "int", "struct", "abort"}[r.Intn(6)]
	} else {
		c.Recover = r.Intn(2) == 0 // returned errors: with and without Recover in the chain
	}
	switch c.Panic {
	case "", "err":
		c.Err = g.err(1 + r.Intn(maxDepth))
	case "abort":
	default:
		c.PanicT = g.atom()
	}
	return c
}

func c07Gen(r *rand.Rand, tier string) []any {
	n, depth, nrt := 3000, 3, 0
	if tier == "thorough" {
		n, depth, nrt = 60000, 5, 3000
	}
	var out []any
	for i := 0; i < n; i++ {
		c := c07GenCase(r, depth)
		// a third of the cases: 1-3 more failing requests through the same Echo (pooled context reused)
		if r.Intn(3) == 0 {
			for k := 1 + r.Intn(3); k > 0; k-- {
				c.Then = append(c.Then, c07GenCase(r, depth))
			}
		}
		out = append(out, c)
	}
	// sequences aimed at state that survives a request: panic after panic, error after panic,
	// panic after error, with every Echo-level configuration
	for _, recoverOn := range []bool{true, false} {
		for _, disableEH := range []bool{false, true} {
			for _, double := range []bool{false, true} {
				for _, debug := range []bool{false, true} {
					kinds := [][]string{{"str", "str"}, {"err", "int", "struct"}, {"", "str", ""}, {"str", "", "err"}, {"", ""}, {"err", "err", "err", "err"}}
					for _, ks := range kinds {
						var head *c07Case
						for i, k := range ks {
							g := &c07G{r: r, next: 100 * i}
							rq := &c07Case{Method: []string{http.MethodGet, http.MethodPost, http.MethodHead}[r.Intn(3)], Panic: k}
							if k == "" || k == "err" {
								rq.Err = g.err(1 + r.Intn(depth))
							} else {
								rq.PanicT = g.atom()
							}
							if head == nil {
								head = rq
								head.Debug, head.Recover, head.DisableEH, head.Double = debug, recoverOn, disableEH, double
							} else {
								head.Then = append(head.Then, rq)
							}
						}
						out = append(out, head)
					}
				}
			}
		}
	}
	// adversarial shapes aimed at the decision points
	g := &c07G{r: r, next: 500}
	for _, debug := range []bool{false, true} {
		for _, method := range []string{http.MethodGet, http.MethodHead} {
			for _, mk := range []string{"str", "dflt", "err", "marsh", "other", "nil"} {
				mkMsg := func() *c07Msg {
					m := &c07Msg{K: mk, V: r.Intn(6)}
					if mk != "dflt" && mk != "nil" {
						m.T = g.atom()
					}
					return m
				}
				shapes := []*c07Err{
					// two levels of Internal HTTPError: only one level is unwrapped
					{K: "http", Code: 400, Msg: mkMsg(), In: &c07Err{K: "http", Code: 409, Msg: mkMsg(), In: &c07Err{K: "http", Code: 418, Msg: mkMsg()}}},
					// %w around an HTTPError is not an HTTPError
					{K: "wrap", T: g.atom(), In: &c07Err{K: "http", Code: 403, Msg: mkMsg()}},
					// Internal is a %w-wrapped HTTPError: not unwrapped
					{K: "http", Code: 422, Msg: mkMsg(), In: &c07Err{K: "wrap", T: g.atom(), In: &c07Err{K: "http", Code: 404, Msg: mkMsg()}}},
					// plain Internal below an internal HTTPError
					{K: "http", Code: 502, Msg: mkMsg(), In: &c07Err{K: "http", Code: 503, Msg: mkMsg(), In: &c07Err{K: "plain", T: g.atom()}}},
					{K: "http", Code: 204, Msg: mkMsg(), In: &c07Err{K: "plain", T: g.atom()}},
					// message of this kind on the directly carried HTTPError, which itself carries a plain error
					{K: "http", Code: 400, Msg: &c07Msg{K: "str", T: g.atom()}, In: &c07Err{K: "http", Code: 409, Msg: mkMsg(), In: &c07Err{K: "plain", T: g.atom()}}},
					// no Internal at all
					{K: "http", Code: 502, Msg: mkMsg()},
				}
				for _, s := range shapes {
					for _, pk := range []string{"", "err"} {
						out = append(out, &c07Case{Debug: debug, Method: method, Recover: true, Panic: pk, Err: s, Double: r.Intn(4) == 0, DisableEH: r.Intn(4) == 0})
					}
				}
			}
		}
	}
	for i := 0; i < nrt; i++ {
		c := c07GenCase(r, depth)
		c.RoundTrip = true
		out = append(out, c)
	}
	return out
}

func c07Shrink(ci any) []any {
	c := ci.(*c07Case)
	var out []any
	add := func(f func(d *c07Case)) {
		d := *c
		f(&d)
		out = append(out, &d)
	}
	if c.RoundTrip {
		add(func(d *c07Case) { d.RoundTrip = false })
	}
	for i := range c.Then {
		i := i
		// drop a later request; or drop everything before it (it becomes the first, keeping the configuration)
		add(func(d *c07Case) { d.Then = append(append([]*c07Case(nil), c.Then[:i]...), c.Then[i+1:]...) })
	}
	if len(c.Then) > 0 {
		add(func(d *c07Case) {
			h := *c.Then[0]
			h.Debug, h.Recover, h.DisableEH, h.Double, h.RoundTrip = c.Debug, c.Recover, c.DisableEH, c.Double, false
			h.Then = append([]*c07Case(nil), c.Then[1:]...)
			*d = h
		})
	}
	if c.Double {
		add(func(d *c07Case) { d.Double = false })
	}
	if c.DisableEH {
		add(func(d *c07Case) { d.DisableEH = false })
	}
	if c.Pre != "" {
		add(func(d *c07Case) { d.Pre, d.PreCode = "", 0 })
	}
	if c.Debug {
		add(func(d *c07Case) { d.Debug = false })
	}
	if c.Method != http.MethodGet {
		add(func(d *c07Case) { d.Method = http.MethodGet })
	}
	if c.Panic == "err" {
		add(func(d *c07Case) { d.Panic = "" })
	}
	if c.Err != nil {
		for _, v := range c07ShrinkErr(c.Err) {
			v := v
			add(func(d *c07Case) { d.Err = v })
		}
	}
	return out
}

// smaller valid variants of an error tree: a subtree in place of the tree, an Internal cut off,
// a simpler message, and the same one level down
func c07ShrinkErr(e *c07Err) []*c07Err {
	var out []*c07Err
	if e.In != nil {
		out = append(out, e.In)
		if e.K == "http" {
			d := *e
			d.In = nil
			out = append(out, &d)
		}
		for _, v := range c07ShrinkErr(e.In) {
			d := *e
			d.In = v
			out = append(out, &d)
		}
	}
	if e.K == "wrap" {
		out = append(out, &c07Err{K: "plain", T: e.T})
	}
	if e.K == "http" && e.Msg.K != "str" {
		d := *e
		d.Msg = &c07Msg{K: "str", T: 900 + e.Msg.T}
		out = append(out, &d)
	}
	return out
}

func c07Mutate(r *rand.Rand, ci any) []any {
	c := ci.(*c07Case)
	var out []any
	for _, debug := range []bool{false, true} {
		for _, m := range []string{http.MethodGet, http.MethodHead, http.MethodPost} {
			for _, pre := range []string{"", "wrote"} {
				d := *c
				d.Debug, d.Method, d.Pre = debug, m, pre
				if pre != "" {
					d.PreCode = 200
				}
				out = append(out, &d)
			}
		}
	}
	return out
}

func init() {
	register(&Prop{
		ID:             "C07",
		Rule:           "error values as trees: plain | fmt.Errorf(%w) wrap | *echo.HTTPError (NewHTTPError / literal / SetInternal / WithInternal) with message kinds {string, default StatusText, error value, json.Marshaler (also one that is an error too), map/struct/slice, nil (no message: literal without Message, NewHTTPError(code, nil))} and Internal {none, plain, wrapped, HTTPError, nested}, depth <= 3 (thorough: 5), codes 200-599 incl. 204/304; x returned or panicked (panic values: error, string, int, struct, http.ErrAbortHandler) x Recover installed or not x RecoverConfig.DisableErrorHandler x an outer middleware that calls c.Error(err) AND returns err x handler did {nothing, String, NoContent, Flush, WriteHeader, failed JSON} before failing x GET/HEAD/POST x Debug; plus a fixed family aimed at the decision points (two Internal levels, %w around / inside an HTTPError); every text is a unique marker; a third of the cases and a fixed family serve 2-4 failing requests (returned errors and recovered panics, mixed) through the SAME Echo one after the other on one goroutine (pooled context reused), each judged on its own; a follow-up request checks the server still serves; thorough: 3000 cases also through a real httptest.Server; non-trivial = tree depth >= 2, or a panic, or committed before the error, or the double-handling middleware, or a sequence of requests",
		New:            func() any { return &c07Case{} },
		Gen:            c07Gen,
		Run:            c07Run,
		Shrink:         c07Shrink,
		Mutate:         c07Mutate,
		Correspondence: "C07.serveAll / C07.serve (lean/EchoModel/C07.lean) vs Echo.ServeHTTP + Echo.DefaultHTTPErrorHandler + middleware.Recover on a recording http.ResponseWriter",
	})
}
