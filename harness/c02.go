package main

// C02 — route choice = static > param > wildcard search with full backtracking, independent
// of the registration order; host routers.  Model: Router.Spec.routeTable (L1, order free) on the table in force
// after the registration events (C02.inForce: re-registered routes, catch-all routes of groups with middleware).

import (
	"fmt"
	"math/rand"
	"net/http"
	"sort"
	"strings"

	"github.com/labstack/echo/v4"
	"github.com/labstack/echo/v4/middleware"
)

type c02Host struct {
	Host   string   `json:"host"`
	Routes []rRoute `json:"routes"`
	Mw     bool     `json:"mw,omitempty"` // created with e.Host(name, mw): the host group registers its two catch-all routes
}

// c02Group: a group of the default router.  A group that has middleware registers two RouteNotFound routes of its
// own (its prefix, and everything below `prefix/`); they are part of the table like any other route.
type c02Group struct {
	Prefix string `json:"prefix"`
	Parent int    `json:"parent,omitempty"` // 0: e.Group(...); k: Groups[k-1].Group(...) (k-1 must be a lower index)
	// Mw: 0 no middleware; 1 passed to Group(prefix, mw); 2 g.Use(mw) right after the group is created;
	// 3 g.Use(mw) after the last route of the group; 4 = 1 and 3 (the catch-all routes are registered twice)
	Mw    int  `json:"mw,omitempty"`
	Early bool `json:"early,omitempty"` // created before any route is registered (else right before its first route)
}

type c02Case struct {
	Routes []rRoute   `json:"routes"` // default router, canonical order (handler id = index here)
	Perm   []int      `json:"perm"`   // registration order actually used: Routes[Perm[0]], Routes[Perm[1]], ...
	Hosts  []c02Host  `json:"hosts,omitempty"`
	Groups []c02Group `json:"groups,omitempty"`
	In     []int      `json:"in,omitempty"` // per route of Routes: 0 registered on the Echo instance, k through Groups[k-1] (path relative to the group)
	Req    rReq       `json:"req"`
	Pre    bool       `json:"pre,omitempty"` // a (no-op) Pre middleware is installed: host selection and routing happen inside the Pre chain
}

type c02Obs struct {
	rObs
	Table int // 0 = default table, k = k-th host table
}

func (o c02Obs) wire() string {
	t := "-"
	if o.Kind == 'D' {
		t = wInt(o.Table)
	}
	switch o.Kind {
	case 'D':
		return wJoin(t, "D", wInt(o.Hid), wStr(o.PPath), wStrs(o.Names), wStrs(o.Values))
	case 'N':
		return wJoin(t, "N")
	case 'M':
		return wJoin(t, "M", wStrs(o.Allow))
	}
	return wJoin(t, "P")
}

// human: the observation in words (for oracle messages)
func (o c02Obs) human() string {
	switch o.Kind {
	case 'D':
		return fmt.Sprintf("handler %d of table %d (c.Path() %q, names %q, values %q)", o.Hid, o.Table, o.PPath, o.Names, o.Values)
	case 'N':
		return "404"
	case 'M':
		return fmt.Sprintf("405/204 with Allow %q", o.Allow)
	}
	return "panic " + o.Panic
}

// ---------- what the application does, step by step ----------

// c02Act: one call the application makes while it sets up its routes
type c02Act struct {
	Kind   byte   // 'r' a route is added, 'g' a group is created, 'u' Group.Use on an existing group, 'h' a host router is created
	Table  int    // 0 default router, k: Hosts[k-1]
	Grp    int    // 'r': added through Groups[Grp-1] (0: through the Echo instance / the host group); 'g', 'u': Groups[Grp-1]
	Method string // 'r'
	Path   string // 'r': as passed to Add (relative to the registrar)
	Hid    int    // 'r'
	Mw     bool   // 'g', 'h': created with middleware
	Pick   int    // 'r': which of the equivalent entry points (Add, verb helper, Match)
}

// c02Ev: one registration as the router sees it: a route with its full path, or the pair of catch-all routes of a
// group with middleware (Path = the group's full prefix; handler ids Hid and Hid+1)
type c02Ev struct {
	Table  int
	Use    bool
	Method string
	Path   string
	Hid    int
}

func (c *c02Case) in(i int) int {
	if i < len(c.In) && c.In[i] > 0 && c.In[i] <= len(c.Groups) {
		return c.In[i]
	}
	return 0
}

func (c *c02Case) parent(g int) int {
	if p := c.Groups[g].Parent; p > 0 && p-1 < g {
		return p
	}
	return 0
}

// c02Plan: the set-up calls in the order given by perm (hosts and groups in between)
func c02Plan(c *c02Case, perm []int) []c02Act {
	var acts []c02Act
	created := make([]bool, len(c.Groups))
	last := map[int]int{}
	for pos, i := range perm {
		if g := c.in(i); g > 0 {
			last[g-1] = pos
		}
	}
	var ensure func(g int)
	ensure = func(g int) {
		if created[g] {
			return
		}
		if p := c.parent(g); p > 0 {
			ensure(p - 1)
		}
		created[g] = true
		mw := c.Groups[g].Mw
		acts = append(acts, c02Act{Kind: 'g', Grp: g + 1, Mw: mw == 1 || mw == 4})
		if mw == 2 {
			acts = append(acts, c02Act{Kind: 'u', Grp: g + 1})
		}
	}
	for g := range c.Groups {
		if c.Groups[g].Early {
			ensure(g)
		}
	}
	// interleave: host tables are registered between the routes of the default table
	hostAt := map[int][]int{}
	for k := range c.Hosts {
		at := 0
		if len(perm) > 0 {
			at = (k * 7) % (len(perm) + 1)
		}
		hostAt[at] = append(hostAt[at], k)
	}
	regHost := func(k int) {
		acts = append(acts, c02Act{Kind: 'h', Table: k + 1, Mw: c.Hosts[k].Mw})
		for i, r := range c.Hosts[k].Routes {
			acts = append(acts, c02Act{Kind: 'r', Table: k + 1, Method: r.Method, Path: r.Path, Hid: i, Pick: i + k + len(r.Path)})
		}
	}
	for pos, i := range perm {
		for _, k := range hostAt[pos] {
			regHost(k)
		}
		g := c.in(i)
		if g > 0 {
			ensure(g - 1)
		}
		acts = append(acts, c02Act{Kind: 'r', Grp: g, Method: c.Routes[i].Method, Path: c.Routes[i].Path, Hid: i, Pick: i + len(c.Routes[i].Path)})
		if g > 0 && last[g-1] == pos {
			if mw := c.Groups[g-1].Mw; mw == 3 || mw == 4 {
				acts = append(acts, c02Act{Kind: 'u', Grp: g})
			}
		}
	}
	for _, k := range hostAt[len(perm)] {
		regHost(k)
	}
	for g := range c.Groups {
		if !created[g] {
			ensure(g)
			if mw := c.Groups[g].Mw; mw == 3 || mw == 4 {
				acts = append(acts, c02Act{Kind: 'u', Grp: g + 1})
			}
		}
	}
	return acts
}

// c02Expand: what every set-up call registers (the harness's own reading of group.go: a group's routes get the
// group's full prefix; Use — also the implicit one of Group(prefix, mw...) / Host(name, mw...), and of a sub-group
// that inherits middleware — registers the two catch-all routes whenever the group then has any middleware)
func c02Expand(c *c02Case, acts []c02Act) [][]c02Ev {
	prefix := make([]string, len(c.Groups))
	mwc := make([]int, len(c.Groups))
	out := make([][]c02Ev, len(acts))
	for k, a := range acts {
		switch a.Kind {
		case 'g':
			g := a.Grp - 1
			prefix[g] = c.Groups[g].Prefix
			if p := c.parent(g); p > 0 {
				prefix[g] = prefix[p-1] + prefix[g]
				mwc[g] = mwc[p-1]
			}
			if a.Mw {
				mwc[g]++
			}
			if mwc[g] > 0 {
				out[k] = []c02Ev{{Use: true, Path: prefix[g], Hid: len(c.Routes) + 2*g}}
			}
		case 'u':
			g := a.Grp - 1
			mwc[g]++
			out[k] = []c02Ev{{Use: true, Path: prefix[g], Hid: len(c.Routes) + 2*g}}
		case 'h':
			if a.Mw {
				out[k] = []c02Ev{{Table: a.Table, Use: true, Path: "", Hid: len(c.Hosts[a.Table-1].Routes)}}
			}
		case 'r':
			p := a.Path
			if a.Grp > 0 {
				p = prefix[a.Grp-1] + p
			}
			out[k] = []c02Ev{{Table: a.Table, Method: a.Method, Path: p, Hid: a.Hid}}
		}
	}
	return out
}

// c02Entry: one route of a table (a catch-all route of a group is a RouteNotFound route)
type c02Entry struct {
	Method string
	Path   string
	Hid    int
}

func c02Entries(ev c02Ev) []c02Entry {
	if ev.Use {
		return []c02Entry{{routeNotFound, ev.Path, ev.Hid}, {routeNotFound, ev.Path + "/*", ev.Hid + 1}}
	}
	return []c02Entry{{ev.Method, ev.Path, ev.Hid}}
}

func c02Key(e c02Entry) string {
	toks, _, _ := rNorm(e.Path)
	return e.Method + " " + rTokKey(toks)
}

// c02InForce: the table in force, by the property's quantifier: of structurally identical registrations (same method,
// same pattern up to parameter names and text after `*`) the last one wins.  Sorted by handler id.
func c02InForce(evs []c02Ev) (tbl []c02Entry, shadowed map[int]bool) {
	var all []c02Entry
	for _, ev := range evs {
		all = append(all, c02Entries(ev)...)
	}
	lastAt := map[string]int{}
	for i, e := range all {
		lastAt[c02Key(e)] = i
	}
	shadowed = map[int]bool{}
	inforce := map[int]bool{}
	for i, e := range all {
		if lastAt[c02Key(e)] == i {
			tbl = append(tbl, e)
			inforce[e.Hid] = true
		}
	}
	for _, e := range all {
		if !inforce[e.Hid] {
			shadowed[e.Hid] = true
		}
	}
	sort.SliceStable(tbl, func(a, b int) bool { return tbl[a].Hid < tbl[b].Hid })
	return tbl, shadowed
}

func c02NormPath(p string) string {
	if p == "" || p[0] != '/' {
		return "/" + p
	}
	return p
}

// c02Exec makes the set-up calls on a new Echo instance and serves req.
func c02Exec(c *c02Case, acts []c02Act, evs [][]c02Ev) c02Obs {
	var cur rObs
	table := -1
	seen := -1 // table of the group whose middleware ran last for the current request
	e := echo.New()
	e.Logger.SetOutput(nopWriter{})
	mk := func(tbl, i int) echo.HandlerFunc {
		return func(ctx echo.Context) error {
			table = tbl
			cur.Kind = 'D'
			cur.Hid = i
			cur.PPath = ctx.Path()
			cur.Names = append([]string{}, ctx.ParamNames()...)
			cur.Values = append([]string{}, ctx.ParamValues()...)
			rScribble(ctx)
			return ctx.NoContent(http.StatusOK)
		}
	}
	mkMw := func(tbl int) echo.MiddlewareFunc {
		return func(next echo.HandlerFunc) echo.HandlerFunc {
			return func(ctx echo.Context) error {
				seen = tbl
				return next(ctx)
			}
		}
	}
	// catch-all routes of groups answer through echo.NotFoundHandler, which cannot be instrumented: a 404 that
	// passed a group's middleware with c.Path() equal to one of that table's catch-all routes is the dispatch to it
	implicit := map[int]map[string]int{}
	e.Use(func(next echo.HandlerFunc) echo.HandlerFunc {
		return func(ctx echo.Context) error {
			seen = -1
			err := next(ctx)
			if cur.Kind != 'D' && err == echo.ErrNotFound && seen >= 0 {
				if hid, ok := implicit[seen][ctx.Path()]; ok {
					table = seen
					cur.Kind = 'D'
					cur.Hid = hid
					cur.PPath = ctx.Path()
					cur.Names = append([]string{}, ctx.ParamNames()...)
					cur.Values = append([]string{}, ctx.ParamValues()...)
				}
			}
			return err
		}
	})
	groups := make([]*echo.Group, len(c.Groups))
	hostG := map[int]*echo.Group{}
	for k, a := range acts {
		switch a.Kind {
		case 'g':
			g := a.Grp - 1
			var mws []echo.MiddlewareFunc
			if a.Mw {
				mws = append(mws, mkMw(0))
			}
			if p := c.parent(g); p > 0 {
				groups[g] = groups[p-1].Group(c.Groups[g].Prefix, mws...)
			} else {
				groups[g] = e.Group(c.Groups[g].Prefix, mws...)
			}
		case 'u':
			groups[a.Grp-1].Use(mkMw(0))
		case 'h':
			if a.Mw {
				hostG[a.Table] = e.Host(c.Hosts[a.Table-1].Host, mkMw(a.Table))
			} else {
				hostG[a.Table] = e.Host(c.Hosts[a.Table-1].Host)
			}
		case 'r':
			var reg rRegistrar = e
			if a.Grp > 0 {
				reg = groups[a.Grp-1]
			} else if a.Table > 0 {
				reg = hostG[a.Table]
			}
			rAddVia(reg, a.Pick, a.Method, a.Path, mk(a.Table, a.Hid))
		}
		for _, ev := range evs[k] {
			if ev.Use {
				if implicit[ev.Table] == nil {
					implicit[ev.Table] = map[string]int{}
				}
				implicit[ev.Table][c02NormPath(ev.Path)] = ev.Hid
				implicit[ev.Table][c02NormPath(ev.Path+"/*")] = ev.Hid + 1
			} else if ev.Method == routeNotFound && implicit[ev.Table] != nil {
				// an explicit RouteNotFound route registered later takes the place of a catch-all of the same spelling
				delete(implicit[ev.Table], c02NormPath(ev.Path))
			}
		}
	}
	if c.Pre {
		e.Pre(func(next echo.HandlerFunc) echo.HandlerFunc { return func(ctx echo.Context) error { return next(ctx) } })
	}
	if c.Req.Override {
		e.Pre(middleware.MethodOverride())
	}
	if (len(c.Req.Path)+len(c.Req.Host)+len(c.Routes))%2 == 0 {
		// the application has just answered requests for the OTHER host names (and the default one): nothing those
		// left behind (pooled context, whatever a router remembers) may decide which table serves this request
		for _, h := range append([]c02Host{{Host: "unregistered.example"}, {Host: ""}}, c.Hosts...) {
			if h.Host != c.Req.Host {
				rServe(e, &cur, rReq{Method: c.Req.Method, Path: c.Req.Path, Host: h.Host})
			}
		}
		table = -1
	}
	rServe(e, &cur, c.Req)
	return c02Obs{cur, table}
}

// c02Serve registers the tables (default table in the order given by perm) and serves req.
func c02Serve(c *c02Case, perm []int) (c02Obs, [][]c02Ev) {
	acts := c02Plan(c, perm)
	evs := c02Expand(c, acts)
	return c02Exec(c, acts, evs), evs
}

// c02ServeFlat: the same tables, but only the registrations IN FORCE, every one registered exactly once under its full
// path directly on its router (no groups, no middleware; catch-all routes as ordinary RouteNotFound routes) in the
// order of the handler ids.  By the property the answer to every request is the same.
func c02ServeFlat(c *c02Case, tbls [][]c02Entry) c02Obs {
	flat := &c02Case{Hosts: make([]c02Host, len(c.Hosts)), Req: c.Req, Pre: c.Pre, Routes: make([]rRoute, len(c.Routes))}
	var acts []c02Act
	for _, en := range tbls[0] {
		acts = append(acts, c02Act{Kind: 'r', Method: en.Method, Path: en.Path, Hid: en.Hid, Pick: en.Hid})
	}
	for k, h := range c.Hosts {
		flat.Hosts[k] = c02Host{Host: h.Host}
		acts = append(acts, c02Act{Kind: 'h', Table: k + 1})
		for _, en := range tbls[k+1] {
			acts = append(acts, c02Act{Kind: 'r', Table: k + 1, Method: en.Method, Path: en.Path, Hid: en.Hid, Pick: en.Hid})
		}
	}
	return c02Exec(flat, acts, make([][]c02Ev, len(acts)))
}

func c02Selected(c *c02Case) int {
	// the property's own reading of host selection: exactly that Host value, else default
	for k := len(c.Hosts) - 1; k >= 0; k-- { // a host registered twice: the later Host() call replaces the router
		if c.Hosts[k].Host == c.Req.Host {
			return k + 1
		}
	}
	return 0
}

func c02AllLiteral(p string) bool {
	toks, _, _ := rNorm(p)
	for _, t := range toks {
		if t.kind != 'l' {
			return false
		}
	}
	return true
}

func c02LitText(p string) string {
	toks, _, _ := rNorm(p)
	b := make([]byte, 0, len(toks))
	for _, t := range toks {
		b = append(b, t.c)
	}
	return string(b)
}

func obsEqual(a, b c02Obs) bool {
	return a.wire() == b.wire()
}

// like rMatchConservative but a trailing parameter may also take the rest of the path
func rMatchConservativeOrEmpty(toks []rTok, path string) bool {
	if rMatchConservative(toks, path) {
		return true
	}
	if n := len(toks); n > 0 && toks[n-1].kind == 'p' {
		// leaf parameter swallowing '/'
		t2 := append(append([]rTok(nil), toks[:n-1]...), rTok{kind: 'a'})
		return rMatchConservative(t2, path)
	}
	return false
}

func c02EvWire(evs []c02Ev) string {
	parts := []string{wInt(len(evs))}
	for _, ev := range evs {
		if ev.Use {
			parts = append(parts, "U", wStr(ev.Path), wInt(ev.Hid))
		} else {
			parts = append(parts, "R", wStr(ev.Method), wStr(ev.Path), wInt(ev.Hid))
		}
	}
	return strings.Join(parts, " ")
}

func c02Run(ci any) Result {
	c := ci.(*c02Case)
	if len(c.Perm) != len(c.Routes) {
		c.Perm = make([]int, len(c.Routes))
		for i := range c.Perm {
			c.Perm[i] = i
		}
	}
	got, evs := c02Serve(c, c.Perm)
	tags := []string{"outcome-" + string(got.Kind)}
	res := Result{Obs: got.wire()}
	// the registrations per table, in the order they were made
	perTable := make([][]c02Ev, len(c.Hosts)+1)
	for _, l := range evs {
		for _, ev := range l {
			perTable[ev.Table] = append(perTable[ev.Table], ev)
		}
	}
	// ops: default table, host tables, request
	parts := []string{c02EvWire(perTable[0]), wInt(len(c.Hosts))}
	for k, h := range c.Hosts {
		parts = append(parts, wStr(h.Host), c02EvWire(perTable[k+1]))
	}
	parts = append(parts, wStr(c.Req.Host), wStr(c.Req.Method), wStr(c.Req.Path))
	res.Ops = strings.Join(parts, " ")

	tbls := make([][]c02Entry, len(perTable))
	shadowed := make([]map[int]bool, len(perTable))
	rereg := false
	for t := range perTable {
		tbls[t], shadowed[t] = c02InForce(perTable[t])
		if len(shadowed[t]) > 0 {
			rereg = true
		}
	}
	wantTable := c02Selected(c)
	sel := tbls[wantTable]
	selRoutes := make([]rRoute, len(sel))
	for i, en := range sel {
		selRoutes[i] = rRoute{Method: en.Method, Path: en.Path}
	}
	clash := rColonClash(selRoutes) || rHasTextAfterStar(selRoutes)
	if clash {
		tags = append(tags, "colon-clash-or-text-after-star")
	}
	if rereg {
		tags = append(tags, "re-registered-route")
	}
	if len(c.Groups) > 0 {
		tags = append(tags, "with-groups")
	}
	implicitHid := func(t, hid int) bool {
		if t == 0 {
			return hid >= len(c.Routes)
		}
		return t-1 < len(c.Hosts) && hid >= len(c.Hosts[t-1].Routes)
	}
	if got.Kind == 'D' && implicitHid(got.Table, got.Hid) {
		tags = append(tags, "group-catch-all-route")
	}
	fail := func(s string) {
		if res.Oracle == "" {
			res.Oracle = s
		}
	}
	// (a) host selection
	if got.Kind == 'D' && got.Table != wantTable {
		fail(fmt.Sprintf("Host %q was served by table %d, expected table %d", c.Req.Host, got.Table, wantTable))
	}
	if len(c.Hosts) > 0 {
		tags = append(tags, "with-hosts")
	}
	// (e) the handler that ran belongs to a registration in force (of identical registrations the last wins) made for
	// the request's method (or as a RouteNotFound route)
	if got.Kind == 'D' && got.Table == wantTable {
		var en *c02Entry
		for i := range sel {
			if sel[i].Hid == got.Hid {
				en = &sel[i]
			}
		}
		switch {
		case en == nil && shadowed[wantTable][got.Hid]:
			fail(fmt.Sprintf("the handler of registration %d ran, but the same route was registered again later: the last registration wins", got.Hid))
		case en == nil:
			fail(fmt.Sprintf("handler id %d is not registered on table %d", got.Hid, wantTable))
		case en.Method != routeNotFound && en.Method != c.Req.Method:
			fail(fmt.Sprintf("the handler registered for %s %q ran for a %s request", en.Method, en.Path, c.Req.Method))
		}
	}
	// (b) order independence: the registrations in force, each made once, flat, in canonical order must give the
	// same outcome
	ident := true
	for i := range c.Perm {
		if c.Perm[i] != i {
			ident = false
		}
	}
	if !ident {
		tags = append(tags, "permuted")
	}
	{
		ref := c02ServeFlat(c, tbls)
		// (a catch-all route of a group answers with echo's own not-found handler: to the client that is the
		// router's 404; which of the two it was is compared with the model, not demanded here)
		client := func(o c02Obs) string {
			if o.Kind == 'D' && implicitHid(o.Table, o.Hid) {
				return "- N"
			}
			return o.wire()
		}
		words := func(o c02Obs) string {
			if o.Kind == 'D' && implicitHid(o.Table, o.Hid) {
				return "404 (catch-all route of a group)"
			}
			return o.human()
		}
		if client(got) != client(ref) {
			fail(fmt.Sprintf("outcome depends on how the table was registered: %s, but %s with the registrations in force made once each in canonical order", words(got), words(ref)))
		}
	}
	// (c) a path equal to a registered literal route is served by that route
	for _, r := range sel {
		if r.Method == c.Req.Method && r.Method != routeNotFound && c02AllLiteral(r.Path) && c02LitText(r.Path) == c.Req.Path {
			tags = append(tags, "literal-route")
			if got.Kind != 'D' || got.Hid != r.Hid {
				fail(fmt.Sprintf("path equals the literal route %q but the outcome is %s", r.Path, got.human()))
			}
		}
	}
	// (d) never 404/405 when some pattern matches for the method
	if !clash {
		for _, r := range sel {
			if r.Method != c.Req.Method || r.Method == routeNotFound {
				continue
			}
			toks, _, _ := rNorm(r.Path)
			if rMatchConservative(toks, c.Req.Path) {
				tags = append(tags, "some-pattern-matches")
				// (dispatch to a registered RouteNotFound route — also a group's catch-all — is a completed branch of
				// the priority search: such a route stands for every method at its position; only the router's own
				// 404/405 is a miss)
				if got.Kind != 'D' {
					fail(fmt.Sprintf("pattern %q matches %s %q but the outcome is %s", r.Path, c.Req.Method, c.Req.Path, got.human()))
				}
				break
			}
		}
	}
	if got.Kind == 'D' && len(sel) > 2 && !ident {
		res.Nontrivial = true
	}
	if c02HostTwice(c) {
		// `Echo.Host(name)` called twice for the request's Host: the present code installs a fresh router (the model follows it),
		// but which of the tables registered for that very name serve it — the last one, or their union — is a set-up sequence
		// the property's quantifier does not speak about ("routes registered for one host are used for exactly that Host value"
		// holds either way).  Nothing is judged; the comparison with the model is reported as drift at most.
		res.Oracle = ""
		tags = append(tags, "request-host-created-twice(outside the quantifier)")
	}
	res.Tags = tags
	return res
}

func c02HostTwice(c *c02Case) bool {
	n := 0
	for _, h := range c.Hosts {
		if h.Host == c.Req.Host {
			n++
		}
	}
	return n > 1
}

// c02Tolerable: only the case above — the request's Host names a host router that was created more than once.
func c02Tolerable(ci any, impl, model string) bool {
	c, ok := ci.(*c02Case)
	return ok && c02HostTwice(c)
}

var c02Prefixes = []string{"/api", "/ab", "/a", "/v1", "/users", "/api/", "", "/:tenant", "/ab/:id", "/new", "api", "/x.y", "/a/b"}

func c02Gen(r *rand.Rand, tier string) []any {
	tables, per := 500, 8
	if tier == "thorough" {
		tables, per = 6000, 14
	}
	var out []any
	hostNames := []string{"a.com", "b.org", "a.com:80", "A.com", "sub.a.com"}
	// host names as an application may register them: the property speaks about "exactly that Host value"
	regHosts := []string{"a.com", "b.org", "a.com:80", "API.Example.com", "B.ORG", "xn--bcher-kva.example", "[::1]:8080"}
	vary := func(h string) string {
		switch r.Intn(8) {
		case 0:
			return strings.ToLower(h)
		case 1:
			return strings.ToUpper(h)
		case 2:
			return h + ":80"
		case 3:
			return "sub." + h
		case 4:
			return h + "."
		case 5:
			return strings.TrimSuffix(h, ":80")
		case 6:
			return " " + h
		}
		return h
	}
	for i := 0; i < tables; i++ {
		o := rGenOpts{escaped: r.Intn(5) == 0, maxRoute: 7, dups: r.Intn(4) == 0}
		routes := rGenTable(r, o)
		if o.dups && len(routes) < 7 && r.Intn(2) == 0 {
			// the very same route (same spelling) once more
			routes = append(routes, routes[r.Intn(len(routes))])
		}
		var hosts []c02Host
		if r.Intn(3) == 0 {
			nh := 1 + r.Intn(2)
			for k := 0; k < nh; k++ {
				hosts = append(hosts, c02Host{Host: regHosts[r.Intn(len(regHosts))], Routes: rGenTable(r, rGenOpts{maxRoute: 4, dups: r.Intn(6) == 0}), Mw: r.Intn(4) == 0})
			}
			if len(hosts) == 2 && hosts[0].Host == hosts[1].Host && r.Intn(2) == 0 {
				hosts = hosts[:1]
			}
		}
		// groups: a quarter of the tables mount some of their routes in groups (with and without middleware)
		var groups []c02Group
		var in []int
		if r.Intn(4) == 0 {
			ng := 1 + r.Intn(3)
			for g := 0; g < ng; g++ {
				gr := c02Group{Prefix: c02Prefixes[r.Intn(len(c02Prefixes))], Mw: r.Intn(5), Early: r.Intn(3) == 0}
				if r.Intn(3) == 0 {
					// a prefix made of the first segment of one of the table's own patterns
					p := strings.TrimPrefix(routes[r.Intn(len(routes))].Path, "/")
					if k := strings.IndexByte(p, '/'); k >= 0 {
						p = p[:k]
					}
					if p != "" && !strings.ContainsAny(p, "*\\") {
						gr.Prefix = "/" + p
					}
				}
				if g > 0 && r.Intn(3) == 0 {
					gr.Parent = 1 + r.Intn(g)
				}
				groups = append(groups, gr)
			}
			in = make([]int, len(routes))
			for k := range in {
				if r.Intn(2) == 0 {
					in[k] = 1 + r.Intn(ng)
				}
			}
		}
		// permutations: all of them for <= 4 routes (capped), random ones above
		var perms [][]int
		n := len(routes)
		if n <= 3 {
			perms = allPerms(n)
		} else {
			for k := 0; k < 5; k++ {
				perms = append(perms, r.Perm(n))
			}
		}
		// the paths the default router really knows (group routes with their prefixes) for the request generator
		full := make([]rRoute, len(routes))
		copy(full, routes)
		if len(groups) > 0 {
			tmp := &c02Case{Routes: routes, Groups: groups, In: in}
			id := make([]int, n)
			for k := range id {
				id[k] = k
			}
			acts := c02Plan(tmp, id)
			for _, l := range c02Expand(tmp, acts) {
				for _, ev := range l {
					if ev.Table != 0 {
						continue
					}
					if ev.Use {
						full = append(full, rRoute{Method: routeNotFound, Path: c02NormPath(ev.Path)}, rRoute{Method: routeNotFound, Path: c02NormPath(ev.Path + "/*")})
					} else {
						full[ev.Hid] = rRoute{Method: ev.Method, Path: c02NormPath(ev.Path)}
					}
				}
			}
		}
		for k := 0; k < per; k++ {
			q := rReq{Method: rGenMethod(r, full), Path: rGenPath(r, full)}
			if len(groups) > 0 && r.Intn(4) == 0 {
				// a path that continues a group's prefix without a slash (`/apiary` for the group `/api`), or is the
				// prefix, or lies below it
				g := groups[r.Intn(len(groups))]
				q.Path = c02NormPath(g.Prefix) + []string{"ary", "c", "d", "", "/", "/zz", "-docs", "x/y"}[r.Intn(8)]
			}
			q.Raw = r.Intn(5) == 0 // the router sees URL.RawPath when it is set
			if len(hosts) > 0 {
				switch r.Intn(4) {
				case 0:
					q.Host = hosts[r.Intn(len(hosts))].Host
					h := hosts[r.Intn(len(hosts))]
					if r.Intn(2) == 0 {
						q.Path = rGenPath(r, h.Routes)
						q.Method = rGenMethod(r, h.Routes)
					}
				case 1:
					q.Host = hostNames[r.Intn(len(hostNames))]
					if r.Intn(2) == 0 {
						q.Host = vary(hosts[r.Intn(len(hosts))].Host)
					}
				case 2:
					q.Host = "other.net"
				}
			}
			p := perms[r.Intn(len(perms))]
			q.Override = q.Method != "" && q.Method != routeNotFound && r.Intn(8) == 0
			out = append(out, &c02Case{Routes: routes, Perm: p, Hosts: hosts, Groups: groups, In: in, Req: q, Pre: r.Intn(4) == 0})
		}
	}
	return out
}

func allPerms(n int) [][]int {
	if n == 0 {
		return [][]int{{}}
	}
	var out [][]int
	for _, p := range allPerms(n - 1) {
		for i := 0; i <= len(p); i++ {
			q := append(append(append([]int{}, p[:i]...), n-1), p[i:]...)
			out = append(out, q)
		}
	}
	return out
}

func c02Shrink(ci any) []any {
	c := ci.(*c02Case)
	var out []any
	if len(c.Hosts) > 0 {
		d := *c
		d.Hosts = nil
		out = append(out, &d)
	}
	for k := range c.Hosts {
		if c.Hosts[k].Mw {
			d := *c
			d.Hosts = append([]c02Host(nil), c.Hosts...)
			d.Hosts[k].Mw = false
			out = append(out, &d)
		}
	}
	if len(c.Groups) > 0 {
		// without the last group (its routes move to the Echo instance)
		d := *c
		g := len(c.Groups)
		d.Groups = c.Groups[:g-1]
		d.In = append([]int(nil), c.In...)
		for i := range d.In {
			if d.In[i] == g {
				d.In[i] = 0
			}
		}
		out = append(out, &d)
		for k := range c.Groups {
			if c.Groups[k].Mw > 1 {
				d := *c
				d.Groups = append([]c02Group(nil), c.Groups...)
				d.Groups[k].Mw = 1
				out = append(out, &d)
			}
			if c.Groups[k].Early {
				d := *c
				d.Groups = append([]c02Group(nil), c.Groups...)
				d.Groups[k].Early = false
				out = append(out, &d)
			}
		}
	}
	for i := range c.Routes {
		if len(c.Routes) <= 1 {
			break
		}
		d := *c
		d.Routes = append(append([]rRoute(nil), c.Routes[:i]...), c.Routes[i+1:]...)
		if len(c.In) == len(c.Routes) {
			d.In = append(append([]int(nil), c.In[:i]...), c.In[i+1:]...)
		}
		d.Perm = nil
		for _, p := range c.Perm {
			if p < i {
				d.Perm = append(d.Perm, p)
			} else if p > i {
				d.Perm = append(d.Perm, p-1)
			}
		}
		out = append(out, &d)
	}
	if !sort.IntsAreSorted(c.Perm) {
		d := *c
		d.Perm = nil
		out = append(out, &d)
	}
	for _, p := range rShrinkString(c.Req.Path) {
		d := *c
		d.Req.Path = p
		out = append(out, &d)
	}
	return out
}

// c02Mutate: neighbours for the failing-input search: the same set-up asked for an instance of every pattern of
// the selected table, and for paths that continue a group prefix without a slash
func c02Mutate(r *rand.Rand, ci any) []any {
	c := ci.(*c02Case)
	var out []any
	add := func(m, p string) {
		d := *c
		d.Req = rReq{Method: m, Path: p, Host: c.Req.Host}
		out = append(out, &d)
	}
	rs := c.Routes
	if t := c02Selected(c); t > 0 {
		rs = c.Hosts[t-1].Routes
	}
	for i, rt := range rs {
		p := rt.Path
		if t := c02Selected(c); t == 0 {
			if g := c.in(i); g > 0 {
				for k := g; k > 0; k = c.parent(k - 1) {
					p = c.Groups[k-1].Prefix + p
				}
			}
		}
		toks, names, _ := rNorm(p)
		vals := make([]string, len(names))
		for k := range vals {
			vals[k] = "v" + wInt(k)
		}
		if pp, ok := rInst(toks, vals); ok && rt.Method != routeNotFound {
			add(rt.Method, pp)
			add(rNearMethod(r, rt.Method), pp)
		}
	}
	for _, g := range c.Groups {
		for _, s := range []string{"ary", "", "/", "/zz"} {
			add(c.Req.Method, c02NormPath(g.Prefix)+s)
		}
	}
	return out
}

func c02Known(ci any, res Result, modelObs string) string {
	c := ci.(*c02Case)
	t := c02Selected(c)
	acts := c02Plan(c, c.Perm)
	var sel []rRoute
	for _, l := range c02Expand(c, acts) {
		for _, ev := range l {
			if ev.Table == t {
				for _, en := range c02Entries(ev) {
					sel = append(sel, rRoute{Method: en.Method, Path: en.Path})
				}
			}
		}
	}
	if rColonClash(sel) {
		return "F2"
	}
	return ""
}

func init() {
	register(&Prop{
		ID:             "C02",
		Rule:           "random route tables (as C01; a quarter with re-registered routes — same spelling or other parameter names —, a quarter with some routes mounted in 1-3 groups/sub-groups of the default router, with or without middleware given at creation / by Use before or after the group's routes / twice) x registration orders (every permutation for <= 3 routes, 5 random ones above) x request paths/methods derived from the patterns (incl. look-alike custom methods and paths continuing a group prefix) x Host values (registered, other, with port, case variant, empty) with 0-2 host routers (a quarter created with middleware) registered in between; every outcome is compared with a second Echo on which only the registrations in force are made, flat and once each, in canonical order; non-trivial = dispatched in a table of > 2 routes registered in a non-canonical order; distinct = distinct model op lines",
		New:            func() any { return &c02Case{} },
		Gen:            c02Gen,
		Run:            c02Run,
		Shrink:         c02Shrink,
		Tolerable:      c02Tolerable,
		Mutate:         c02Mutate,
		Known:          c02Known,
		Correspondence: "Router.Spec.routeTable ∘ C02.inForce ∘ C02.routeHost (lean/EchoModel/RouterSpec.lean, C02.lean; order-free L1 search on the registrations in force) vs Echo.Add/Group/Use/Host + Echo.ServeHTTP",
	})
}
