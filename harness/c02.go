package main

// C02 — route choice = static > param > wildcard search with full backtracking, independent
// of the registration order; host routers.  Model: Router.Spec.routeTable (L1, order free).

import (
	"fmt"
	"math/rand"
	"net/http"
	"sort"
	"strings"

	"github.com/labstack/echo/v4"
	"github.com/labstack/echo/v4/middleware"
)

type c02Host struct {
	Host   string   `json:"host"`
	Routes []rRoute `json:"routes"`
}

type c02Case struct {
	Routes []rRoute  `json:"routes"` // default router, canonical order (handler id = index here)
	Perm   []int     `json:"perm"`   // registration order actually used: Routes[Perm[0]], Routes[Perm[1]], ...
	Hosts  []c02Host `json:"hosts,omitempty"`
	Req    rReq      `json:"req"`
	Pre    bool      `json:"pre,omitempty"` // a (no-op) Pre middleware is installed: host selection and routing happen inside the Pre chain
}

type c02Obs struct {
	rObs
	Table int // 0 = default table, k = k-th host table
}

func (o c02Obs) wire() string {
	t := "-"
	if o.Kind == 'D' {
		t = wInt(o.Table)
	}
	switch o.Kind {
	case 'D':
		return wJoin(t, "D", wInt(o.Hid), wStr(o.PPath), wStrs(o.Names), wStrs(o.Values))
	case 'N':
		return wJoin(t, "N")
	case 'M':
		return wJoin(t, "M", wStrs(o.Allow))
	}
	return wJoin(t, "P")
}

// c02Serve registers the tables (default table in the order given by perm) and serves req.
func c02Serve(c *c02Case, perm []int) c02Obs {
	var cur rObs
	table := -1
	e := echo.New()
	e.Logger.SetOutput(nopWriter{})
	mk := func(tbl, i int) echo.HandlerFunc {
		return func(ctx echo.Context) error {
			table = tbl
			cur.Kind = 'D'
			cur.Hid = i
			cur.PPath = ctx.Path()
			cur.Names = append([]string{}, ctx.ParamNames()...)
			cur.Values = append([]string{}, ctx.ParamValues()...)
			rScribble(ctx)
			return ctx.NoContent(http.StatusOK)
		}
	}
	// interleave: host tables are registered between the routes of the default table
	hostAt := map[int][]int{}
	for k := range c.Hosts {
		at := 0
		if len(perm) > 0 {
			at = (k * 7) % (len(perm) + 1)
		}
		hostAt[at] = append(hostAt[at], k)
	}
	regHost := func(k int) {
		g := e.Host(c.Hosts[k].Host)
		for i, r := range c.Hosts[k].Routes {
			rAddVia(g, i+k+len(r.Path), r.Method, r.Path, mk(k+1, i))
		}
	}
	for pos, i := range perm {
		for _, k := range hostAt[pos] {
			regHost(k)
		}
		rAddVia(e, i+len(c.Routes[i].Path), c.Routes[i].Method, c.Routes[i].Path, mk(0, i))
	}
	for _, k := range hostAt[len(perm)] {
		regHost(k)
	}
	if c.Pre {
		e.Pre(func(next echo.HandlerFunc) echo.HandlerFunc { return func(ctx echo.Context) error { return next(ctx) } })
	}
	if c.Req.Override {
		e.Pre(middleware.MethodOverride())
	}
	if (len(c.Req.Path)+len(c.Req.Host)+len(c.Routes))%2 == 0 {
		// the application has just answered requests for the OTHER host names (and the default one): nothing those
		// left behind (pooled context, whatever a router remembers) may decide which table serves this request
		for _, h := range append([]c02Host{{Host: "unregistered.example"}, {Host: ""}}, c.Hosts...) {
			if h.Host != c.Req.Host {
				rServe(e, &cur, rReq{Method: c.Req.Method, Path: c.Req.Path, Host: h.Host})
			}
		}
		table = -1
	}
	rServe(e, &cur, c.Req)
	return c02Obs{cur, table}
}

func c02Selected(c *c02Case) (int, []rRoute) {
	// the property's own reading of host selection: exactly that Host value, else default
	for k := len(c.Hosts) - 1; k >= 0; k-- { // a host registered twice: the later Host() call replaces the router
		if c.Hosts[k].Host == c.Req.Host {
			return k + 1, c.Hosts[k].Routes
		}
	}
	return 0, c.Routes
}

func c02AllLiteral(p string) bool {
	toks, _, _ := rNorm(p)
	for _, t := range toks {
		if t.kind != 'l' {
			return false
		}
	}
	return true
}

func c02LitText(p string) string {
	toks, _, _ := rNorm(p)
	b := make([]byte, 0, len(toks))
	for _, t := range toks {
		b = append(b, t.c)
	}
	return string(b)
}

func obsEqual(a, b c02Obs) bool {
	return a.wire() == b.wire()
}

// like rMatchConservative but a trailing parameter may also take the rest of the path
func rMatchConservativeOrEmpty(toks []rTok, path string) bool {
	if rMatchConservative(toks, path) {
		return true
	}
	if n := len(toks); n > 0 && toks[n-1].kind == 'p' {
		// leaf parameter swallowing '/'
		t2 := append(append([]rTok(nil), toks[:n-1]...), rTok{kind: 'a'})
		return rMatchConservative(t2, path)
	}
	return false
}

func c02Run(ci any) Result {
	c := ci.(*c02Case)
	if len(c.Perm) != len(c.Routes) {
		c.Perm = make([]int, len(c.Routes))
		for i := range c.Perm {
			c.Perm[i] = i
		}
	}
	got := c02Serve(c, c.Perm)
	tags := []string{"outcome-" + string(got.Kind)}
	res := Result{Obs: got.wire()}
	// ops: default table, host tables, request
	parts := []string{rTableWire(c.Routes), wInt(len(c.Hosts))}
	for _, h := range c.Hosts {
		parts = append(parts, wStr(h.Host), rTableWire(h.Routes))
	}
	parts = append(parts, wStr(c.Req.Host), wStr(c.Req.Method), wStr(c.Req.Path))
	res.Ops = strings.Join(parts, " ")

	wantTable, sel := c02Selected(c)
	clash := rColonClash(sel) || rHasTextAfterStar(sel)
	if clash {
		tags = append(tags, "colon-clash-or-text-after-star")
	}
	fail := func(s string) {
		if res.Oracle == "" {
			res.Oracle = s
		}
	}
	// (a) host selection
	if got.Kind == 'D' && got.Table != wantTable {
		fail(fmt.Sprintf("Host %q was served by table %d, expected table %d", c.Req.Host, got.Table, wantTable))
	}
	if len(c.Hosts) > 0 {
		tags = append(tags, "with-hosts")
	}
	// (b) order independence: same set registered in canonical order must give the same outcome
	ident := make([]int, len(c.Routes))
	sorted := true
	for i := range ident {
		ident[i] = i
		if c.Perm[i] != i {
			sorted = false
		}
	}
	if !sorted {
		tags = append(tags, "permuted")
		ref := c02Serve(c, ident)
		if got.Kind == 'D' || ref.Kind == 'D' || got.Kind != ref.Kind || !obsEqual(got, ref) {
			if !obsEqual(got, ref) {
				fail(fmt.Sprintf("outcome depends on the registration order: %s vs %s (canonical order)", got.wire(), ref.wire()))
			}
		}
	}
	// (c) a path equal to a registered literal route is served by that route
	for i, r := range sel {
		if r.Method == c.Req.Method && r.Method != routeNotFound && c02AllLiteral(r.Path) && c02LitText(r.Path) == c.Req.Path {
			tags = append(tags, "literal-route")
			if got.Kind != 'D' || got.Hid != i {
				fail(fmt.Sprintf("path equals the literal route %q but the outcome is %s", r.Path, got.wire()))
			}
		}
	}
	// (d) never 404/405 when some pattern matches for the method
	if !clash {
		for _, r := range sel {
			if r.Method != c.Req.Method || r.Method == routeNotFound {
				continue
			}
			toks, _, _ := rNorm(r.Path)
			if rMatchConservative(toks, c.Req.Path) {
				tags = append(tags, "some-pattern-matches")
				// (dispatch to a registered RouteNotFound route is a completed branch of the priority search:
				// such a route stands for every method at its position; only the router's own 404/405 is a miss)
				if got.Kind != 'D' {
					fail(fmt.Sprintf("pattern %q matches %s %q but the outcome is %s", r.Path, c.Req.Method, c.Req.Path, got.wire()))
				}
				break
			}
		}
	}
	if got.Kind == 'D' && len(sel) > 2 && !sorted {
		res.Nontrivial = true
	}
	res.Tags = tags
	return res
}

func c02Gen(r *rand.Rand, tier string) []any {
	tables, per := 500, 8
	if tier == "thorough" {
		tables, per = 6000, 14
	}
	var out []any
	hostNames := []string{"a.com", "b.org", "a.com:80", "A.com", "sub.a.com"}
	// host names as an application may register them: the property speaks about "exactly that Host value"
	regHosts := []string{"a.com", "b.org", "a.com:80", "API.Example.com", "B.ORG", "xn--bcher-kva.example", "[::1]:8080"}
	vary := func(h string) string {
		switch r.Intn(8) {
		case 0:
			return strings.ToLower(h)
		case 1:
			return strings.ToUpper(h)
		case 2:
			return h + ":80"
		case 3:
			return "sub." + h
		case 4:
			return h + "."
		case 5:
			return strings.TrimSuffix(h, ":80")
		case 6:
			return " " + h
		}
		return h
	}
	for i := 0; i < tables; i++ {
		o := rGenOpts{escaped: r.Intn(5) == 0, maxRoute: 7}
		routes := rGenTable(r, o)
		var hosts []c02Host
		if r.Intn(3) == 0 {
			nh := 1 + r.Intn(2)
			for k := 0; k < nh; k++ {
				hosts = append(hosts, c02Host{Host: regHosts[r.Intn(len(regHosts))], Routes: rGenTable(r, rGenOpts{maxRoute: 4})})
			}
			if len(hosts) == 2 && hosts[0].Host == hosts[1].Host {
				hosts = hosts[:1]
			}
		}
		// permutations: all of them for <= 4 routes (capped), random ones above
		var perms [][]int
		n := len(routes)
		if n <= 3 {
			perms = allPerms(n)
		} else {
			for k := 0; k < 5; k++ {
				perms = append(perms, r.Perm(n))
			}
		}
		for k := 0; k < per; k++ {
			q := rReq{Method: rGenMethod(r, routes), Path: rGenPath(r, routes)}
			q.Raw = r.Intn(5) == 0 // the router sees URL.RawPath when it is set
			if len(hosts) > 0 {
				switch r.Intn(4) {
				case 0:
					q.Host = hosts[r.Intn(len(hosts))].Host
					h := hosts[r.Intn(len(hosts))]
					if r.Intn(2) == 0 {
						q.Path = rGenPath(r, h.Routes)
						q.Method = rGenMethod(r, h.Routes)
					}
				case 1:
					q.Host = hostNames[r.Intn(len(hostNames))]
					if r.Intn(2) == 0 {
						q.Host = vary(hosts[r.Intn(len(hosts))].Host)
					}
				case 2:
					q.Host = "other.net"
				}
			}
			p := perms[r.Intn(len(perms))]
			q.Override = q.Method != "" && q.Method != routeNotFound && r.Intn(8) == 0
			out = append(out, &c02Case{Routes: routes, Perm: p, Hosts: hosts, Req: q, Pre: r.Intn(4) == 0})
		}
	}
	return out
}

func allPerms(n int) [][]int {
	if n == 0 {
		return [][]int{{}}
	}
	var out [][]int
	for _, p := range allPerms(n - 1) {
		for i := 0; i <= len(p); i++ {
			q := append(append(append([]int{}, p[:i]...), n-1), p[i:]...)
			out = append(out, q)
		}
	}
	return out
}

func c02Shrink(ci any) []any {
	c := ci.(*c02Case)
	var out []any
	if len(c.Hosts) > 0 {
		d := *c
		d.Hosts = nil
		out = append(out, &d)
	}
	for i := range c.Routes {
		if len(c.Routes) <= 1 {
			break
		}
		d := *c
		d.Routes = append(append([]rRoute(nil), c.Routes[:i]...), c.Routes[i+1:]...)
		d.Perm = nil
		for _, p := range c.Perm {
			if p < i {
				d.Perm = append(d.Perm, p)
			} else if p > i {
				d.Perm = append(d.Perm, p-1)
			}
		}
		out = append(out, &d)
	}
	if !sort.IntsAreSorted(c.Perm) {
		d := *c
		d.Perm = nil
		out = append(out, &d)
	}
	for _, p := range rShrinkString(c.Req.Path) {
		d := *c
		d.Req.Path = p
		out = append(out, &d)
	}
	return out
}

func c02Known(ci any, res Result, modelObs string) string {
	c := ci.(*c02Case)
	_, sel := c02Selected(c)
	if rColonClash(sel) {
		return "F2"
	}
	return ""
}

func init() {
	register(&Prop{
		ID:             "C02",
		Rule:           "random route tables without structural duplicates (as C01) x registration orders (every permutation for <= 3 routes, 5 random ones above) x request paths/methods derived from the patterns x Host values (registered, other, with port, case variant, empty) with 0-2 host routers registered in between; non-trivial = dispatched in a table of > 2 routes registered in a non-canonical order; distinct = distinct model op lines",
		New:            func() any { return &c02Case{} },
		Gen:            c02Gen,
		Run:            c02Run,
		Shrink:         c02Shrink,
		Known:          c02Known,
		Correspondence: "Router.Spec.routeTable ∘ C02.routeHost (lean/EchoModel/RouterSpec.lean, C02.lean; order-free L1 search) vs Echo.Add/Host + Echo.ServeHTTP",
	})
}
