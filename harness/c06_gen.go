package main

import (
	"math/rand"
)

// ---------- generator ----------

var c06Codes = []int{100, 101, 102, 103, 199, 200, 201, 202, 204, 206, 299, 300, 301, 302, 304, 307, 308, 309, 400, 401, 404, 418, 499, 500, 502, 503, 599}

// Status codes: 200-599 plus the informational range 1xx.  echo.Response treats a 1xx code like
// any other (WriteHeader(103) sets Status and commits); that is what the model says and what the
// recording writer ("first WriteHeader wins") shows.  On a real connection net/http sends 1xx
// headers as informational and lets a final status follow, so programs containing 1xx codes are
// kept away from the real-server round trip (see c06RoundTrip).
//
// Round 5: codes OUTSIDE 100..999 (0 = the zero value of an int status field, 1, 99, 1000, 1001,
// 65536, -1, -200).  echo.Response hands them to the underlying writer like any other code; a
// writer that accepts them "sends" them (Status must say so), net/http's writer and
// httptest.ResponseRecorder refuse them with a panic before anything is sent (case flag Strict).
var c06BadCodes = []int{0, 0, 0, 1, 99, 99, 1000, 1000, 1001, 65536, -1, -200}

func c06Code(r *rand.Rand) int {
	switch r.Intn(12) {
	case 0, 1, 2:
		return 200 + r.Intn(400)
	case 3:
		return c06BadCodes[r.Intn(len(c06BadCodes))]
	}
	return c06Codes[r.Intn(len(c06Codes))]
}

// templates around a status write with a code outside 100..999: alone, before and after a valid
// one, after a preset, inside every kind of helper, followed by implicit commits (which reuse
// the pending invalid status when the writer refused it)
func c06AdversarialBadCode(r *rand.Rand) []c06Op {
	bad := c06BadCodes[r.Intn(len(c06BadCodes))]
	bad2 := c06BadCodes[r.Intn(len(c06BadCodes))]
	ok := c06Code(r)
	h := 1 + r.Intn(3)
	helper := func(c int) c06Op {
		switch r.Intn(10) {
		case 0:
			return c06Op{K: "wh", C: c}
		case 1:
			return c06Op{K: "nc", C: c}
		case 2:
			return c06Op{K: "blob", C: c, CT: []int{1, 2, 3, 7}[r.Intn(4)], N: r.Intn(4)}
		case 3:
			return c06Op{K: "json", C: c, N: r.Intn(3)}
		case 4:
			return c06Op{K: "jsonpretty", C: c, N: 1}
		case 5:
			return c06Op{K: "stream", C: c, Chunks: []int{2, 1}}
		case 6:
			return c06Op{K: "xmlv", C: c, N: 2}
		case 7:
			return c06Op{K: "jsonpv", C: c, H: 1, N: 1}
		case 8:
			return c06Op{K: "render", C: c, N: 2, Mode: 2}
		}
		return c06Op{K: "redir", C: c}
	}
	tpl := [][]c06Op{
		{helper(bad)},
		{helper(bad), {K: "nc", C: 204}},
		{helper(bad), {K: "w", N: 2}},
		{helper(bad), {K: "fl"}, {K: "wh", C: ok}},
		{helper(bad), helper(bad2), helper(ok)},
		{helper(ok), helper(bad)},
		{{K: "json", C: bad, Bad: true}, {K: "w", N: 1}},
		{{K: "json", C: bad, Bad: true}, {K: "copy", Chunks: []int{0, 2}}, {K: "rcfl"}},
		{{K: "json", C: ok, Bad: true}, helper(bad), {K: "w", N: 1}},
		{{K: "af", H: h}, helper(bad), {K: "w", N: 1}, helper(ok)},
		{{K: "attach", N: 1, Bad: true}, helper(bad), {K: "blob", C: ok, CT: 1, N: 1}},
		{{K: "w", N: 0}, helper(bad)},
		{helper(bad), {K: "file", N: 2}},
		{helper(bad), {K: "hijack"}, {K: "unwrap"}, helper(bad2), {K: "fefl"}},
	}
	ops := append([]c06Op(nil), tpl[r.Intn(len(tpl))]...)
	for k := r.Intn(3); k > 0; k-- {
		ops = append(ops, c06GenOp(r))
	}
	return ops
}

func c06Size(r *rand.Rand) int {
	switch r.Intn(6) {
	case 0:
		return 0
	case 1:
		return 1
	case 2:
		return 1 + r.Intn(4096)
	}
	return r.Intn(24)
}

func c06GenOp(r *rand.Rand) c06Op {
	if r.Intn(3) == 0 {
		return c06GenOpR4(r)
	}
	switch r.Intn(20) {
	case 0, 1:
		return c06Op{K: "wh", C: c06Code(r)}
	case 2, 3:
		return c06Op{K: "w", N: c06Size(r)}
	case 4, 5:
		return c06Op{K: "fl"}
	case 6:
		return c06Op{K: "bf", H: 1 + r.Intn(4)}
	case 7:
		return c06Op{K: "af", H: 1 + r.Intn(4)}
	case 8, 9:
		return c06Op{K: "json", C: c06Code(r), N: c06Size(r), Bad: r.Intn(4) == 0}
	case 10:
		return c06Op{K: "blob", C: c06Code(r), CT: []int{1, 2, 3, 7}[r.Intn(4)], N: c06Size(r)}
	case 11:
		return c06Op{K: "nc", C: c06Code(r)}
	case 12:
		c := c06Code(r)
		if r.Intn(2) == 0 {
			c = []int{299, 300, 301, 302, 303, 307, 308, 309}[r.Intn(8)]
		}
		return c06Op{K: "redir", C: c}
	case 13:
		o := c06Op{K: "stream", C: c06Code(r), RErr: r.Intn(5) == 0}
		for k := r.Intn(4); k > 0; k-- {
			o.Chunks = append(o.Chunks, c06Size(r))
		}
		return o
	case 14:
		return c06Op{K: "xml", C: c06Code(r), N: c06Size(r)}
	case 15:
		return c06Op{K: "jsonp", C: c06Code(r), H: r.Intn(6), N: c06Size(r)}
	case 16:
		return c06Op{K: "rcfl"}
	case 17:
		return c06Op{K: "fefl"}
	case 18:
		if r.Intn(3) == 0 {
			return c06Op{K: "unwrap"}
		}
		return c06Op{K: "rcfl"}
	}
	switch r.Intn(6) {
	case 0:
		return c06Op{K: "wstr", N: c06Size(r)}
	case 1:
		return c06Op{K: "copywt", N: c06Size(r)}
	}
	o := c06Op{K: "copy", RErr: r.Intn(5) == 0}
	for k := r.Intn(4); k > 0; k-- {
		o.Chunks = append(o.Chunks, c06Size(r))
	}
	return o
}

// the round-4 operations: serialising helpers, Render, the file helpers, Hijack
func c06GenOpR4(r *rand.Rand) c06Op {
	switch r.Intn(14) {
	case 0:
		return c06Op{K: "jsonpretty", C: c06Code(r), N: c06Size(r), Bad: r.Intn(4) == 0}
	case 1, 2:
		return c06Op{K: "jsonpv", C: c06Code(r), H: r.Intn(6), N: c06Size(r), Bad: r.Intn(3) == 0}
	case 3, 4:
		n := c06Size(r)
		if n > 1000 {
			n = 1000
		}
		return c06Op{K: []string{"xmlv", "xmlpretty"}[r.Intn(2)], C: c06Code(r), N: n, Bad: r.Intn(3) == 0}
	case 5, 6:
		return c06Op{K: "render", C: c06Code(r), N: c06Size(r), Mode: r.Intn(3)}
	case 7, 8, 9, 10, 11:
		o := c06Op{K: []string{"file", "filefs", "attach", "inline", "attach"}[r.Intn(5)], N: c06Size(r)}
		switch r.Intn(6) {
		case 0:
			o.Bad = true
		case 1:
			o.Mode = 1
		case 2:
			o.Mode = 2
		case 3:
			if r.Intn(2) == 0 {
				o.Mode = 3
			}
		}
		if r.Intn(12) == 0 {
			o.N = []int{4095, 4096, 4097, 32767, 32768}[r.Intn(5)]
		}
		return o
	}
	return c06Op{K: "hijack"}
}

// total bytes a program would write with an unlimited writer (to aim capacities at boundaries)
func c06Total(ops []c06Op) int {
	c := &c06Case{Cap: -1, Ops: ops}
	t := 0
	for _, o := range c.Ops {
		switch o.K {
		case "w", "blob", "wstr", "copywt":
			t += o.N
		case "json", "jsonpretty":
			if !o.Bad {
				t += o.N + 3
			}
		case "jsonpv":
			t += o.H + 1
			if !o.Bad {
				t += o.N + 3 + 2
			}
		case "xmlv", "xmlpretty":
			t += 39
			if !o.Bad {
				t += c06XMLn(o) + 17
			}
		case "render":
			if o.Mode == 2 {
				t += o.N
			}
		case "file", "filefs", "attach", "inline":
			if c06FileFound(o) {
				t += c06FileN(o)
			}
		case "stream", "copy":
			for _, k := range o.Chunks {
				t += k
			}
		case "xml":
			t += 39 + o.N
		case "jsonp":
			t += o.H + 1 + o.N + 2
		}
	}
	return t
}

func c06Adversarial(r *rand.Rand) []c06Op {
	c1, c2 := c06Code(r), c06Code(r)
	h := 1 + r.Intn(3)
	tpl := [][]c06Op{
		{{K: "fl"}, {K: "wh", C: c1}},
		// the first flush comes through http.ResponseController / the FlushError convention
		{{K: "rcfl"}, {K: "wh", C: c1}},
		{{K: "bf", H: h}, {K: "rcfl"}, {K: "nc", C: c1}, {K: "w", N: 2}},
		{{K: "bf", H: h}, {K: "fefl"}, {K: "blob", C: c1, CT: 1, N: 3}},
		{{K: "json", C: c1, Bad: true}, {K: "rcfl"}, {K: "wh", C: c2}},
		{{K: "unwrap"}, {K: "fefl"}, {K: "unwrap"}, {K: "json", C: c1, N: 1}},
		// bodies produced by io.Copy from a source without WriteTo, with after-hooks watching
		{{K: "af", H: h}, {K: "stream", C: c1, Chunks: []int{3, 0, 2}}},
		{{K: "af", H: h}, {K: "copy", Chunks: []int{4, 1}}, {K: "af", H: h + 1}, {K: "copy", Chunks: []int{2}}},
		{{K: "bf", H: h}, {K: "af", H: h}, {K: "copy", Chunks: []int{0, 0}}, {K: "wh", C: c1}, {K: "copy", Chunks: []int{5}, RErr: true}},
		{{K: "af", H: h}, {K: "w", N: 1}, {K: "stream", C: c2, Chunks: []int{2, 2}, RErr: true}},
		{{K: "bf", H: h}, {K: "wh", C: 103}, {K: "wh", C: c1}, {K: "w", N: 2}},
		{{K: "wh", C: 100}, {K: "blob", C: c1, CT: 1, N: 3}},
		{{K: "bf", H: h}, {K: "nc", C: 102}, {K: "json", C: c1, N: 1}},
		{{K: "wh", C: 199}, {K: "fl"}, {K: "wh", C: c1}},
		{{K: "fl"}, {K: "blob", C: c1, CT: 1, N: 3}},
		{{K: "bf", H: h}, {K: "fl"}, {K: "w", N: 2}},
		{{K: "bf", H: h}, {K: "fl"}, {K: "fl"}, {K: "wh", C: c1}},
		{{K: "blob", C: c1, CT: 1, N: 2}, {K: "json", C: c2, N: 2}},
		{{K: "nc", C: c1}, {K: "json", C: c2, N: 0, Bad: true}},
		{{K: "json", C: c1, Bad: true}, {K: "w", N: 1}},
		{{K: "json", C: c1, Bad: true}, {K: "fl"}},
		{{K: "json", C: c1, Bad: true}, {K: "json", C: c2, N: 1}},
		{{K: "wh", C: c1}, {K: "wh", C: c2}, {K: "w", N: 1}},
		{{K: "w", N: 0}, {K: "wh", C: c1}},
		{{K: "af", H: h}, {K: "jsonp", C: c1, H: 2, N: 3}, {K: "af", H: h + 1}, {K: "xml", C: c2, N: 1}},
		{{K: "bf", H: h}, {K: "bf", H: h}, {K: "redir", C: 308}, {K: "bf", H: h + 1}, {K: "redir", C: 301}},
		{{K: "redir", C: 299}, {K: "redir", C: 309}, {K: "redir", C: 300}},
		{{K: "stream", C: c1, Chunks: []int{0, 2, 0, 3}}, {K: "stream", C: c2, Chunks: []int{1}, RErr: true}},
		{{K: "bf", H: h}, {K: "af", H: h}, {K: "json", C: c1, N: 1}, {K: "fl"}, {K: "json", C: c2, N: 1}},
	}
	if r.Intn(2) == 0 {
		tpl = c06AdversarialR4(r, c1, c2, h)
	}
	ops := append([]c06Op(nil), tpl[r.Intn(len(tpl))]...)
	// surround with a little noise
	for k := r.Intn(3); k > 0; k-- {
		ops = append(ops, c06GenOp(r))
	}
	if r.Intn(4) == 0 {
		ops = append([]c06Op{{K: []string{"bf", "af"}[r.Intn(2)], H: 4}}, ops...)
	}
	return ops
}

// templates aimed at the round-4 code
// round 6: entry points that PROBE echo.Response for optional fast-path interfaces — io.Copy
// (io.ReaderFrom, and through strings.Reader.WriteTo io.StringWriter), io.WriteString,
// http.ResponseController.Flush (FlushError) — as the FIRST thing that touches the response (the
// implicit commit is theirs), with hooks watching, after a preset status, before and after
// explicit status writes
func c06AdversarialFastPath(r *rand.Rand) []c06Op {
	c1, c2 := c06Code(r), c06Code(r)
	h := 1 + r.Intn(3)
	fast := func() c06Op {
		switch r.Intn(6) {
		case 0:
			return c06Op{K: "copy", Chunks: []int{1 + r.Intn(5)}}
		case 1:
			return c06Op{K: "copy", Chunks: []int{2, 0, 3}, RErr: r.Intn(4) == 0}
		case 2:
			return c06Op{K: "copywt", N: r.Intn(6)}
		case 3:
			return c06Op{K: "wstr", N: r.Intn(6)}
		case 4:
			return c06Op{K: "rcfl"}
		}
		return c06Op{K: "fefl"}
	}
	tpl := [][]c06Op{
		{fast()},
		{fast(), {K: "wh", C: c1}},
		{fast(), {K: "json", C: c1, N: 1}},
		{fast(), fast(), {K: "nc", C: c1}},
		{{K: "bf", H: h}, {K: "af", H: h + 1}, fast(), fast()},
		{{K: "bf", H: h}, fast(), {K: "blob", C: c1, CT: 1, N: 2}, fast()},
		{{K: "json", C: c1, Bad: true}, fast(), {K: "wh", C: c2}},
		{{K: "af", H: h}, {K: "wstr", N: 0}, {K: "copywt", N: 0}, {K: "copy", Chunks: []int{0}}, {K: "wh", C: c1}},
		{{K: "wh", C: c1}, fast(), {K: "af", H: h}, fast()},
		{{K: "attach", Bad: true}, fast()},
		{{K: "stream", C: c1, Chunks: []int{2}}, fast()},
		{fast(), {K: "file", N: 2}, fast()},
	}
	ops := append([]c06Op(nil), tpl[r.Intn(len(tpl))]...)
	for k := r.Intn(3); k > 0; k-- {
		ops = append(ops, c06GenOp(r))
	}
	return ops
}

// round 7: hooks that register hooks.  A before-hook registering an after-hook (it must run after
// the very write that commits), a before-hook registering a before-hook (Go reads the slice once:
// it never runs), an after-hook registering an after-hook (from the next write on, again each
// time) or a before-hook (never), around implicit and explicit commits.
func c06RegistrarOp(r *rand.Rand) c06Op {
	k := []string{"bf", "bf", "bf", "af"}[r.Intn(4)]
	o := c06Op{K: k, H: 1 + r.Intn(3)}
	if r.Intn(5) != 0 {
		o.Sub, o.SubH = []string{"af", "af", "bf"}[r.Intn(3)], 5+r.Intn(3)
	}
	return o
}

func c06HookProgram(r *rand.Rand) []c06Op {
	c1 := c06Codes[r.Intn(len(c06Codes))]
	commit := func() c06Op {
		switch r.Intn(8) {
		case 0, 1, 2:
			return c06Op{K: "w", N: r.Intn(4)}
		case 3:
			return c06Op{K: "json", C: c1, N: r.Intn(3)}
		case 4:
			return c06Op{K: "blob", C: c1, CT: 1, N: r.Intn(3)}
		case 5:
			return c06Op{K: "fl"}
		case 6:
			return c06Op{K: "wstr", N: 1 + r.Intn(3)}
		}
		return c06Op{K: "wh", C: c1}
	}
	var ops []c06Op
	for k := 1 + r.Intn(3); k > 0; k-- {
		ops = append(ops, c06RegistrarOp(r))
	}
	if r.Intn(4) == 0 {
		ops = append(ops, c06Op{K: "json", C: c1, Bad: true})
	}
	for k := 1 + r.Intn(3); k > 0; k-- {
		ops = append(ops, commit())
		if r.Intn(4) == 0 {
			ops = append(ops, c06RegistrarOp(r))
		}
	}
	return ops
}

func c06HookAlphabet() []c06Op {
	return []c06Op{
		{K: "bf", H: 1, Sub: "af", SubH: 7}, {K: "bf", H: 2, Sub: "bf", SubH: 8}, {K: "af", H: 3, Sub: "af", SubH: 9},
		{K: "af", H: 4, Sub: "bf", SubH: 5}, {K: "af", H: 6}, {K: "w", N: 2}, {K: "wh", C: 404}, {K: "fl"},
		{K: "json", C: 201, N: 1}, {K: "blob", C: 202, CT: 1, N: 1},
	}
}

// round 8: echo mounted inside echo.  The handler's Response writes to another Response (or two):
// programs over the operations the tower model has, most of them addressed to the handler's own
// Response (L = 0), hooks and late status writes also to the outer ones (a middleware of the outer
// application holds the outer context)
func c06NestOp(r *rand.Rand, nest int, c1 int) c06Op {
	var o c06Op
	switch r.Intn(12) {
	case 0, 1:
		o = c06Op{K: "w", N: r.Intn(4)}
	case 2:
		o = c06Op{K: []string{"wh", "nc"}[r.Intn(2)], C: c1}
	case 3:
		o = c06Op{K: []string{"fl", "rcfl", "fefl"}[r.Intn(3)]}
	case 4:
		o = c06Op{K: "json", C: c1, N: r.Intn(3), Bad: r.Intn(3) == 0}
	case 5:
		o = c06Op{K: "blob", C: c1, CT: []int{1, 2, 3, 7}[r.Intn(4)], N: r.Intn(4)}
	case 6, 7:
		o = c06Op{K: "bf", H: 1 + r.Intn(4)}
	case 8, 9:
		o = c06Op{K: "af", H: 1 + r.Intn(4)}
	case 10:
		o = c06Op{K: "wstr", N: 1 + r.Intn(3)}
	default:
		o = c06Op{K: "wh", C: c06Codes[r.Intn(len(c06Codes))]}
	}
	return o
}

func c06NestProgram(r *rand.Rand, nest int) []c06Op {
	c1 := c06Codes[r.Intn(len(c06Codes))]
	var ops []c06Op
	// what the outer application's middleware does before calling next: hooks on its Response
	for k := r.Intn(3); k > 0; k-- {
		ops = append(ops, c06Op{K: []string{"bf", "af"}[r.Intn(2)], H: 5 + r.Intn(3), L: 1 + r.Intn(nest)})
	}
	mixed := r.Intn(4) == 0 // operations on the outer Responses in between, too
	for k := 1 + r.Intn(5); k > 0; k-- {
		o := c06NestOp(r, nest, c1)
		if mixed && r.Intn(3) == 0 {
			o.L = 1 + r.Intn(nest)
		}
		ops = append(ops, o)
	}
	// ... and after next returned: a late helper call / status write / write on its own Response
	if r.Intn(2) == 0 {
		late := []c06Op{{K: "nc", C: 202}, {K: "wh", C: 500}, {K: "json", C: 500, N: 1}, {K: "w", N: 2}, {K: "fl"}, {K: "blob", C: 404, CT: 1, N: 1}}[r.Intn(6)]
		late.L = 1 + r.Intn(nest)
		ops = append(ops, late)
	}
	return ops
}

// alphabet for the exhaustive part: the handler's own Response (L 0) and the one it writes to (L 1)
func c06NestAlphabet() []c06Op {
	return []c06Op{
		{K: "wh", C: 404}, {K: "w", N: 2}, {K: "fl"}, {K: "json", C: 201, N: 1}, {K: "json", C: 418, Bad: true},
		{K: "blob", C: 202, CT: 1, N: 1}, {K: "bf", H: 1}, {K: "af", H: 2},
		{K: "wh", C: 500, L: 1}, {K: "w", N: 1, L: 1}, {K: "fl", L: 1}, {K: "bf", H: 3, L: 1}, {K: "af", H: 4, L: 1},
	}
}

func c06AdversarialR4(r *rand.Rand, c1, c2, h int) [][]c06Op {
	// commit with zero body bytes, then a JSON helper (Committed, not Size, decides "already sent")
	zero := [][]c06Op{{{K: "fl"}}, {{K: "wh", C: c1}}, {{K: "nc", C: c1}}, {{K: "redir", C: 302}}, {{K: "w", N: 0}},
		{{K: "rcfl"}}, {{K: "file", N: 0}}, {{K: "blob", C: c1, CT: 1, N: 0}}, {{K: "copy", Chunks: []int{0}}, {K: "fefl"}}}[r.Intn(9)]
	late := c06Op{K: []string{"json", "jsonpretty"}[r.Intn(2)], C: c2, N: r.Intn(3), Bad: r.Intn(4) == 0}
	newOps := []c06Op{
		{K: "jsonpretty", C: c2, N: 2}, {K: "jsonpv", C: c2, H: 2, N: 1}, {K: "jsonpv", C: c2, H: 1, Bad: true},
		{K: "xmlv", C: c2, N: 2}, {K: "xmlpretty", C: c2, N: 1}, {K: "xmlv", C: c2, Bad: true},
		{K: "render", C: c2, N: 3, Mode: 2}, {K: "render", C: c2, N: 3, Mode: 1}, {K: "render", C: c2, Mode: 0},
		{K: "file", N: 3}, {K: "filefs", N: 2}, {K: "attach", N: 2}, {K: "inline", N: 1}, {K: "attach", Bad: true},
		{K: "file", N: 2, Mode: 1}, {K: "inline", N: 2, Mode: 2}, {K: "attach", N: 2, Mode: 3}, {K: "hijack"},
	}
	pick := func() c06Op { return newOps[r.Intn(len(newOps))] }
	commit := [][]c06Op{{{K: "wh", C: c1}}, {{K: "w", N: 2}}, {{K: "fl"}}, {{K: "blob", C: c1, CT: 1, N: 2}}, {{K: "json", C: c1, N: 1}}}[r.Intn(5)]
	cat := func(l ...[]c06Op) []c06Op {
		var out []c06Op
		for _, x := range l {
			out = append(out, x...)
		}
		return out
	}
	return [][]c06Op{
		cat(zero, []c06Op{late}),
		cat(zero, []c06Op{late, {K: "w", N: 1}}),
		// every new helper after commit, and as the committing operation followed by a status write
		cat(commit, []c06Op{pick()}),
		cat(commit, []c06Op{pick(), pick()}),
		{pick(), {K: "wh", C: c1}},
		{{K: "json", C: c1, Bad: true}, pick(), {K: "w", N: 1}},
		{{K: "bf", H: h}, {K: "af", H: h}, pick(), {K: "af", H: h + 1}, pick()},
		// JSONP / XML commit BEFORE serialising: an unserialisable value leaves a committed response
		{{K: "jsonpv", C: c1, H: 2, Bad: true}, {K: "wh", C: c2}},
		{{K: "xmlv", C: c1, Bad: true}, {K: "wh", C: c2}},
		{{K: "bf", H: h}, {K: "xmlpretty", C: c1, Bad: true}, {K: "json", C: c2, N: 1}},
		{{K: "af", H: h}, {K: "jsonpv", C: c1, H: 3, N: 2}, {K: "jsonpv", C: c2, H: 0, Bad: true}},
		{{K: "json", C: c1, Bad: true}, {K: "jsonpv", C: c2, H: 1, Bad: true}, {K: "fl"}},
		// Render: nothing may happen unless the renderer succeeded
		{{K: "render", C: c1, N: 4, Mode: 1}, {K: "w", N: 1}},
		{{K: "render", C: c1, Mode: 0}, {K: "render", C: c2, N: 2, Mode: 2}, {K: "render", C: c1, N: 1, Mode: 2}},
		{{K: "json", C: c1, Bad: true}, {K: "render", C: c2, N: 2, Mode: 1}, {K: "fl"}},
		// Content-Disposition of a missing file stays in the header map and goes out with the later commit
		{{K: "attach", Bad: true}, {K: "blob", C: c1, CT: 1, N: 2}},
		{{K: "inline", Mode: 2}, {K: "attach", Bad: true}, {K: "w", N: 1}},
		{{K: "w", N: 1}, {K: "attach", N: 2}, {K: "inline", Bad: true}},
		{{K: "attach", Bad: true}, {K: "file", N: 3}},
		// files: after an empty write, after a preset status, around hooks, empty files, directories
		{{K: "w", N: 0}, {K: "file", N: 3}},
		{{K: "json", C: c1, Bad: true}, {K: "filefs", N: 2}, {K: "wh", C: c2}},
		{{K: "bf", H: h}, {K: "af", H: h}, {K: "file", N: 4}, {K: "xmlv", C: c1, N: 2}},
		{{K: "af", H: h}, {K: "inline", N: 0}, {K: "file", N: 0, Mode: 1}, {K: "file", N: 5, Mode: 1}},
		{{K: "blob", C: c1, CT: 7, N: 1}, {K: "file", N: 2, Mode: 1}},
		{{K: "file", N: 2, Mode: 1}, {K: "blob", C: c1, CT: 7, N: 1}},
		// Hijack touches nothing, before and after commit
		{{K: "hijack"}, {K: "json", C: c1, Bad: true}, {K: "hijack"}, {K: "w", N: 2}, {K: "hijack"}},
		{{K: "bf", H: h}, {K: "hijack"}, {K: "fl"}, {K: "hijack"}, {K: "wh", C: c1}},
		// flush on a writer that may have no Flush method: commit first, then the panic
		{{K: "fl"}, {K: "wh", C: c1}},
		{{K: "bf", H: h}, {K: "rcfl"}, {K: "w", N: 2}, {K: "fl"}},
		{{K: "json", C: c1, Bad: true}, {K: "fefl"}, {K: "wh", C: c2}},
		{{K: "af", H: h}, {K: "w", N: 1}, {K: "fl"}, {K: "w", N: 1}},
	}
}

// programs of EARLIER requests that leave something behind on the context
func c06LeavesBehind(r *rand.Rand) []c06Op {
	c1 := c06Code(r)
	h := 1 + r.Intn(3)
	tpl := [][]c06Op{
		// ends uncommitted with a preset status
		{{K: "json", C: c1, Bad: true}},
		{{K: "jsonpretty", C: c1, Bad: true}},
		{{K: "bf", H: h}, {K: "af", H: h + 1}, {K: "json", C: c1, Bad: true}},
		{{K: "json", C: c1, Bad: true}, {K: "attach", Bad: true}, {K: "hijack"}},
		// uncommitted with hooks only
		{{K: "bf", H: h}, {K: "af", H: h}},
		{{K: "bf", H: h}, {K: "redir", C: 299}, {K: "render", C: c1, Mode: 0}},
		// committed with a non-200 status / a large Size / hooks
		{{K: "wh", C: c1}},
		{{K: "blob", C: c1, CT: 1, N: 1 + r.Intn(5000)}},
		{{K: "bf", H: h}, {K: "af", H: h}, {K: "blob", C: c1, CT: 2, N: 3}, {K: "w", N: 2}},
		{{K: "af", H: h}, {K: "redir", C: 307}},
		{{K: "attach", N: 7}, {K: "af", H: h}},
		{{K: "nc", C: 204}, {K: "json", C: c1, N: 1}},
		{{K: "bf", H: h}, {K: "fl"}, {K: "jsonpv", C: c1, H: 1, Bad: true}},
	}
	return append([]c06Op(nil), tpl[r.Intn(len(tpl))]...)
}

// programs of a LATER request that would show what survived: implicit commits, no hooks of its own
func c06ShowsSurvivors(r *rand.Rand) []c06Op {
	tpl := [][]c06Op{
		{{K: "w", N: 2}},
		{{K: "fl"}},
		{{K: "rcfl"}},
		{{K: "fefl"}, {K: "w", N: 1}},
		{{K: "copy", Chunks: []int{3}}},
		{{K: "w", N: 0}, {K: "wh", C: c06Code(r)}},
		{{K: "file", N: 2}},
		{{K: "blob", C: c06Code(r), CT: 1, N: 1}},
		{{K: "hijack"}, {K: "w", N: 1}, {K: "w", N: 1}},
		{{K: "unwrap"}},
		{{K: "af", H: 4}, {K: "w", N: 3}},
	}
	return append([]c06Op(nil), tpl[r.Intn(len(tpl))]...)
}

func c06AdversarialSeq(r *rand.Rand) (prev [][]c06Op, ops []c06Op) {
	for k := 1 + r.Intn(2); k > 0; k-- {
		prev = append(prev, c06LeavesBehind(r))
	}
	if r.Intn(5) == 0 {
		// a harmless request in between must not bring anything back either
		prev = append(prev, c06ShowsSurvivors(r))
	}
	return prev, c06ShowsSurvivors(r)
}

func c06Alphabet() []c06Op {
	return []c06Op{
		{K: "wh", C: 404}, {K: "rcfl"}, {K: "wh", C: 103}, {K: "w", N: 3}, {K: "w", N: 0}, {K: "fl"}, {K: "bf", H: 1}, {K: "af", H: 2},
		{K: "json", C: 500, N: 2}, {K: "json", C: 418, Bad: true}, {K: "blob", C: 202, CT: 1, N: 2}, {K: "nc", C: 204},
		{K: "redir", C: 302}, {K: "stream", C: 206, Chunks: []int{2, 1}}, {K: "copy", Chunks: []int{1, 2}},
		{K: "jsonpv", C: 201, H: 2, Bad: true}, {K: "file", N: 3}, {K: "xmlv", C: 203, N: 2},
		{K: "nc", C: 0}, {K: "blob", C: 1000, CT: 1, N: 1},
		{K: "wstr", N: 2}, {K: "copywt", N: 3},
	}
}

func c06Gen(r *rand.Rand, tier string) []any {
	var out []any
	add := func(prev [][]c06Op, ops []c06Op) {
		c := &c06Case{Cap: -1, Prev: prev, Ops: ops, Fresh: r.Intn(5) == 0, RF: r.Intn(2) == 0,
			NF: r.Intn(4) == 0, HJ: r.Intn(2) == 0, X: r.Intn(2) == 0, Pretty: r.Intn(4) == 0, Strict: r.Intn(2) == 0}
		if len(prev) > 0 {
			c.Fresh = r.Intn(2) == 0 // Reset on one context / the pool, half and half
		}
		if r.Intn(4) == 0 {
			// the handler's Echo is mounted inside one or two others; a third of these programs also
			// touch the outer Responses
			c.Nest = 1 + r.Intn(2)
			c.Same = r.Intn(4) == 0
			if r.Intn(3) == 0 {
				c.Ops = append([]c06Op(nil), ops...)
				for k := range c.Ops {
					if r.Intn(3) == 0 {
						c.Ops[k].L = 1 + r.Intn(c.Nest)
					}
				}
			}
		}
		if r.Intn(4) == 0 {
			t := c06Total(ops)
			for _, p := range prev {
				if k := c06Total(p); k > t {
					t = k
				}
			}
			switch r.Intn(4) {
			case 0:
				c.Cap = 0
			case 1:
				c.Cap = t
			case 2:
				if t > 0 {
					c.Cap = t - 1
				} else {
					c.Cap = 0
				}
			default:
				c.Cap = r.Intn(t + 2)
			}
		}
		out = append(out, c)
	}
	// exhaustive over a small alphabet up to a length
	alpha := c06Alphabet()
	maxLen := 3
	nRandom, nAdv, nSeq, maxOps := 3000, 2500, 1500, 12
	if tier == "thorough" {
		maxLen = 4
		nRandom, nAdv, nSeq, maxOps = 200000, 60000, 40000, 24
	}
	var rec func(prefix []c06Op, l int)
	rec = func(prefix []c06Op, l int) {
		if len(prefix) > 0 {
			out = append(out, &c06Case{Cap: -1, Ops: append([]c06Op(nil), prefix...), RF: len(out)%2 == 0, NF: len(out)%5 == 0, HJ: len(out)%3 == 0, X: len(out)%4 < 2, Strict: len(out)%2 == 1})
		}
		if l == 0 {
			return
		}
		for _, o := range alpha {
			rec(append(prefix, o), l-1)
		}
	}
	rec(nil, maxLen)
	if tier == "thorough" {
		// every program of exactly 5 operations over a 10-op core alphabet
		core := []c06Op{
			{K: "wh", C: 404}, {K: "rcfl"}, {K: "w", N: 3}, {K: "fl"}, {K: "bf", H: 1}, {K: "af", H: 2},
			{K: "json", C: 500, N: 2}, {K: "json", C: 418, Bad: true}, {K: "blob", C: 202, CT: 1, N: 2}, {K: "copy", Chunks: []int{1, 2}},
		}
		var rec5 func(prefix []c06Op)
		rec5 = func(prefix []c06Op) {
			if len(prefix) == 5 {
				out = append(out, &c06Case{Cap: -1, Ops: append([]c06Op(nil), prefix...), RF: len(out)%2 == 0})
				return
			}
			for _, o := range core {
				rec5(append(prefix, o))
			}
		}
		rec5(nil)
	}
	// hooks that register hooks: exhaustive over a 10-op alphabet up to length 3 (thorough: 4) ...
	halpha := c06HookAlphabet()
	var hrec func(prefix []c06Op, l int)
	hrec = func(prefix []c06Op, l int) {
		if len(prefix) > 0 {
			out = append(out, &c06Case{Cap: -1, Ops: append([]c06Op(nil), prefix...), Fresh: len(out)%3 == 0, RF: len(out)%2 == 0, X: len(out)%4 < 2})
		}
		if l == 0 {
			return
		}
		for _, o := range halpha {
			hrec(append(prefix, o), l-1)
		}
	}
	hrec(nil, maxLen)
	// ... and random ones (a few of them with a capacity, a non-flusher or earlier requests: those
	// are judged by the oracle alone)
	for i := 0; i < nAdv/2; i++ {
		c := &c06Case{Cap: -1, Ops: c06HookProgram(r), Fresh: r.Intn(4) == 0, RF: r.Intn(2) == 0, X: r.Intn(2) == 0, HJ: r.Intn(2) == 0}
		switch r.Intn(10) {
		case 0:
			c.Cap = r.Intn(6)
		case 1:
			c.Prev = [][]c06Op{c06HookProgram(r)}
		case 2:
			c.NF, c.X = true, false
		}
		out = append(out, c)
	}
	// a Response on top of another Response: exhaustive over a 13-op alphabet (8 operations on the
	// handler's Response, 5 on the outer one) up to length 3 (thorough: 4), alternating ServeHTTP /
	// NewContext mounting and the writer's optional interfaces ...
	nalpha := c06NestAlphabet()
	var nrec func(prefix []c06Op, l int)
	nrec = func(prefix []c06Op, l int) {
		if len(prefix) > 0 {
			out = append(out, &c06Case{Cap: -1, Nest: 1, Ops: append([]c06Op(nil), prefix...), Fresh: len(out)%3 == 0, RF: len(out)%2 == 0, X: len(out)%4 < 2, HJ: len(out)%5 == 0})
		}
		if l == 0 {
			return
		}
		for _, o := range nalpha {
			nrec(append(prefix, o), l-1)
		}
	}
	nrec(nil, maxLen)
	// ... and random programs on towers of 2-4 Responses (a few with a capacity, a non-flusher, a
	// refusing writer or earlier requests through the same pooled contexts: oracle only)
	for i := 0; i < nAdv/2; i++ {
		nest := []int{1, 1, 1, 2, 2, 3}[r.Intn(6)]
		c := &c06Case{Cap: -1, Nest: nest, Ops: c06NestProgram(r, nest), Fresh: r.Intn(3) == 0, RF: r.Intn(2) == 0, X: r.Intn(2) == 0, HJ: r.Intn(2) == 0}
		switch r.Intn(12) {
		case 5, 6:
			c.Same = true
		case 0:
			c.Cap = r.Intn(6)
		case 1, 2:
			c.Same = r.Intn(3) == 0
			c.Prev = [][]c06Op{c06NestProgram(r, nest)}
			if r.Intn(2) == 0 {
				c.Prev = append(c.Prev, c06LeavesBehind(r))
			}
		case 3:
			c.NF, c.X = true, false
		case 4:
			c.Strict = true
		}
		out = append(out, c)
	}
	randProg := func(max int) []c06Op {
		var ops []c06Op
		for j := 1 + r.Intn(max); j > 0; j-- {
			ops = append(ops, c06GenOp(r))
		}
		return ops
	}
	for i := 0; i < nRandom; i++ {
		var prev [][]c06Op
		if i%3 == 0 {
			// a third of the random cases: 1-3 earlier requests on the same context
			for k := 1 + r.Intn(3); k > 0; k-- {
				prev = append(prev, randProg(maxOps/2))
			}
		}
		add(prev, randProg(maxOps))
	}
	for i := 0; i < nAdv; i++ {
		add(nil, c06Adversarial(r))
	}
	for i := 0; i < nAdv/2; i++ {
		var prev [][]c06Op
		if i%5 == 0 {
			prev = append(prev, c06AdversarialBadCode(r))
		}
		add(prev, c06AdversarialBadCode(r))
	}
	for i := 0; i < nAdv/2; i++ {
		var prev [][]c06Op
		if i%5 == 0 {
			prev = append(prev, c06AdversarialFastPath(r))
		}
		add(prev, c06AdversarialFastPath(r))
	}
	for i := 0; i < nSeq; i++ {
		prev, ops := c06AdversarialSeq(r)
		if r.Intn(4) == 0 {
			ops = c06Adversarial(r)
		}
		add(prev, ops)
	}
	if tier == "thorough" {
		for i := 0; i < 4000; i++ {
			var ops []c06Op
			if i%2 == 0 {
				ops = c06Adversarial(r)
			} else {
				for j := 1 + r.Intn(8); j > 0; j-- {
					ops = append(ops, c06GenOp(r))
				}
			}
			for k := range ops {
				if ops[k].C >= 100 && ops[k].C <= 199 {
					ops[k].C += 100 // no informational codes on a real connection
				}
				if c06Invalid(ops[k].C) && c06CarriesStatus(ops[k]) {
					ops[k].C = 200 + (ops[k].C%400+400)%400 // nor codes net/http refuses
				}
				if ops[k].K == "hijack" {
					ops[k].K = "unwrap" // a real connection would really be taken away
				}
			}
			rt := &c06Case{Cap: -1, Ops: ops, RoundTrip: true, Pretty: i%4 == 3}
			if i%3 == 2 {
				// echo mounted inside echo behind a real server; every fourth of these also has
				// operations on the outer Responses
				rt.Nest = 1 + i%2
				if i%4 == 2 {
					for k := range rt.Ops {
						if r.Intn(3) == 0 {
							rt.Ops[k].L = 1 + r.Intn(rt.Nest)
						}
					}
				}
			}
			out = append(out, rt)
		}
	}
	return out
}

func c06Shrink(ci any) []any {
	c := ci.(*c06Case)
	var out []any
	cp := func() *c06Case {
		d := *c
		d.Ops = append([]c06Op(nil), c.Ops...)
		d.Prev = nil
		for _, p := range c.Prev {
			d.Prev = append(d.Prev, append([]c06Op(nil), p...))
		}
		return &d
	}
	// drop whole earlier requests, then single operations inside them
	if len(c.Prev) > 0 {
		d := cp()
		d.Prev = nil
		out = append(out, d)
	}
	if len(c.Prev) > 0 {
		// drop the LAST request: the one before it becomes the program under test
		d := cp()
		d.Ops = d.Prev[len(d.Prev)-1]
		d.Prev = d.Prev[:len(d.Prev)-1]
		out = append(out, d)
	}
	for j := range c.Prev {
		if len(c.Prev) > 1 {
			d := cp()
			d.Prev = append(d.Prev[:j], d.Prev[j+1:]...)
			out = append(out, d)
		}
		for i := range c.Prev[j] {
			if len(c.Prev[j]) > 1 {
				d := cp()
				d.Prev[j] = append(d.Prev[j][:i], d.Prev[j][i+1:]...)
				out = append(out, d)
			}
		}
	}
	for i := range c.Ops {
		if len(c.Ops) > 1 {
			d := cp()
			d.Ops = append(d.Ops[:i], d.Ops[i+1:]...)
			out = append(out, d)
		}
	}
	if c.Fresh {
		d := cp()
		d.Fresh = false
		out = append(out, d)
	}
	if c.Cap >= 0 {
		d := cp()
		d.Cap = -1
		out = append(out, d)
	}
	if c.RoundTrip {
		d := cp()
		d.RoundTrip = false
		out = append(out, d)
	}
	if c.Same {
		d := cp()
		d.Same = false
		out = append(out, d)
	}
	if c.Nest > 0 {
		d := cp()
		d.Nest = 0
		out = append(out, d)
		if c.Nest > 1 {
			d := cp()
			d.Nest = 1
			out = append(out, d)
		}
		for j, p := range c.Prev {
			for i, o := range p {
				if o.L > 0 {
					d := cp()
					d.Prev[j][i].L = 0
					out = append(out, d)
				}
			}
		}
		for i, o := range c.Ops {
			if o.L > 0 {
				d := cp()
				d.Ops[i].L = 0
				out = append(out, d)
			}
		}
	}
	if c.RF {
		d := cp()
		d.RF = false
		out = append(out, d)
	}
	if c.X {
		d := cp()
		d.X = false
		out = append(out, d)
	}
	if c.NF {
		d := cp()
		d.NF = false
		out = append(out, d)
	}
	if c.HJ {
		d := cp()
		d.HJ = false
		out = append(out, d)
	}
	if c.Strict {
		d := cp()
		d.Strict = false
		out = append(out, d)
	}
	if c.Pretty {
		d := cp()
		d.Pretty = false
		out = append(out, d)
	}
	for j, p := range c.Prev {
		for i, o := range p {
			if o.N > 1 {
				d := cp()
				d.Prev[j][i].N = 1
				out = append(out, d)
			}
		}
	}
	for i, o := range c.Ops {
		if o.N > 1 {
			d := cp()
			d.Ops[i].N = 1
			out = append(out, d)
		}
		if len(o.Chunks) > 0 {
			d := cp()
			d.Ops[i].Chunks = append([]int(nil), o.Chunks[1:]...)
			out = append(out, d)
		}
		if o.RErr {
			d := cp()
			d.Ops[i].RErr = false
			out = append(out, d)
		}
		if o.Sub != "" {
			d := cp()
			d.Ops[i].Sub, d.Ops[i].SubH = "", 0
			out = append(out, d)
		}
		if (o.K == "jsonp" || o.K == "jsonpv") && o.H > 0 {
			d := cp()
			d.Ops[i].H = 0
			out = append(out, d)
		}
	}
	return out
}

func c06Mutate(r *rand.Rand, ci any) []any {
	c := ci.(*c06Case)
	var out []any
	for k := 0; k < 40; k++ {
		d := *c
		d.Ops = append([]c06Op(nil), c.Ops...)
		pos := r.Intn(len(d.Ops) + 1)
		o := c06GenOp(r)
		d.Ops = append(d.Ops[:pos], append([]c06Op{o}, d.Ops[pos:]...)...)
		out = append(out, &d)
	}
	// the same program behind an earlier request that leaves something on the context, and in
	// front of a later one that shows it
	for k := 0; k < 10; k++ {
		d := *c
		d.Prev = append(append([][]c06Op(nil), c.Prev...), c06LeavesBehind(r))
		d.Fresh = k%2 == 0
		out = append(out, &d)
		g := *c
		g.Prev = append(append([][]c06Op(nil), c.Prev...), c.Ops)
		g.Ops = c06ShowsSurvivors(r)
		g.Fresh = k%2 == 0
		out = append(out, &g)
	}
	// the same program with its Echo mounted inside one or two others; with hooks of the outer
	// application around it and a late status write / write on the outer Response
	for k := 0; k < 12; k++ {
		d := *c
		d.Nest = 1 + k%2
		d.Fresh = k%3 == 0
		d.Same = k%4 == 3
		d.RoundTrip = false
		d.Ops = append([]c06Op(nil), c.Ops...)
		if k >= 4 {
			d.Ops = append([]c06Op{{K: []string{"bf", "af"}[k%2], H: 7, L: d.Nest}}, d.Ops...)
		}
		if k >= 8 {
			d.Ops = append(d.Ops, c06Op{K: []string{"nc", "wh", "w", "json"}[k%4], C: 202, N: 1, L: 1 + (k/2)%d.Nest})
		}
		out = append(out, &d)
	}
	// and the adversarial request sequences themselves on this case's writer / context settings
	for k := 0; k < 30; k++ {
		d := *c
		d.Prev, d.Ops = c06AdversarialSeq(r)
		d.RoundTrip = false
		out = append(out, &d)
	}
	return out
}

func init() {
	register(&Prop{
		ID:             "C06",
		Rule:           "handler programs over {WriteHeader, Write, Flush, Before, After, JSON / JSONPretty (serialisable or not), String/HTML/JSONBlob/Blob, NoContent, Redirect (valid and invalid codes), Stream, XMLBlob, JSONPBlob, JSONP (serialisable or not), XML / XMLPretty (encodable or not), Render (no renderer / failing renderer / working renderer), File / FileFS+StaticFileHandler / Attachment / Inline (file of n bytes, empty file, missing file, directory with and without index.html, file without Seek), Hijack, flush through http.ResponseController, flush through the FlushError convention (interface assertion, else Flush), Unwrap, io.Copy into the Response from a source without WriteTo (probes the Response for io.ReaderFrom) and from a strings.Reader (WriteTo → io.WriteString: probes it for io.StringWriter), io.WriteString into the Response}, run as ONE request or as the last of 2-4 requests served on the same recycled context (a third of the random cases; Echo.ServeHTTP + sync.Pool, or one context with Context.Reset); exhaustive over a 22-op alphabet up to length 3 (thorough: 4, plus every program of length 5 over a 10-op core alphabet), random programs of 1-12 ops (thorough: 1-24), adversarial single-request templates (flush first, commit with zero body bytes then JSON/JSONPretty, every helper after commit, unserialisable JSON then write, unserialisable JSONP/XML then WriteHeader, Attachment of a missing file then a commit, Render without a page, hooks around multi-write helpers, redirect code bounds, Hijack before/after commit), adversarial request sequences (an earlier request ends uncommitted with a preset status and/or hooks, or committed with a non-200 status / a large Size / hooks; the following request commits implicitly or registers no hooks and writes); status codes 200-599, 1xx (100-103, 199; echo.Response commits with them like with any other code) and, in 1 of 12 random status writes plus a template family, codes OUTSIDE 100..999 (0 = zero-valued status field, 1, 99, 1000, 1001, 65536, -1, -200) on an underlying writer that either accepts every code (Status must equal what it sent) or — half of the cases whose programs register no before-hook — refuses such a code the way net/http and httptest.ResponseRecorder do (first WriteHeader panics before anything is recorded: the operation is aborted, nothing is out, Committed must stay false, the refused status stays pending; the harness recovers per step); a quarter of the cases with a writer capacity at 0 / total-1 / total / random so writes come back short; underlying writers in all 16 combinations of {io.StringWriter + FlushError (half; like net/http's connection writer), http.Flusher (absent in a quarter of the cases: Flush commits, then panics, the harness recovers per step), io.ReaderFrom (half), http.Hijacker (half)}; a quarter with the request URL /?pretty; a fifth (sequences: half) through Echo.NewContext/Context.Reset (Status starts at 0) instead of ServeHTTP; thorough: 4000 single-request programs additionally behind a real httptest.Server (client status/body length vs Response.Status/Size; no 1xx codes and no Hijack there); hooks that register hooks (a before-hook registering an after-hook or another before-hook, an after-hook registering an after-hook or a before-hook, every time they run): exhaustive over a 10-op alphabet up to length 3 (thorough: 4) plus random programs, compared with the hooks model lean/EchoModel/C06Hooks.lean (single request, unlimited flushing writer) or judged by the oracle alone (capacity, non-flusher, earlier requests); round 8 — a Response whose writer is another Response (echo mounted inside echo, 1-3 levels deep, through echo.WrapHandler / ServeHTTP(c.Response(), req) on pooled contexts or Echo.NewContext(req, c.Response()) + Context.Reset; the levels are different Echo instances or, in a quarter of these cases, routes of ONE Echo re-dispatching to itself): a quarter of the random, adversarial and sequence cases (a third of those with operations addressed to the outer Responses too), exhaustive over a 13-op alphabet (8 operations on the handler's Response, 5 on the one it writes to) up to length 3 (thorough: 4), random tower programs (outer hooks first, handler operations, a late status write / helper / write on an outer Response; some with capacity, non-flusher, refusing writer, earlier requests), 12 mounted variants of every case in the failing-input search, thorough: a third of the real-server programs; operations a level performs before the first operation of a deeper level run BEFORE the deeper Echo is mounted (its Response is reset on top of a possibly committed one); every clause is judged on the outermost Response and on every Response no status / body operation went around, the others must not claim more than happened (Committed => headers out, Size <= bytes written); single-request tower programs over {WriteHeader/NoContent, Write/WriteString, Flush (all three routes), Before, After, JSON, String/Blob} are compared with the tower model lean/EchoModel/C06Nest.lean (all Responses + writer + layered event trace), the rest is judged by the oracle alone; Response fields and the recording writer are sampled after EVERY step of EVERY request; the first-status clause is judged against the status preset by THIS request's program text (tracked by the harness, not read from Response.Status); non-trivial = at least one operation after the headers went out AND (a hook registered, or flush as first operation of the last request, or a short write, or >=4 distinct tags), OR a committed last request after an earlier request that left hooks / a preset status / a non-trivial committed response on the context; distinct = distinct model op lines",
		New:            func() any { return &c06Case{} },
		Gen:            c06Gen,
		Run:            c06Run,
		Shrink:         c06Shrink,
		Mutate:         c06Mutate,
		Tolerable:      c06Tolerable,
		Correspondence: "C06.runSeqObs / C06.runSnaps / C06.step / C06.reset (lean/EchoModel/C06.lean), C06H.run (C06Hooks.lean: hooks registering hooks), C06N.run (C06Nest.lean: towers of Responses) vs echo.Response + echo.Context helpers over recording http.ResponseWriters, one per request, on one recycled echo.Context",
	})
}
