package main

// C08 generators: the reflection-driven probe table (every method x boundary / look-alike
// strings), random ValueBinder chains, random struct-binder requests; shrinking.

import (
	"fmt"
	"math/big"
	"math/rand"
	"reflect"
	"strings"
	"time"
)

// layouts handed to Time / MustTime / Times / MustTimes
var c08Layouts = []string{time.RFC3339, time.RFC3339Nano, "2006-01-02", time.Kitchen, time.RFC1123Z, "2006-01-02 15:04:05.000",
	"15:04", "Jan _2 2006", "", "x", "20060102T150405Z0700", time.UnixDate, "2006-01-02T15:04:05.999999999Z07:00:00", "02/01/06 03PM"}

var c08TimeTexts = []string{"", "2020-12-28T18:36:43Z", "2020-12-28T18:36:43.123456789+02:00", "2020-12-28", "2020-13-01", "2020-02-30", "2020-02-29",
	"2019-02-29", "2016-12-31T23:59:60Z", "0000-01-01T00:00:00Z", "9999-12-31T23:59:59.999999999Z", "10000-01-01T00:00:00Z", "2020-12-28T18:36:43+24:00",
	"2020-12-28T18:36:43", "2020-12-28T18:36:43Z ", " 2020-12-28T18:36:43Z", "2020-12-28t18:36:43z", "3:04PM", "13:04PM", "x", "xx", "1609180603", "-1", "!x",
	"2020-12-28T18:36:43.Z", "2020-12-28T18:36:43,5Z", "Mon, 28 Dec 2020 18:36:43 +0000", "Dec  8 2020", "20201228T183643Z", "20201228T183643+0530"}

func c08RandTime(r *rand.Rand) time.Time {
	t := time.Unix(r.Int63n(4000000000)-1000000000, int64(r.Intn(3))*int64(r.Intn(1000000000))).UTC()
	if r.Intn(3) == 0 {
		t = t.In(time.FixedZone("", (r.Intn(27)-13)*1800))
	}
	return t
}

// a text for a Time destination: formatted with the call's layout, with another layout, an
// edge case, or a damaged valid text
func c08TimeText(r *rand.Rand, layout string, pBad int) string {
	valid := c08RandTime(r).Format(layout)
	if r.Intn(100) >= pBad {
		return valid
	}
	switch r.Intn(4) {
	case 0:
		return c08RandTime(r).Format(c08Layouts[r.Intn(len(c08Layouts))])
	case 1:
		return c08TimeTexts[r.Intn(len(c08TimeTexts))]
	case 2:
		if len(valid) > 0 {
			k := r.Intn(len(valid))
			return valid[:k] + []string{"", "x", " ", "9", "-", "Z"}[r.Intn(6)] + valid[k+1:]
		}
	}
	return valid + []string{"", " ", "Z", "0", "x"}[r.Intn(5)]
}

// decimal boundaries of every width: ±(2^w + {-1,0,1}) for w in 7,8,15,16,31,32,63,64
func c08Boundaries() []string {
	var out []string
	for _, w := range []uint{7, 8, 15, 16, 31, 32, 63, 64} {
		p := new(big.Int).Lsh(big.NewInt(1), w)
		for _, d := range []int64{-1, 0, 1} {
			n := new(big.Int).Add(p, big.NewInt(d))
			out = append(out, n.String(), "-"+n.String())
		}
	}
	return out
}

var c08LookAlikes = []string{
	"", "0", "-0", "+0", "+5", "-5", "007", "-007", "+007", "00", "-00",
	" 5", "5 ", "\t5", "5\n", "0x10", "0X1F", "0b11", "0o7", "1_000", "1e3", "1E3", "1.0", "1.", ".5",
	"١٢٣", "１２", "٣", "12３", "-", "+", "--1", "+-1", "1-", "1+1", "٠",
	"0000000000000000000000000000000000000127", "0000000000000000000000000000000000000128",
	"1234567890123456789012345678901234567890", "-1234567890123456789012345678901234567890",
	"+127", "+128", "+255", "+256", "+32767", "+32768", "+2147483647", "+2147483648",
	"+9223372036854775807", "+9223372036854775808", "+18446744073709551615",
	"00127", "00128", "-00128", "-00129", "0255", "0256", "065535", "065536", "004294967295", "004294967296",
	"018446744073709551615", "018446744073709551616", "09223372036854775807", "-09223372036854775808", "-09223372036854775809",
	"99999999999999999999x", "18446744073709551616x", "12a", "a12", "1,2", "1;2",
	"true", "TRUE", "True", "t", "T", "1", "f", "F", "false", "FALSE", "False", "TRue", "tRUE", "yes", "no", "2", " true", "true ",
	"NaN", "nan", "Inf", "-Inf", "+Inf", "infinity", "1e400", "-1e400", "1e39", "-1e39", "3.4028235e38", "3.4028236e38",
	"3.40282356779733661637539395458142568448e38", "3.40282356779733661637539395458142568447e38",
	"1.000000059604644775390625000000000000000001", "1.000000059604644775390625", "16777217", "9007199254740993",
	"0.1", "1e-50", "4.9e-324", "1e-400", "0x1p-2", "1_0.5", "1.5", "-2.25", "1e3", "2.5e-3",
	"1.7976931348623157e308", "1.7976931348623159e308", "7.038531e-26", "7.0385307e-26",
	"!x", "!", "x!", "!500", "!502 bad gateway", "!415", "!400", "!404", "!wrap",
	// blank as a whole: "empty counts as absent" is exactly the empty string
	" ", "  ", "\t", "\n", "\r\n", " \t ", "\v", "\f", "\u00a0", "\u2003", "\u3000", "\u0085", "\u00a0 ", "\u200b",
	"1s", "1.5h", "-3ms", "1h2m3s", "1d", "9223372036854775807ns", "9223372036854775808ns",
	"2562047h47m16.854775807s", "2562047h47m16.854775808s", "-2562047h47m16.854775808s", "-2562047h47m16.854775809s",
	"1µs", "1us", "1μs", ".5s", "1.s", "s", "+1s", "1 s", "1h-1m", "0s", "1ns", "0.5ns", "1m1",
}

var c08Pool []string

func c08InitPool() {
	if c08Pool == nil {
		c08Pool = append(c08Boundaries(), c08LookAlikes...)
		c08Pool = append(c08Pool, c08LongNumerals()...)
	}
}

// long but well-formed numerals (and their just-malformed neighbours): long runs of leading
// zeros before small values and before the boundary of every width, sign + zeros, digit
// strings that only overflow after many zeros, very long digit strings, floats with long
// mantissas / fractions / exponents whose value depends on the END of the text, durations
func c08LongNumerals() []string {
	z := func(n int) string { return strings.Repeat("0", n) }
	var out []string
	for _, n := range []int{60, 63, 64, 65, 70, 100, 300} {
		out = append(out, z(n)+"5", "-"+z(n)+"5", "+"+z(n)+"5", z(n), "-"+z(n))
	}
	edges := []string{"127", "128", "255", "256", "32767", "32768", "65535", "65536", "2147483647", "2147483648",
		"4294967295", "4294967296", "9223372036854775807", "9223372036854775808", "18446744073709551615", "18446744073709551616"}
	negEdges := []string{"128", "129", "32768", "32769", "2147483648", "2147483649", "9223372036854775808", "9223372036854775809"}
	for _, n := range []int{44, 64, 70, 120} {
		for _, e := range edges {
			out = append(out, z(n)+e)
		}
		for _, e := range negEdges {
			out = append(out, "-"+z(n)+e)
		}
	}
	// fits only if the trailing digit is ignored: must be range errors
	for _, e := range []string{"127", "255", "32767", "65535", "2147483647", "4294967295", "9223372036854775807", "18446744073709551615"} {
		out = append(out, z(64-len(e))+e+"9", z(44)+e+"9", z(70)+e+"0", "-"+z(63-len(e))+e+"9")
	}
	out = append(out,
		"1"+z(70), "-1"+z(70), strings.Repeat("9", 100), "-"+strings.Repeat("9", 100), strings.Repeat("1", 65), z(70)+"1_0", z(70)+"x", z(70)+" 5", z(63)+"+5",
		// floats: the value depends on what follows the 64th byte
		"1"+z(70)+"e-70", "1"+z(70)+"e-71", "-1"+z(70)+"e-70", "0."+z(70)+"1e71", "0."+z(70)+"1", z(70)+"1.5", "-"+z(70)+"2.25", "+"+z(70)+"1.5",
		"1."+z(80)+"5", "0."+strings.Repeat("3", 100), "1."+strings.Repeat("9", 100), "1e"+z(70)+"5", "1e-"+z(70)+"5", "1.5e+"+z(66)+"2",
		"1"+z(400), "1"+z(38)+"."+z(40), "1"+z(39)+"."+z(40), "3.4028235"+z(70)+"e38", "3.4028236"+z(70)+"e38", "3"+z(70)+"e-32", "16777217."+z(70), "16777217"+z(60)+"e-60",
		"9007199254740993"+z(60)+"e-60", "1.000000059604644775390625"+z(60)+"1", z(70)+"1e3", z(64)+".5", "1"+z(70)+"e-70x", "1"+z(70)+"e", "1"+z(70)+"e-",
		"0x1"+z(70)+"p-280", "1"+z(70)+"_0e-70",
		// durations
		z(70)+"5s", "1."+z(70)+"5h", z(70)+"1h"+z(70)+"2m", "0."+z(70)+"1s", z(70)+"9223372036854775807ns", z(70)+"9223372036854775808ns",
	)
	return out
}

func c08LongZeros(r *rand.Rand) string {
	return strings.Repeat("0", 58+r.Intn(250))
}

func c08RandBig(r *rand.Rand, bits int) *big.Int {
	n := new(big.Int)
	for i := 0; i < bits; i++ {
		n.Lsh(n, 1)
		if r.Intn(2) == 1 {
			n.Or(n, big.NewInt(1))
		}
	}
	return n
}

func c08Decorate(r *rand.Rand, s string, signed bool) string {
	switch r.Intn(14) {
	case 12: // long run of leading zeros (the numeral still denotes the same number)
		if strings.HasPrefix(s, "-") {
			return "-" + c08LongZeros(r) + s[1:]
		}
		if signed && r.Intn(4) == 0 {
			return "+" + c08LongZeros(r) + s
		}
		return c08LongZeros(r) + s
	case 0:
		if signed && !strings.HasPrefix(s, "-") {
			return "+" + s
		}
	case 1:
		if strings.HasPrefix(s, "-") {
			return "-" + strings.Repeat("0", 1+r.Intn(3)) + s[1:]
		}
		return strings.Repeat("0", 1+r.Intn(3)) + s
	}
	return s
}

// c08ValidFor: a text that (most of the time) denotes a value of element type E
func c08ValidFor(r *rand.Rand, fam int, E reflect.Type) string {
	switch fam {
	case famInt, famUnix:
		bits := 64
		if fam == famInt {
			bits = E.Bits()
		}
		var n *big.Int
		switch r.Intn(6) {
		case 0:
			n = new(big.Int).Sub(new(big.Int).Lsh(big.NewInt(1), uint(bits-1)), big.NewInt(1)) // max
		case 1:
			n = new(big.Int).Neg(new(big.Int).Lsh(big.NewInt(1), uint(bits-1))) // min
		case 2:
			n = big.NewInt(int64(r.Intn(200) - 100))
		default:
			n = c08RandBig(r, 1+r.Intn(bits-1))
			if r.Intn(2) == 0 {
				n.Neg(n)
			}
		}
		return c08Decorate(r, n.String(), true)
	case famUint, famByte:
		bits := E.Bits()
		var n *big.Int
		switch r.Intn(5) {
		case 0:
			n = new(big.Int).Sub(new(big.Int).Lsh(big.NewInt(1), uint(bits)), big.NewInt(1))
		case 1:
			n = big.NewInt(int64(r.Intn(100)))
		default:
			n = c08RandBig(r, 1+r.Intn(bits))
		}
		return c08Decorate(r, n.String(), false)
	case famBool:
		l := []string{"1", "t", "T", "TRUE", "true", "True", "0", "f", "F", "FALSE", "false", "False"}
		return l[r.Intn(len(l))]
	case famFloat:
		l := []string{"0", "1.5", "-2.25", "1e3", "2.5e-3", "3.4028235e38", "0.1", "16777217", "1e-50", "-0", "+Inf", "NaN", "1e39",
			"1.000000059604644775390625000000000000000001", "9007199254740993", "0x1p-2"}
		switch r.Intn(8) {
		case 0, 1:
			return fmt.Sprintf("%d.%de%d", r.Intn(1000)-500, r.Intn(100000), r.Intn(80)-40)
		case 2: // long mantissa compensated by the exponent, long fraction, zeros in front
			k := 40 + r.Intn(120)
			switch r.Intn(5) {
			case 0:
				return fmt.Sprintf("%d%se-%d", 1+r.Intn(99), strings.Repeat("0", k), k-r.Intn(3))
			case 1:
				return fmt.Sprintf("0.%s%de%d", strings.Repeat("0", k), 1+r.Intn(99), k+r.Intn(3))
			case 2:
				return fmt.Sprintf("%s%d.%d", c08LongZeros(r), r.Intn(1000), r.Intn(1000))
			case 3:
				return fmt.Sprintf("%d.%s%d", r.Intn(100), strings.Repeat("0", k), 1+r.Intn(9))
			default:
				return fmt.Sprintf("%d.5e%s%d", r.Intn(100), strings.Repeat("0", k), r.Intn(30))
			}
		}
		return l[r.Intn(len(l))]
	case famDur:
		if r.Intn(2) == 0 {
			units := []string{"ns", "us", "µs", "ms", "s", "m", "h"}
			return fmt.Sprintf("%d%s", r.Intn(100000)-50000, units[r.Intn(len(units))])
		}
		l := []string{"1s", "1.5h", "-3ms", "1h2m3s", "2562047h47m16.854775807s", "0", "1ns", ".5s"}
		return l[r.Intn(len(l))]
	case famUnm:
		l := []string{"abc", "x", "0", "hello world", "a,b", "ünï"}
		return l[r.Intn(len(l))]
	case famTime:
		return c08TimeCanon(c08RandTime(r)) // used for initial values only
	case famNamed:
		// texts whose meaning for the type differs from strconv's reading of the same text
		switch c08NamedIdx(E) {
		case 0: // hex, 32 bits
			l := []string{"10", "20", "ff", "7fffffff", "-80000000", "1f", "0", "a", "11", "100", "-10", "+7f"}
			if r.Intn(3) == 0 {
				return fmt.Sprintf("%x", r.Int31())
			}
			return l[r.Intn(len(l))]
		case 1: // percent
			return fmt.Sprint(r.Intn(101))
		case 2:
			return []string{"on", "off"}[r.Intn(2)]
		case 3:
			return []string{"abc", "x", "Hello", "ünï", "a b", "10"}[r.Intn(6)]
		default:
			return fmt.Sprintf("%d/%d", r.Intn(200)-100, 1+r.Intn(16))
		}
	}
	l := []string{"abc", "x", "0", "hello world", "a b", "ünï", "!bang"}
	return l[r.Intn(len(l))]
}

// c08Adversarial: boundary of some width, look-alike, or a mutated valid text
func c08Adversarial(r *rand.Rand, fam int, E reflect.Type) string {
	c08InitPool()
	if fam == famNamed && r.Intn(2) == 0 {
		// valid for the KIND (strconv would take it) but not for the type, and the other way round
		switch c08NamedIdx(E) {
		case 0:
			return []string{"80000000", "-80000001", "1g", "0x10", "", "100000000", "2147483648", "ffffffff"}[r.Intn(8)]
		case 1:
			return []string{"101", "250", "255", "256", "-1", "", "1e2", "0100"}[r.Intn(8)]
		case 2:
			return []string{"true", "false", "1", "0", "t", "ON", "", "yes"}[r.Intn(8)]
		case 3:
			return []string{"!x", "!", ""}[r.Intn(3)]
		default:
			return []string{"1.5", "0.25", "1/0", "1/", "/2", "3", "", "1e3", "NaN"}[r.Intn(9)]
		}
	}
	switch r.Intn(5) {
	case 0, 1:
		return c08Pool[r.Intn(len(c08Pool))]
	case 2:
		// one past the own range
		switch fam {
		case famInt:
			p := new(big.Int).Lsh(big.NewInt(1), uint(E.Bits()-1))
			if r.Intn(2) == 0 {
				return p.String()
			}
			return "-" + new(big.Int).Add(p, big.NewInt(1)).String()
		case famUint, famByte:
			if r.Intn(3) == 0 {
				return "-1"
			}
			return new(big.Int).Lsh(big.NewInt(1), uint(E.Bits())).String()
		}
		return c08Pool[r.Intn(len(c08Pool))]
	case 3:
		s := c08ValidFor(r, fam, E)
		ins := []string{" ", "_", "x", "e", ".", "-", "+", "٣", ",", "0x"}
		k := r.Intn(len(s) + 1)
		return s[:k] + ins[r.Intn(len(ins))] + s[k:]
	default:
		// random decimal of random size; sometimes behind a long run of zeros, sometimes very long
		n := c08RandBig(r, 1+r.Intn(72))
		t := n.String()
		switch r.Intn(6) {
		case 0:
			t = c08LongZeros(r) + t
		case 1:
			t = t + c08RandBig(r, 200+r.Intn(600)).String()
		case 2: // zeros, then a value at the edge of the own range, then one more digit
			if fam == famInt || fam == famUint || fam == famByte {
				bits := uint(E.Bits())
				if fam == famInt {
					bits--
				}
				m := new(big.Int).Sub(new(big.Int).Lsh(big.NewInt(1), bits), big.NewInt(1))
				t = strings.Repeat("0", 30+r.Intn(60)) + m.String() + []string{"", "", "0", "9"}[r.Intn(4)]
			}
		}
		if r.Intn(2) == 0 {
			return "-" + t
		}
		return t
	}
}

func c08GenText(r *rand.Rand, fam int, E reflect.Type, pBad int) string {
	if r.Intn(100) < pBad {
		return c08Adversarial(r, fam, E)
	}
	return c08ValidFor(r, fam, E)
}

// canonical initial value of element type E
func c08InitFor(r *rand.Rand, fam int, E reflect.Type) string {
	for k := 0; k < 20; k++ {
		s := c08ValidFor(r, fam, E)
		if fam == famFloat && (strings.Contains(s, "NaN") || strings.HasPrefix(s, "0x")) {
			continue
		}
		if fam == famUnix {
			s = fmt.Sprint(r.Intn(2000000000))
		}
		if d, ok := c08Denote(fam, E, s); ok {
			return d
		}
	}
	switch fam {
	case famBool:
		return "false"
	case famStr, famUnm:
		return "init"
	}
	return "0"
}

func c08NewCall(r *rand.Rand, mi c08MI, delimElem string, pBad int) *c08Call {
	cl := &c08Call{Method: mi.Name, Elem: delimElem}
	fam, E := mi.Fam, mi.E
	if fam == famTime {
		cl.Layout = c08Layouts[r.Intn(len(c08Layouts))]
		if r.Intn(2) == 0 {
			cl.Layout = c08Layouts[r.Intn(3)]
		}
		nv := 1
		if mi.Slice {
			nv = 1 + r.Intn(3)
		}
		for i := 0; i < nv; i++ {
			cl.Values = append(cl.Values, c08TimeText(r, cl.Layout, pBad))
		}
		switch r.Intn(12) {
		case 0:
			cl.Values = nil
		case 1:
			cl.Values[0] = ""
		}
		if mi.Slice {
			if r.Intn(2) == 0 {
				cl.InitNil = true
			} else {
				cl.Init = []string{}
				for i := 0; i < r.Intn(3); i++ {
					cl.Init = append(cl.Init, c08TimeCanon(c08RandTime(r)))
				}
			}
		} else {
			cl.Init = []string{c08TimeCanon(c08RandTime(r))}
		}
		return cl
	}
	if delimElem != "" {
		if mi.Fam == famUnm { // unsupported destination: texts do not matter
			fam, E = famInt, reflect.TypeOf(int64(0))
		}
		delims := []string{",", ",", ",", "|", "||", ";", " ", "ab"}
		cl.Delim = delims[r.Intn(len(delims))]
		if r.Intn(40) == 0 {
			cl.Delim = ""
		}
		nv := 1 + r.Intn(2)
		for i := 0; i < nv; i++ {
			np := 1 + r.Intn(3)
			var ps []string
			for j := 0; j < np; j++ {
				ps = append(ps, c08GenText(r, fam, E, pBad/2))
			}
			cl.Values = append(cl.Values, strings.Join(ps, cl.Delim))
		}
	} else if mi.Slice {
		nv := 1 + r.Intn(3)
		if r.Intn(40) == 0 { // rare sizes: long value lists
			nv = []int{20, 21, 64, 65, 130}[r.Intn(5)]
		}
		for i := 0; i < nv; i++ {
			cl.Values = append(cl.Values, c08GenText(r, fam, E, pBad/2))
		}
	} else {
		cl.Values = []string{c08GenText(r, fam, E, pBad)}
		if r.Intn(10) == 0 {
			cl.Values = append(cl.Values, c08GenText(r, fam, E, 50))
		}
	}
	switch r.Intn(12) {
	case 0:
		cl.Values = nil
	case 1:
		cl.Values[0] = ""
	}
	if mi.T.Kind() == reflect.Slice {
		if r.Intn(2) == 0 {
			cl.InitNil = true
		} else {
			n := r.Intn(3)
			cl.Init = []string{}
			for i := 0; i < n; i++ {
				cl.Init = append(cl.Init, c08InitFor(r, mi.Fam, mi.E))
			}
		}
	} else {
		cl.Init = []string{c08InitFor(r, mi.Fam, mi.E)}
	}
	return cl
}

func c08RandCall(r *rand.Rand, pBad int) *c08Call {
	ms := c08Methods()
	if r.Intn(7) == 0 {
		el := c08DelimElems[r.Intn(len(c08DelimElems))]
		if r.Intn(15) == 0 {
			el = []string{"[]time.Time", "int64", "nonptr"}[r.Intn(3)]
		}
		mi, _ := c08DelimDest(el)
		if r.Intn(3) == 0 {
			mi.Name = "MustBindWithDelimiter"
		}
		return c08NewCall(r, mi, el, pBad)
	}
	mi := ms[r.Intn(len(ms))]
	cl := c08NewCall(r, mi, "", pBad)
	if mi.Slice && len(cl.Values) > 0 && r.Intn(40) == 0 { // a count at / just above a round limit, written compactly
		cl.Pad, cl.PadTexts = c08SmallEdges[r.Intn(len(c08SmallEdges))]-len(cl.Values), c08PadTexts(r, mi.Fam, mi.E, cl.Layout)
	}
	return cl
}

func c08RandCustom(r *rand.Rand, pBad int) *c08Custom {
	cu := &c08Custom{Must: r.Intn(3) == 0, Mode: []string{"", "", "sloppy", "empty"}[r.Intn(4)]}
	for i := 0; i < 1+r.Intn(3); i++ {
		v := []string{"a", "b", "hello", "1", "x!y", ""}[r.Intn(6)]
		if r.Intn(100) < pBad {
			v = "!" + v
		}
		cu.Values = append(cu.Values, v)
	}
	if r.Intn(8) == 0 {
		cu.Values = nil
	}
	if r.Intn(2) == 0 {
		cu.InitNil = true
	} else {
		cu.Init = []string{"init"}[:r.Intn(2)]
	}
	return cu
}

func c08GenChain(r *rand.Rand) *c08Case {
	c := &c08Case{Kind: "vb", FailFast: r.Intn(10) < 6, Binder: []string{"", "", "form", "path", "multipart"}[r.Intn(5)]}
	if r.Intn(5) < 2 { // the binder as its constructor returns it: no FailFast call before the first op
		c.Default, c.FailFast = true, false
	}
	switch r.Intn(8) { // the application's ErrorFunc
	case 0:
		c.ErrFunc = "nil"
	case 1:
		c.ErrFunc = "plain"
	}
	n := 2 + r.Intn(5)
	pBad := []int{5, 25, 50}[r.Intn(3)]
	for i := 0; i < n; i++ {
		switch k := r.Intn(100); {
		case k < 8:
			c.Ops = append(c.Ops, c08Op{Kind: "custom", Custom: c08RandCustom(r, pBad)})
		case k < 80:
			c.Ops = append(c.Ops, c08Op{Kind: "call", Call: c08RandCall(r, pBad)})
		case k < 87:
			c.Ops = append(c.Ops, c08Op{Kind: "failfast", Flag: r.Intn(2) == 0})
		case k < 94:
			c.Ops = append(c.Ops, c08Op{Kind: "binderror"})
		default:
			c.Ops = append(c.Ops, c08Op{Kind: "binderrors"})
		}
	}
	if r.Intn(2) == 0 {
		c.Ops = append(c.Ops, c08Op{Kind: []string{"binderror", "binderrors"}[r.Intn(2)]})
	}
	if c.Binder == "multipart" { // mime/multipart refuses forms of more than 1000 parts
		budget := 800
		for _, op := range c.Ops {
			if op.Kind == "call" && op.Call != nil && op.Call.Pad > 0 && !op.Call.PadJoin {
				if op.Call.Pad > budget {
					op.Call.Pad = budget
				}
				budget -= op.Call.Pad
			}
		}
	}
	return c
}

var c08Sources = []string{"query", "bind-get", "form", "multipart", "header", "param"}

// sources that carry the texts in a request body
var c08BodySources = []string{"form", "multipart", "json", "xml"}

// one in c08ServerShare body cases goes through the real server (set by c08Gen from the tier)
var c08ServerShare = 60

// how the length of a body is (not) declared
func c08RandLenMode(r *rand.Rand) string {
	switch k := r.Intn(100); {
	case k < 25:
		return "unknown"
	case k < 40:
		return "chunked"
	case k < 40+100/c08ServerShare:
		return "server"
	}
	return ""
}

func c08GenStruct(r *rand.Rand) *c08Case {
	_, infos := c08Catalogue()
	c := &c08Case{Kind: "struct", Source: c08Sources[r.Intn(len(c08Sources))], Prepop: r.Intn(2) == 0}
	if r.Intn(5) == 0 {
		c.Source = "param+query"
	}
	if r.Intn(8) == 0 { // decoded bodies: judged against encoding/json | encoding/xml on the same bytes
		c.Source = []string{"json", "xml"}[r.Intn(2)]
	}
	switch c.Source {
	case "form", "multipart", "json", "xml":
		c.LenMode = c08RandLenMode(r)
	}
	if c.Source == "json" && r.Intn(3) == 0 {
		c.Serial = "raw"
	}
	n := 1 + r.Intn(6)
	pBad := []int{3, 15, 40}[r.Intn(3)]
	pEmpty := 15
	if c.Prepop {
		pEmpty = 5
	}
	field := func(info c08FieldInfo) c08Field {
		nv := 1
		if info.Wrap >= 2 {
			nv = 1 + r.Intn(3)
		} else if r.Intn(10) == 0 {
			nv = 2
		}
		f := c08Field{Name: info.Name}
		if info.Wrap >= 2 && r.Intn(80) == 0 { // a count at / just above a round limit
			f.Pad, f.PadTexts = c08SmallEdges[r.Intn(len(c08SmallEdges))]-nv, c08PadTexts(r, info.Fam, info.E, "")
		}
		for j := 0; j < nv; j++ {
			s := c08GenText(r, info.Fam, info.E, pBad)
			if r.Intn(pEmpty) == 0 {
				s = ""
			}
			f.Values = append(f.Values, s)
		}
		return f
	}
	for i := 0; i < n; i++ {
		info := infos[r.Intn(len(infos))]
		c.Fields = append(c.Fields, field(info))
		if c.Source == "param+query" && r.Intn(2) == 0 {
			c.Fields2 = append(c.Fields2, field(info)) // the same field through both sources
		}
	}
	if c.Source == "param+query" {
		for i := 0; i < r.Intn(3); i++ {
			c.Fields2 = append(c.Fields2, field(infos[r.Intn(len(infos))]))
		}
	}
	if c.Source == "multipart" { // mime/multipart refuses forms of more than 1000 parts
		budget := 800
		for i := range c.Fields {
			if c.Fields[i].Pad > budget {
				c.Fields[i].Pad = budget
			}
			budget -= c.Fields[i].Pad
		}
	}
	return c
}

// the probe table: every enumerated method (and every BindWithDelimiter destination) x every
// boundary / look-alike string, one single-call chain each
func c08Probe(r *rand.Rand) []any {
	c08InitPool()
	var out []any
	add := func(mi c08MI, el string, s string) {
		cl := c08NewCall(r, mi, el, 0)
		if el != "" {
			cl.Delim = ","
			if r.Intn(2) == 0 {
				cl.Values = []string{s}
			} else {
				cl.Values = []string{c08ValidFor(r, mi.Fam, mi.E) + "," + s}
			}
		} else if mi.Slice && r.Intn(2) == 0 {
			cl.Values = []string{c08ValidFor(r, mi.Fam, mi.E), s}
		} else {
			cl.Values = []string{s}
		}
		pc := &c08Case{Kind: "vb", FailFast: r.Intn(2) == 0, Ops: []c08Op{{Kind: "call", Call: cl}, {Kind: "binderrors"}}}
		if r.Intn(3) == 0 {
			pc.Default, pc.FailFast, pc.Binder = true, false, []string{"", "form", "path", "multipart"}[r.Intn(4)]
		}
		if r.Intn(8) == 0 {
			pc.ErrFunc = []string{"nil", "plain"}[r.Intn(2)]
		}
		out = append(out, pc)
	}
	for _, mi := range c08Methods() {
		for _, s := range c08Pool {
			add(mi, "", s)
		}
	}
	for _, el := range c08DelimElems {
		mi, _ := c08DelimDest(el)
		for _, s := range c08Pool {
			if !strings.Contains(s, ",") {
				add(mi, el, s)
			}
		}
	}
	// Time / MustTime / Times / MustTimes (and any later method with a third string argument):
	// every layout x {valid text, text of another layout, edge texts}, alone and after a failing call
	bad := &c08Call{Method: "Int8", Values: []string{"128"}, Init: []string{"7"}}
	for _, mi := range c08Methods() {
		if !mi.Extra {
			continue
		}
		for _, layout := range c08Layouts {
			texts := append([]string{c08RandTime(r).Format(layout), c08RandTime(r).Format(layout), c08RandTime(r).Format(c08Layouts[r.Intn(3)])}, c08TimeTexts...)
			for _, txt := range texts {
				cl := c08NewCall(r, mi, "", 0)
				cl.Layout = layout
				cl.Values = []string{txt}
				if mi.Slice && r.Intn(2) == 0 {
					cl.Values = []string{c08RandTime(r).Format(layout), txt, c08RandTime(r).Format(layout)}
				}
				ops := []c08Op{{Kind: "call", Call: cl}, {Kind: "binderrors"}}
				if r.Intn(4) == 0 { // the binder already holds an error
					ops = append([]c08Op{{Kind: "call", Call: bad}}, ops...)
				}
				out = append(out, &c08Case{Kind: "vb", FailFast: r.Intn(2) == 0, Binder: []string{"", "form", "path"}[r.Intn(3)], Ops: ops})
			}
		}
	}
	// every constructor as it comes (no FailFast call): a failing field, then fields that would bind
	for _, binder := range []string{"", "path", "form", "multipart"} {
		for _, first := range []*c08Call{bad, {Method: "MustInt", Values: nil, Init: []string{"7"}}, {Method: "Float32s", Values: []string{"1.5", "x"}, InitNil: true},
			{Method: "Duration", Values: []string{"1x"}, Init: []string{"5"}}, {Method: "MustBool", Values: []string{"yes"}, Init: []string{"false"}}} {
			for variant := 0; variant < 4; variant++ {
				later := []c08Op{
					{Kind: "call", Call: &c08Call{Method: "Int64", Values: []string{"42"}, Init: []string{"7"}}},
					{Kind: "call", Call: &c08Call{Method: "Uint8s", Values: []string{"1", "2"}, InitNil: true}},
					{Kind: "call", Call: &c08Call{Method: "Bool", Values: []string{"true"}, Init: []string{"false"}}},
					{Kind: "call", Call: &c08Call{Method: "BindWithDelimiter", Elem: "[]int16", Values: []string{"1,2"}, Delim: ",", InitNil: true}},
					{Kind: "custom", Custom: &c08Custom{Values: []string{"a"}, InitNil: true}},
					{Kind: "call", Call: &c08Call{Method: "Int8", Values: []string{"300"}, Init: []string{"7"}}},
				}
				ops := append([]c08Op{{Kind: "call", Call: first}}, later[variant:]...)
				switch variant {
				case 1:
					ops = append(ops, c08Op{Kind: "binderrors"})
				case 2: // after the reset the binder must still be fail-fast
					ops = append(ops, c08Op{Kind: "binderror"}, c08Op{Kind: "call", Call: bad}, later[0], c08Op{Kind: "binderrors"})
				case 3: // an explicit FailFast(false) later switches it off
					ops = append([]c08Op{{Kind: "call", Call: first}, {Kind: "failfast", Flag: false}}, later...)
					ops = append(ops, c08Op{Kind: "binderrors"})
				}
				out = append(out, &c08Case{Kind: "vb", Default: true, Binder: binder, Ops: ops})
			}
		}
	}
	// an application ErrorFunc that returns nil / a plain error: a failing conversion must still
	// freeze a fail-fast chain and must still keep a slice method from storing its temporary
	for _, ef := range []string{"nil", "plain"} {
		for _, ff := range []int{0, 1, 2} { // explicit true, explicit false, constructor default
			for _, binder := range []string{"", "path", "form"} {
				sliceBad := func(m string, vals ...string) c08Op {
					return c08Op{Kind: "call", Call: &c08Call{Method: m, Values: vals, Init: []string{"7"}}}
				}
				chains := [][]c08Op{
					{{Kind: "call", Call: bad}, {Kind: "call", Call: &c08Call{Method: "Int", Values: []string{"5"}, Init: []string{"7"}}}, {Kind: "binderrors"}},
					{sliceBad("Int64s", "1", "x", "3"), {Kind: "binderrors"}},
					{sliceBad("Uint8s", "1", "256"), sliceBad("Bools", "true", "false"), {Kind: "binderror"}},
					{sliceBad("Float32s", "1.5", "1e39", "2"), sliceBad("Durations", "1s", "x"), {Kind: "binderrors"}},
					{{Kind: "call", Call: &c08Call{Method: "BindWithDelimiter", Elem: "[]int16", Values: []string{"1,x,3"}, Delim: ",", Init: []string{"7"}}},
						{Kind: "call", Call: &c08Call{Method: "MustBool", Values: nil, Init: []string{"true"}}}, {Kind: "call", Call: &c08Call{Method: "Bool", Values: []string{"false"}, Init: []string{"true"}}}, {Kind: "binderror"}, {Kind: "binderror"}},
					{{Kind: "call", Call: &c08Call{Method: "Times", Values: []string{"2020-01-01", "x"}, Layout: "2006-01-02", Init: []string{"7.000000000@0"}}},
						{Kind: "custom", Custom: &c08Custom{Values: []string{"a", "!b"}, InitNil: true}}, {Kind: "binderrors"}},
					{{Kind: "custom", Custom: &c08Custom{Values: []string{"!a"}, InitNil: true}}, {Kind: "call", Call: bad}, {Kind: "binderror"}},
				}
				for _, ops := range chains {
					cs := &c08Case{Kind: "vb", ErrFunc: ef, Binder: binder, Ops: ops}
					switch ff {
					case 0:
						cs.FailFast = true
					case 2:
						cs.Default = true
					}
					out = append(out, cs)
				}
			}
		}
	}
	// CustomFunc / MustCustomFunc: alone, after a failing call, followed by a typed call
	for _, must := range []bool{false, true} {
		for _, mode := range []string{"", "sloppy", "empty"} {
			for _, vals := range [][]string{nil, {""}, {"a"}, {"a", "b"}, {"!a"}, {"a", "!b", "!c"}, {"!a", "b"}} {
				for _, ff := range []bool{true, false} {
					for variant := 0; variant < 3; variant++ {
						cu := &c08Custom{Must: must, Mode: mode, Values: vals, InitNil: variant == 0, Init: []string{"init"}}
						good := &c08Call{Method: "Int16", Values: []string{"12"}, Init: []string{"7"}}
						ops := []c08Op{{Kind: "custom", Custom: cu}, {Kind: "call", Call: good}, {Kind: "binderrors"}}
						switch variant {
						case 1:
							ops = append([]c08Op{{Kind: "call", Call: bad}}, ops...)
						case 2:
							ops = []c08Op{{Kind: "custom", Custom: cu}, {Kind: "custom", Custom: cu}, {Kind: "binderror"}, {Kind: "custom", Custom: cu}, {Kind: "binderrors"}}
						}
						out = append(out, &c08Case{Kind: "vb", FailFast: ff, Binder: []string{"", "form", "path"}[variant], Ops: ops})
					}
				}
			}
		}
	}
	// struct binder: every catalogue field x every pool string
	_, infos := c08Catalogue()
	for _, info := range infos {
		for _, s := range c08Pool {
			src := c08Sources[r.Intn(len(c08Sources))]
			f := c08Field{Name: info.Name, Values: []string{s}}
			if info.Wrap >= 2 && r.Intn(2) == 0 {
				f.Values = []string{c08ValidFor(r, info.Fam, info.E), s}
			}
			out = append(out, &c08Case{Kind: "struct", Source: src, Fields: []c08Field{f}, Prepop: r.Intn(2) == 0})
		}
	}
	// bodies of unknown length: every catalogue field x {valid, one past its range, empty, junk} x
	// every body source x {ContentLength -1, -1 + chunked}; a sample of them over a real connection
	for _, info := range infos {
		texts := []string{c08ValidFor(r, info.Fam, info.E), c08Adversarial(r, info.Fam, info.E), "", "abc"}
		if info.Fam == famInt || info.Fam == famUint {
			bits := uint(info.E.Bits())
			if info.Fam == famInt {
				bits--
			}
			texts[1] = new(big.Int).Lsh(big.NewInt(1), bits).String() // 2^bits: one past the range
		}
		switch info.Fam { // a body longer than one read buffer: the numeral only ends after 600 bytes
		case famInt, famUint, famFloat:
			texts = append(texts, strings.Repeat("0", 600)+"5", strings.Repeat("0", 600)+texts[1])
		case famStr, famUnm:
			texts = append(texts, strings.Repeat("ab", 400))
		}
		for _, txt := range texts {
			for _, src := range c08BodySources {
				for _, mode := range []string{"unknown", "chunked"} {
					if r.Intn(c08ServerShare) == 0 {
						mode = "server"
					}
					f := c08Field{Name: info.Name, Values: []string{txt}}
					if info.Wrap >= 2 && r.Intn(2) == 0 {
						f.Values = []string{c08ValidFor(r, info.Fam, info.E), txt}
					}
					out = append(out, &c08Case{Kind: "struct", Source: src, LenMode: mode, Prepop: r.Intn(2) == 0, Fields: []c08Field{f}})
				}
			}
		}
	}
	// pre-populated destinations: every field x {empty, valid text} x every source, and path
	// value followed by an empty / valid query value for the same field
	for _, info := range infos {
		valid := c08ValidFor(r, info.Fam, info.E)
		for _, src := range c08Sources {
			for _, txt := range []string{"", valid} {
				for _, pre := range []bool{true, false} {
					out = append(out, &c08Case{Kind: "struct", Source: src, Prepop: pre, Fields: []c08Field{{Name: info.Name, Values: []string{txt}}}})
				}
			}
		}
		for _, second := range []string{"", valid} {
			for _, pre := range []bool{true, false} {
				out = append(out, &c08Case{Kind: "struct", Source: "param+query", Prepop: pre,
					Fields:  []c08Field{{Name: info.Name, Values: []string{c08ValidFor(r, info.Fam, info.E)}}},
					Fields2: []c08Field{{Name: info.Name, Values: []string{second}}}})
			}
		}
	}
	return out
}

func c08Gen(r *rand.Rand, tier string) []any {
	c08Methods()
	nChains, nStructs, nDec := 4000, 3000, 0
	c08ServerShare = 60
	if tier == "thorough" {
		nChains, nStructs, nDec = 120000, 80000, 2500
		c08ServerShare = 8
	}
	out := c08Probe(r)
	out = append(out, c08CountBlock(r, tier)...)
	for i := 0; i < nChains; i++ {
		out = append(out, c08GenChain(r))
	}
	for i := 0; i < nStructs; i++ {
		out = append(out, c08GenStruct(r))
	}
	// thorough: random decimal strings around every width for every integer destination
	if nDec > 0 {
		_, infos := c08Catalogue()
		for _, mi := range c08Methods() {
			if mi.Fam != famInt && mi.Fam != famUint && mi.Fam != famByte && mi.Fam != famUnix {
				continue
			}
			for i := 0; i < nDec; i++ {
				cl := c08NewCall(r, mi, "", 0)
				cl.Values = []string{c08Adversarial(r, mi.Fam, mi.E)}
				out = append(out, &c08Case{Kind: "vb", FailFast: true, Ops: []c08Op{{Kind: "call", Call: cl}}})
			}
		}
		for _, info := range infos {
			if info.Fam != famInt && info.Fam != famUint {
				continue
			}
			for i := 0; i < nDec; i++ {
				out = append(out, &c08Case{Kind: "struct", Source: c08Sources[r.Intn(len(c08Sources))], Prepop: r.Intn(2) == 0,
					Fields: []c08Field{{Name: info.Name, Values: []string{c08Adversarial(r, info.Fam, info.E)}}}})
			}
		}
	}
	return out
}

// ---------- long value lists ----------

// numbers of values at and just above the round limits an implementation may have for one
// parameter: powers of two, powers of ten, the ranges of uint8 / int16 / uint16 counters
var c08CountEdges = []int{100, 101, 127, 128, 129, 255, 256, 257, 511, 512, 513, 999, 1000, 1001, 1023, 1024, 1025, 2047, 2048, 2049,
	4095, 4096, 4097, 8191, 8192, 8193, 9999, 10000, 10001, 16383, 16384, 16385, 32767, 32768, 32769, 65535, 65536, 65537}

// the edges up to 4097 (cheap enough for every field / method on every run)
var c08SmallEdges = []int{100, 101, 128, 129, 256, 257, 512, 513, 1000, 1001, 1024, 1025, 2048, 2049, 4096, 4097}

// one more than a round limit: the first count at which a clamp to that limit shows
var c08AboveSmall = []int{101, 129, 257, 513, 1001, 1025, 2049, 4097}
var c08AboveLarge = []int{8193, 10001, 16385, 32769, 65537}

// a handful of distinct texts that denote values of element type E (cycled to fill a long list)
func c08PadTexts(r *rand.Rand, fam int, E reflect.Type, layout string) []string {
	var out []string
	seen := map[string]bool{}
	for k := 0; k < 60 && len(out) < 5; k++ {
		var s string
		if fam == famTime {
			s = c08RandTime(r).Format(layout)
		} else {
			s = c08ValidFor(r, fam, E)
		}
		if fam == famUnix {
			s = fmt.Sprint(r.Intn(2000000000))
		}
		if len(s) > 24 || s == "" || seen[s] || strings.Contains(s, ",") {
			continue
		}
		if _, ok := c08DenoteL(fam, E, layout, s); !ok {
			continue
		}
		seen[s] = true
		out = append(out, s)
	}
	if len(out) == 0 {
		switch fam {
		case famBool:
			out = []string{"true"}
		case famTime:
			out = []string{c08RandTime(r).Format(layout)}
		default:
			out = []string{"1"}
		}
	}
	return out
}

// a text that does NOT denote a value of element type E ("" when every text does)
func c08BadText(r *rand.Rand, fam int, E reflect.Type, layout string) string {
	if fam == famStr {
		return ""
	}
	for k := 0; k < 40; k++ {
		s := c08Adversarial(r, fam, E)
		if fam == famTime {
			s = c08TimeTexts[1+r.Intn(len(c08TimeTexts)-1)]
		}
		if s == "" || len(s) > 40 || strings.Contains(s, ",") {
			continue
		}
		if _, ok := c08DenoteL(fam, E, layout, s); !ok {
			return s
		}
	}
	if fam == famUnm {
		return "!x"
	}
	return "x"
}

// deterministic block: the NUMBER of values one destination receives.  Every multi-valued field of
// the catalogue struct (slices, slices of pointers, pointers to slices, UnmarshalParams
// destinations, slices of named kinds) and every slice method / BindWithDelimiter destination /
// CustomFunc of the value binder receives lists whose length sits at and one above the round
// limits (2^k, 10^k, 2^16): all values valid (every one must be stored, in order), or a text that
// does not fit in the LAST position (it must be reported, however long the list before it is).
// Scalar fields receive long lists too (only the first value counts, the rest is never converted).
func c08CountBlock(r *rand.Rand, tier string) []any {
	var out []any
	_, infos := c08Catalogue()
	thorough := tier == "thorough"
	// quick tier: 129, 257, 1001, 1025, 4097 and one count AT a limit for every destination, one count
	// above 8192 (65537 first) for every fourth; thorough: every edge up to 4097, two above 8192
	nLarge := 0
	large := func() int {
		nLarge++
		if nLarge == 1 {
			return 65537
		}
		return c08AboveLarge[r.Intn(len(c08AboveLarge))]
	}
	phase := r.Intn(4)
	pickCounts := func(i int) []int {
		if thorough {
			return append(append([]int(nil), c08SmallEdges...), large(), c08CountEdges[23+r.Intn(len(c08CountEdges)-23)])
		}
		l := []int{129, 257, 1001, 1025, 4097, []int{256, 1024, 4096}[(i+phase)%3]}
		if (i+phase)%4 == 0 {
			l = append(l, large())
		}
		return l
	}
	both := map[int]bool{1025: true, 65537: true}
	srcs := []string{"query", "form", "header", "bind-get", "multipart"}
	lens := []string{"", "unknown", "chunked"}
	k := 0
	for i, info := range infos {
		if info.Wrap < 2 {
			continue
		}
		pad := c08PadTexts(r, info.Fam, info.E, "")
		bad := c08BadText(r, info.Fam, info.E, "")
		for _, n := range pickCounts(i) {
			variants := []bool{(i+n)%2 == 0}
			if both[n] || thorough && n%2 == 1 {
				variants = []bool{false, true}
			}
			for _, wantBad := range variants {
				tail := pad[r.Intn(len(pad))]
				if wantBad {
					if bad == "" {
						continue
					}
					tail = bad
				}
				k++
				src := srcs[k%len(srcs)]
				if src == "multipart" && n > 900 { // mime/multipart refuses forms of more than 1000 parts
					src = srcs[k%4]
				}
				c := &c08Case{Kind: "struct", Source: src, Prepop: k%3 == 0, Fields: []c08Field{{Name: info.Name, Pad: n - 1, PadTexts: pad, Values: []string{tail}}}}
				if src == "form" || src == "multipart" {
					c.LenMode = lens[k%len(lens)]
				}
				out = append(out, c)
			}
		}
	}
	// scalar and pointer fields: many values, only the first is looked at
	for i, info := range infos {
		if info.Wrap >= 2 || i%5 != 0 {
			continue
		}
		pad := c08PadTexts(r, info.Fam, info.E, "")[:1]
		for _, n := range []int{257, 1025, c08AboveLarge[i%len(c08AboveLarge)]} {
			tail := c08BadText(r, info.Fam, info.E, "")
			if tail == "" {
				tail = "other"
			}
			k++
			out = append(out, &c08Case{Kind: "struct", Source: srcs[k%4], Prepop: k%2 == 0,
				Fields: []c08Field{{Name: info.Name, Pad: n - 1, PadTexts: pad, Values: []string{tail}}}})
		}
	}
	// the value binder: slice methods
	binders := []string{"", "form", "", "multipart"}
	nLarge = 0 // (65537 first again)
	for i, mi := range c08Methods() {
		if !mi.Slice {
			continue
		}
		counts := pickCounts(i)
		for _, n := range counts {
			for _, wantBad := range []bool{false, true} {
				if !thorough && !both[n] && wantBad != ((i+n)%2 == 0) {
					continue
				}
				cl := c08NewCall(r, mi, "", 0)
				pad := c08PadTexts(r, mi.Fam, mi.E, cl.Layout)
				tail := pad[r.Intn(len(pad))]
				if wantBad {
					if tail = c08BadText(r, mi.Fam, mi.E, cl.Layout); tail == "" {
						continue
					}
				}
				cl.Values, cl.Pad, cl.PadTexts = []string{tail}, n-1, pad
				k++
				binder := binders[k%len(binders)]
				if binder == "multipart" && n > 900 {
					binder = "form"
				}
				out = append(out, &c08Case{Kind: "vb", FailFast: k%2 == 0, Binder: binder, Ops: []c08Op{{Kind: "call", Call: cl}, {Kind: "binderrors"}}})
			}
		}
	}
	// BindWithDelimiter: many pieces in ONE value, and many values
	nLarge = 0
	for i, el := range c08DelimElems {
		mi, _ := c08DelimDest(el)
		counts := pickCounts(i)
		for j, n := range counts {
			for _, wantBad := range []bool{false, true} {
				if !thorough && !both[n] && wantBad != ((i+j)%2 == 0) {
					continue
				}
				pad := c08PadTexts(r, mi.Fam, mi.E, "")
				tail := pad[r.Intn(len(pad))]
				if wantBad {
					if tail = c08BadText(r, mi.Fam, mi.E, ""); tail == "" {
						continue
					}
				}
				k++
				cl := &c08Call{Method: []string{"BindWithDelimiter", "MustBindWithDelimiter"}[k%2], Elem: el, Delim: []string{",", "|", "ab"}[k%3],
					Values: []string{tail}, Pad: n - 1, PadTexts: pad, PadJoin: (i+j)%3 != 0, InitNil: k%2 == 0}
				if !cl.InitNil {
					cl.Init = []string{}
				}
				out = append(out, &c08Case{Kind: "vb", FailFast: k%2 == 0, Binder: binders[k%2], Ops: []c08Op{{Kind: "call", Call: cl}, {Kind: "binderrors"}}})
			}
		}
	}
	// CustomFunc: the function must receive every value of the parameter
	for i, n := range []int{257, 1025, 4097, c08AboveLarge[r.Intn(5)]} {
		for _, must := range []bool{false, true} {
			for _, tail := range []string{"z", "!z"} {
				out = append(out, &c08Case{Kind: "vb", FailFast: i%2 == 0, Binder: binders[i%2],
					Ops: []c08Op{{Kind: "custom", Custom: &c08Custom{Must: must, Values: []string{tail}, Pad: n - 1, PadTexts: []string{"a", "b", "c"}, InitNil: true}}, {Kind: "binderrors"}}})
			}
		}
	}
	return out
}

// ---------- shrinking ----------

// c08ShrinkPad: smaller pad counts to try — half, three quarters, …, one less
func c08ShrinkPad(n int) []int {
	var out []int
	seen := map[int]bool{n: true}
	for d := 2; n/d > 0; d *= 2 {
		if m := n - n/d; !seen[m] {
			seen[m] = true
			out = append(out, m)
		}
	}
	if n > 0 && !seen[n-1] {
		out = append(out, n-1)
	}
	return out
}

func c08ShorterStrings(s string) []string {
	var out []string
	if len(s) == 0 {
		return nil
	}
	rs := []rune(s)
	seen := map[string]bool{s: true}
	for _, k := range []int{0, len(rs) - 1, len(rs) / 2} {
		if k < 0 || k >= len(rs) {
			continue
		}
		t := string(append(append([]rune{}, rs[:k]...), rs[k+1:]...))
		if !seen[t] {
			seen[t] = true
			out = append(out, t)
		}
	}
	return out
}

func c08CloneCall(cl *c08Call) *c08Call {
	d := *cl
	d.Values = append([]string(nil), cl.Values...)
	if cl.Values == nil {
		d.Values = nil
	}
	d.Init = append([]string(nil), cl.Init...)
	if cl.Init == nil {
		d.Init = nil
	}
	return &d
}

func c08Shrink(ci any) []any {
	c := ci.(*c08Case)
	var out []any
	if c.Kind == "struct" {
		for i := range c.Fields {
			if len(c.Fields) > 1 {
				d := *c
				d.Fields = append(append([]c08Field(nil), c.Fields[:i]...), c.Fields[i+1:]...)
				out = append(out, &d)
			}
		}
		for i, f := range c.Fields {
			for _, m := range c08ShrinkPad(f.Pad) {
				d := *c
				d.Fields = append([]c08Field(nil), c.Fields...)
				nf := f
				nf.Pad = m
				d.Fields[i] = nf
				out = append(out, &d)
			}
			if len(f.PadTexts) > 1 {
				d := *c
				d.Fields = append([]c08Field(nil), c.Fields...)
				nf := f
				nf.PadTexts = f.PadTexts[:1]
				d.Fields[i] = nf
				out = append(out, &d)
			}
			if len(f.Values) > 64 { // a long explicit list: halves first
				for _, half := range [][]string{f.Values[:len(f.Values)/2], f.Values[len(f.Values)/2:], f.Values[:len(f.Values)-1]} {
					d := *c
					d.Fields = append([]c08Field(nil), c.Fields...)
					nf := f
					nf.Values = append([]string(nil), half...)
					d.Fields[i] = nf
					out = append(out, &d)
				}
				continue
			}
			for j := range f.Values {
				if len(f.Values) > 1 {
					d := *c
					d.Fields = append([]c08Field(nil), c.Fields...)
					nf := f
					nf.Values = append(append([]string(nil), f.Values[:j]...), f.Values[j+1:]...)
					d.Fields[i] = nf
					out = append(out, &d)
				}
				for _, t := range c08ShorterStrings(f.Values[j]) {
					d := *c
					d.Fields = append([]c08Field(nil), c.Fields...)
					nf := f
					nf.Values = append([]string(nil), f.Values...)
					nf.Values[j] = t
					d.Fields[i] = nf
					out = append(out, &d)
				}
			}
		}
		for i := range c.Fields2 {
			d := *c
			d.Fields2 = append(append([]c08Field(nil), c.Fields2[:i]...), c.Fields2[i+1:]...)
			out = append(out, &d)
		}
		if c.LenMode != "" {
			d := *c
			d.LenMode = ""
			out = append(out, &d)
			if c.LenMode == "server" || c.LenMode == "chunked" {
				d2 := *c
				d2.LenMode = "unknown"
				out = append(out, &d2)
			}
		}
		if c.Source != "query" && c.Source != "param+query" && c.Source != "json" && c.Source != "xml" {
			d := *c
			d.Source, d.LenMode = "query", ""
			out = append(out, &d)
		}
		if c.Source == "param+query" && len(c.Fields2) == 0 {
			d := *c
			d.Source = "param"
			out = append(out, &d)
		}
		if c.Prepop {
			d := *c
			d.Prepop = false
			out = append(out, &d)
		}
		return out
	}
	for i := range c.Ops {
		if len(c.Ops) > 1 {
			d := *c
			d.Ops = append(append([]c08Op(nil), c.Ops[:i]...), c.Ops[i+1:]...)
			out = append(out, &d)
		}
	}
	if c.ErrFunc != "" {
		d := *c
		d.ErrFunc = ""
		out = append(out, &d)
	}
	if c.ErrFunc == "plain" {
		d := *c
		d.ErrFunc = "nil"
		out = append(out, &d)
	}
	if c.Binder != "" && c.Binder != "path" && !c.Default {
		d := *c
		d.Binder = ""
		out = append(out, &d)
	}
	for i, op := range c.Ops {
		if op.Kind == "custom" && op.Custom != nil {
			for _, m := range c08ShrinkPad(op.Custom.Pad) {
				n := *op.Custom
				n.Pad = m
				d := *c
				d.Ops = append([]c08Op(nil), c.Ops...)
				d.Ops[i] = c08Op{Kind: "custom", Custom: &n}
				out = append(out, &d)
			}
			for j := range op.Custom.Values {
				if len(op.Custom.Values) > 1 {
					n := *op.Custom
					n.Values = append(append([]string(nil), op.Custom.Values[:j]...), op.Custom.Values[j+1:]...)
					d := *c
					d.Ops = append([]c08Op(nil), c.Ops...)
					d.Ops[i] = c08Op{Kind: "custom", Custom: &n}
					out = append(out, &d)
				}
			}
			if op.Custom.Mode != "" {
				n := *op.Custom
				n.Mode = ""
				d := *c
				d.Ops = append([]c08Op(nil), c.Ops...)
				d.Ops[i] = c08Op{Kind: "custom", Custom: &n}
				out = append(out, &d)
			}
		}
		if op.Kind != "call" || op.Call == nil {
			continue
		}
		repl := func(ncl *c08Call) {
			d := *c
			d.Ops = append([]c08Op(nil), c.Ops...)
			d.Ops[i] = c08Op{Kind: "call", Call: ncl}
			out = append(out, &d)
		}
		cl := op.Call
		for _, m := range c08ShrinkPad(cl.Pad) {
			n := c08CloneCall(cl)
			n.Pad = m
			repl(n)
		}
		if len(cl.PadTexts) > 1 {
			n := c08CloneCall(cl)
			n.PadTexts = cl.PadTexts[:1]
			repl(n)
		}
		if len(cl.Values) > 64 {
			for _, half := range [][]string{cl.Values[:len(cl.Values)/2], cl.Values[len(cl.Values)/2:], cl.Values[:len(cl.Values)-1]} {
				n := c08CloneCall(cl)
				n.Values = append([]string(nil), half...)
				repl(n)
			}
			continue
		}
		for j := range cl.Values {
			if len(cl.Values) > 1 {
				n := c08CloneCall(cl)
				n.Values = append(append([]string(nil), cl.Values[:j]...), cl.Values[j+1:]...)
				repl(n)
			}
			for _, t := range c08ShorterStrings(cl.Values[j]) {
				n := c08CloneCall(cl)
				n.Values[j] = t
				repl(n)
			}
		}
		if len(cl.Init) > 1 {
			n := c08CloneCall(cl)
			n.Init = n.Init[:1]
			repl(n)
		}
	}
	return out
}

// neighbours for the failing-input search: swap in boundary strings
func c08Mutate(r *rand.Rand, ci any) []any {
	c := ci.(*c08Case)
	c08InitPool()
	var out []any
	for k := 0; k < 40; k++ {
		s := c08Pool[r.Intn(len(c08Pool))]
		if c.Kind == "struct" {
			if len(c.Fields) == 0 {
				break
			}
			d := *c
			d.Fields = append([]c08Field(nil), c.Fields...)
			i := r.Intn(len(d.Fields))
			nf := d.Fields[i]
			nf.Values = []string{s}
			d.Fields[i] = nf
			out = append(out, &d)
			continue
		}
		var idx []int
		for i, op := range c.Ops {
			if op.Kind == "call" && op.Call != nil {
				idx = append(idx, i)
			}
		}
		if len(idx) == 0 {
			break
		}
		i := idx[r.Intn(len(idx))]
		d := *c
		d.Ops = append([]c08Op(nil), c.Ops...)
		n := c08CloneCall(c.Ops[i].Call)
		n.Values = []string{s}
		d.Ops[i] = c08Op{Kind: "call", Call: n}
		out = append(out, &d)
	}
	return out
}

func init() {
	register(&Prop{
		ID:             "C08",
		Rule:           "probe table: every exported ValueBinder method with signature (string,*T)/(string,*[]T) (enumerated by reflect), every BindWithDelimiter destination and every field of a catalogue struct (17 scalar kinds, pointers, slices, slices of pointers, pointers to slices; sources query/Bind/form/multipart/header/param) x 48 decimal boundaries (±(2^w+{-1,0,1}), w=7,8,15,16,31,32,63,64) and ~170 look-alikes (signs, leading zeros, whitespace, 0x/_/e forms, Unicode digits, 40-digit numbers, float32/64 rounding witnesses, duration limits, empty) and ~210 long numerals (60-300 leading zeros before small values and before every width boundary, sign + zeros, digit strings that overflow only after many zeros, 100-800 digit strings, floats whose value depends on a long mantissa / fraction / exponent tail); value COUNTS: every multi-valued catalogue field, every slice method, every BindWithDelimiter destination (pieces in one value, and separate values) and CustomFunc with lists of 129, 257, 1001, 1025, 4097 values and one count AT a limit (256/1024/4096) on every run, 8193-65537 for every fourth destination (thorough: every edge 100..4097, two above 8192), all valid or with a text that does not fit in the LAST position; scalar fields with 257-65537 values (only the first counts); plus random chains of 2-7 binder ops (calls, FailFast, BindError, BindErrors) and random struct requests of 1-6 fields; non-trivial = a converted text within ±1 of a width boundary or a look-alike of a number, or a call made while the binder already holds an error; distinct = distinct model op lines",
		New:            func() any { return &c08Case{} },
		Gen:            c08Gen,
		Run:            c08Run,
		Shrink:         c08Shrink,
		Mutate:         c08Mutate,
		Tolerable:      c08Tolerable,
		Correspondence: "C08.vbRun / C08.structBind (lean/EchoModel/C08.lean) vs echo.ValueBinder methods and DefaultBinder.Bind*/setWithProperType",
		Extra: func(tier string, seed int64) map[string]any {
			var names []string
			for _, m := range c08Methods() {
				names = append(names, m.Name)
			}
			return map[string]any{"extra_valuebinder_methods_probed": names, "extra_valuebinder_methods_skipped": c08Skipped}
		},
	})
}
