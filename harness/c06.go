package main

// C06 — response bookkeeping equals what was actually sent.
//
// Real code: echo.Response (WriteHeader / Write / Flush / Before / After) and the echo.Context
// response helpers, driven by a handler program through e.ServeHTTP (or e.NewContext) on top
// of a recording http.ResponseWriter that follows net/http's rule.
// Model: lean/EchoModel/C06.lean (runSeqObs: runSnaps per request, reset between requests).

import (
	"bufio"
	"errors"
	"fmt"
	"io"
	"io/fs"
	"log"
	"net"
	"net/http"
	"net/http/httptest"
	"strings"
	"testing/fstest"
	"time"

	"github.com/labstack/echo/v4"
)

type c06Op struct {
	// wh w fl bf af json blob nc redir stream xml jsonp rcfl fefl unwrap copy
	// round 4: jsonpretty jsonpv xmlv xmlpretty render file filefs attach inline hijack
	K      string `json:"k"`
	C      int    `json:"c,omitempty"`
	N      int    `json:"n,omitempty"`
	H      int    `json:"h,omitempty"`
	// bf / af: the hook, EVERY time it runs, itself registers a hook: Sub = "bf" | "af", id SubH
	// (the registered hook is an observer)
	Sub  string `json:"sub,omitempty"`
	SubH int    `json:"subh,omitempty"`
	CT     int    `json:"ct,omitempty"`  // blob: 1 String, 2 HTML, 3 JSONBlob, 7 Blob(image/png)
	Bad    bool   `json:"bad,omitempty"` // json: value that cannot be serialised
	Chunks []int  `json:"chunks,omitempty"`
	RErr   bool   `json:"rerr,omitempty"` // stream: reader ends with an error instead of EOF
	// render: 0 no renderer registered, 1 renderer writes N bytes and fails, 2 renderer writes N bytes
	// file/filefs/attach/inline: 0 the file blob.png (N bytes), 1 a directory with an index.html of
	// N bytes, 2 a directory without index.html, 3 the file exists but the fs.FS hands out files
	// without Seek (fsFile refuses them); Bad = a name that does not exist
	Mode int `json:"mode,omitempty"`
	// round 8: which Response the operation is performed on when the handler's Response is mounted on
	// top of other Responses (c06Case.Nest): 0 = the handler's own (innermost) one, 1 = the one it
	// writes to, ... (clamped to Nest)
	L int `json:"l,omitempty"`
}

type c06Case struct {
	Fresh bool    `json:"fresh"` // true: e.NewContext (Status starts at 0); false: e.ServeHTTP
	Cap   int     `json:"cap"`   // body bytes the underlying writer accepts; <0 = unlimited
	Ops   []c06Op `json:"ops"`
	// the underlying writer also implements io.ReaderFrom, like net/http's connection writer
	// (httptest.ResponseRecorder does not); echo.Response itself has no ReadFrom, so io.Copy
	// into it must still go through Response.Write
	RF bool `json:"rf,omitempty"`
	// the underlying writer has NO Flush method (Response.Flush commits, then panics)
	NF bool `json:"nf,omitempty"`
	// the underlying writer implements http.Hijacker (counts the call, returns a sentinel error)
	HJ bool `json:"hj,omitempty"`
	// the underlying writer also implements io.StringWriter and FlushError() error (so it can
	// flush even without a Flush method: NF is then without effect)
	X bool `json:"x,omitempty"`
	// request URL /?pretty (indent branches of JSON / JSONP / XML)
	Pretty bool `json:"pretty,omitempty"`
	// the underlying writer REFUSES status codes outside 100..999 the way net/http's connection
	// writer and httptest.ResponseRecorder do: the first WriteHeader with such a code panics
	// before anything is recorded or sent.  Without it the writer accepts (and "sends") any code.
	// (Ignored when a program registers a before-hook: see c06Strict.)
	Strict bool `json:"strict,omitempty"`
	// programs of EARLIER requests served before Ops through the same Echo on the same (recycled)
	// context, each on its own fresh recording writer: Fresh=false consecutive e.ServeHTTP calls
	// (sync.Pool hands the context back), Fresh=true e.NewContext once, then c.Reset before each
	// later program
	Prev [][]c06Op `json:"prev,omitempty"`
	// thorough tier: run the program a second time behind a real net/http server and compare
	// what the client receives with Response.Status / Response.Size
	RoundTrip bool `json:"round_trip,omitempty"`
	// round 8: echo mounted inside echo.  Nest further Echo instances sit between the recording writer
	// and the Echo whose handler runs the program; each one hands ITS *echo.Response to the next as
	// the http.ResponseWriter — through echo.WrapHandler(inner) / inner.ServeHTTP(c.Response(), req)
	// (pooled context, Response.reset) or, with Fresh, inner.NewContext(req, c.Response()) and
	// Context.Reset for the later requests.  The clauses of the property are judged on the OUTERMOST
	// Response (the one around the recording writer) and on every other Response that no operation
	// bypasses (no status / body operation addressed to a Response further out).
	Nest int `json:"nest,omitempty"`
	// the levels of the tower are routes of ONE Echo instance ("/", "/l1", "/l2", ...): a handler
	// that re-dispatches with e.ServeHTTP(c.Response(), requestForTheNextRoute) — contexts of one
	// pool nested in each other (Fresh: e.NewContext on the same instance)
	Same bool `json:"same,omitempty"`
}

// ---- events (codes as in C06.encEv) ----
const (
	c06RegB = 1 + iota
	c06RegA
	c06RunB
	c06RunA
	c06Hdr
	c06Impl
	c06Body
	c06RFlush
	c06Warn
)

type c06Ev struct {
	code, arg int
	l         int // hook and warn events: tower index of the Response (0 = the one around the writer)
}

// ---- recording writer: net/http's rule ----
// The core has only the three methods of http.ResponseWriter; Flush / ReadFrom / Hijack are added
// by the method-set structs below so that all 8 combinations exist as distinct dynamic types.
type c06Writer struct {
	h        http.Header
	calls    []int
	out      bool // headers are out
	sent     int  // with this status (any int: the writer accepts every code unless strict)
	strict   bool // refuse codes outside 100..999 like net/http
	sentCT   int
	sentLoc  bool
	sentDisp int // Content-Disposition in the header map at send time: 0 none, 1 attachment, 2 inline
	body     int
	flushes  int
	hijacks  int
	cap      int
	trace    *[]c06Ev
}

type c06mF struct{ w *c06Writer }
type c06mR struct{ w *c06Writer }
type c06mH struct{ w *c06Writer }

// the two further optional interfaces net/http's connection writer offers: io.StringWriter
// (probed by io.WriteString, and through it by strings.Reader.WriteTo inside io.Copy) and the
// FlushError convention (preferred over Flush by http.ResponseController)
type c06mX struct{ w *c06Writer }

func (m c06mX) WriteString(s string) (int, error) { return m.w.Write([]byte(s)) }
func (m c06mX) FlushError() error                 { m.w.flush(); return nil }

func (m c06mF) Flush()                                { m.w.flush() }
func (m c06mR) ReadFrom(src io.Reader) (int64, error) { return m.w.readFrom(src) }
func (m c06mH) Hijack() (net.Conn, *bufio.ReadWriter, error) {
	m.w.hijacks++
	return nil, nil, errC06Hijack
}

var errC06Hijack = errors.New("recording writer: no connection to hand out")

// c06Under wraps the recording core into a writer with exactly the requested optional interfaces
// (x = io.StringWriter + FlushError, like net/http's connection writer has); all 16 combinations
// are distinct dynamic types (generated)
func c06Under(w *c06Writer, fl, rf, hj, x bool) http.ResponseWriter {
	f, r, h, xx := c06mF{w}, c06mR{w}, c06mH{w}, c06mX{w}
	_, _, _, _ = f, r, h, xx
	switch {
	case fl && rf && hj && x:
		return struct {
			*c06Writer
			c06mF
			c06mR
			c06mH
			c06mX
		}{w, f, r, h, xx}
	case fl && rf && hj:
		return struct {
			*c06Writer
			c06mF
			c06mR
			c06mH
		}{w, f, r, h}
	case fl && rf && x:
		return struct {
			*c06Writer
			c06mF
			c06mR
			c06mX
		}{w, f, r, xx}
	case fl && hj && x:
		return struct {
			*c06Writer
			c06mF
			c06mH
			c06mX
		}{w, f, h, xx}
	case rf && hj && x:
		return struct {
			*c06Writer
			c06mR
			c06mH
			c06mX
		}{w, r, h, xx}
	case fl && rf:
		return struct {
			*c06Writer
			c06mF
			c06mR
		}{w, f, r}
	case fl && hj:
		return struct {
			*c06Writer
			c06mF
			c06mH
		}{w, f, h}
	case fl && x:
		return struct {
			*c06Writer
			c06mF
			c06mX
		}{w, f, xx}
	case rf && hj:
		return struct {
			*c06Writer
			c06mR
			c06mH
		}{w, r, h}
	case rf && x:
		return struct {
			*c06Writer
			c06mR
			c06mX
		}{w, r, xx}
	case hj && x:
		return struct {
			*c06Writer
			c06mH
			c06mX
		}{w, h, xx}
	case fl:
		return struct {
			*c06Writer
			c06mF
		}{w, f}
	case rf:
		return struct {
			*c06Writer
			c06mR
		}{w, r}
	case hj:
		return struct {
			*c06Writer
			c06mH
		}{w, h}
	case x:
		return struct {
			*c06Writer
			c06mX
		}{w, xx}
	}
	return w
}

// readFrom: io.ReaderFrom of the recording writer: it drains the source into itself, one recorded
// body write per read, like net/http's (*response).ReadFrom does via io.Copy.
func (w *c06Writer) readFrom(src io.Reader) (int64, error) {
	buf := make([]byte, 32*1024)
	var total int64
	for {
		n, rerr := src.Read(buf)
		if n > 0 {
			k, werr := w.Write(buf[:n])
			total += int64(k)
			if werr != nil {
				return total, werr
			}
		}
		if rerr == io.EOF {
			return total, nil
		}
		if rerr != nil {
			return total, rerr
		}
	}
}

var errC06Short = errors.New("underlying writer: capacity exhausted")
var errC06Reader = errors.New("stream source failed")

func c06CTid(v string) int {
	if i := strings.IndexByte(v, ';'); i >= 0 {
		v = v[:i]
	}
	switch strings.ToLower(strings.TrimSpace(v)) {
	case "":
		return 0
	case "text/plain":
		return 1
	case "text/html":
		return 2
	case "application/json":
		return 3
	case "application/javascript":
		return 4
	case "application/xml":
		return 5
	case "application/octet-stream":
		return 6
	case "image/png":
		return 7
	}
	return 99
}

func (w *c06Writer) send(code int) {
	w.out, w.sent = true, code
	w.sentCT = c06CTid(w.h.Get("Content-Type"))
	w.sentLoc = w.h.Get("Location") != ""
	w.sentDisp = c06DispID(w.h.Get("Content-Disposition"))
}

func c06DispID(v string) int {
	switch {
	case v == "":
		return 0
	case strings.HasPrefix(v, "attachment; filename="):
		return 1
	case strings.HasPrefix(v, "inline; filename="):
		return 2
	}
	return 99
}
func (w *c06Writer) Header() http.Header { return w.h }
func (w *c06Writer) WriteHeader(code int) {
	if w.strict && !w.out && c06Invalid(code) {
		// net/http: checkWriteHeaderCode, first thing after the "already wrote" check
		panic(fmt.Sprintf("invalid WriteHeader code %v", code))
	}
	w.calls = append(w.calls, code)
	*w.trace = append(*w.trace, c06Ev{code: c06Hdr, arg: c06Enc(code)})
	if !w.out {
		w.send(code)
	}
}

func c06Invalid(code int) bool { return code < 100 || code > 999 }

// status codes on the wire to the model are naturals: a negative code -k travels as 1000000+k
// (for the model a code is opaque apart from 0 = "no pending status", 300..308 for Redirect
// and 100..999 = accepted by a refusing writer)
func c06Enc(code int) int {
	if code < 0 {
		return 1000000 - code
	}
	return code
}
func wCode(code int) string { return wInt(c06Enc(code)) }

// a refusing writer is combined only with programs that register no before-hook: with one,
// the hook runs before the refused WriteHeader and again before the next commit (see
// DELIVERY-r5, observation), which the hook clause of the property would report
func c06Strict(c *c06Case) bool {
	if !c.Strict {
		return false
	}
	for _, ops := range c06Programs(c) {
		for _, o := range ops {
			if o.K == "bf" {
				return false
			}
		}
	}
	return true
}
func (w *c06Writer) implicit() {
	if !w.out {
		w.send(200)
		*w.trace = append(*w.trace, c06Ev{code: c06Impl})
	}
}
func (w *c06Writer) Write(b []byte) (int, error) {
	w.implicit()
	acc := len(b)
	if w.cap >= 0 && acc > w.cap-w.body {
		acc = w.cap - w.body
	}
	w.body += acc
	*w.trace = append(*w.trace, c06Ev{code: c06Body, arg: acc})
	if acc < len(b) {
		return acc, errC06Short
	}
	return acc, nil
}
func (w *c06Writer) flush() {
	w.implicit()
	w.flushes++
	*w.trace = append(*w.trace, c06Ev{code: c06RFlush})
}

// ---- recording logger ----
type c06Logger struct {
	echo.Logger
	trace *[]c06Ev
	n     int
	layer int         // tower index of the Echo this logger belongs to
	root  *c06Logger // the loggers of a tower count and record into the outermost one
}

func (l *c06Logger) warn() {
	t := l
	if l.root != nil {
		t = l.root
	}
	t.n++
	*t.trace = append(*t.trace, c06Ev{c06Warn, 0, l.layer})
}
func (l *c06Logger) Warn(i ...interface{})                    { l.warn() }
func (l *c06Logger) Warnf(format string, args ...interface{}) { l.warn() }

type c06Reader struct {
	chunks []int
	rerr   bool
}

func (r *c06Reader) Read(b []byte) (int, error) {
	if len(r.chunks) == 0 {
		if r.rerr {
			return 0, errC06Reader
		}
		return 0, io.EOF
	}
	n := r.chunks[0]
	r.chunks = r.chunks[1:]
	if n > len(b) {
		n = len(b)
	}
	for i := 0; i < n; i++ {
		b[i] = 'x'
	}
	return n, nil
}

type c06Snap struct {
	committed                                        bool
	status, size, ncalls, sent, body, flushes, warns int
	retN                                             int
	retErr                                           bool
}

// sizes the reductions of the model are valid for: xml.Encoder buffers 4096 bytes (one write for
// small values), io.CopyN copies through a 32 KiB buffer (one write for small files)
func c06XMLn(o c06Op) int {
	if o.N > 1000 {
		return 1000
	}
	return o.N
}
func c06FileN(o c06Op) int {
	if o.N > 32768 {
		return 32768
	}
	return o.N
}

func c06IsFile(k string) bool { return k == "file" || k == "filefs" || k == "attach" || k == "inline" }

func c06FileFound(o c06Op) bool { return !o.Bad && o.Mode != 2 && o.Mode != 3 }

// can the underlying writer be flushed at all (by http.ResponseController)?
func c06NoFlush(c *c06Case) bool { return c.NF && !c.X }

func c06IsFlush(k string) bool { return k == "fl" || k == "rcfl" || k == "fefl" }

func c06ModelOp(o c06Op) string {
	switch o.K {
	case "wh":
		return wJoin("1", wCode(o.C))
	case "w":
		return wJoin("2", wInt(o.N))
	case "fl":
		return "3"
	case "bf":
		return wJoin("4", wInt(o.H))
	case "af":
		return wJoin("5", wInt(o.H))
	case "json", "jsonpretty":
		return wJoin("6", wCode(o.C), wInt(o.N), wBool(!o.Bad))
	case "blob":
		return wJoin("7", wCode(o.C), wInt(o.CT), wInt(o.N))
	case "nc":
		return wJoin("8", wCode(o.C))
	case "redir":
		return wJoin("9", wCode(o.C))
	case "stream":
		p := []string{"10", wCode(o.C), wInt(len(o.Chunks))}
		for _, c := range o.Chunks {
			p = append(p, wInt(c))
		}
		p = append(p, wBool(o.RErr))
		return strings.Join(p, " ")
	case "xml":
		return wJoin("11", wCode(o.C), wInt(o.N))
	case "jsonp":
		return wJoin("12", wCode(o.C), wInt(o.H), wInt(o.N))
	case "rcfl":
		return "13"
	case "fefl":
		return "14"
	case "unwrap":
		return "15"
	case "wstr":
		// io.WriteString(resp, s): echo.Response has no WriteString, so it is Response.Write (C06_writeString_is_write)
		return wJoin("22", wInt(o.N))
	case "copywt":
		// io.Copy from a source WITH WriteTo (strings.Reader: one io.WriteString of everything,
		// nothing for an empty source): for the Response one Write
		return wJoin("23", wInt(o.N))
	case "copy":
		p := []string{"16", wInt(len(o.Chunks))}
		for _, c := range o.Chunks {
			p = append(p, wInt(c))
		}
		p = append(p, wBool(o.RErr))
		return strings.Join(p, " ")
	case "jsonpv":
		return wJoin("17", wCode(o.C), wInt(o.H), wInt(o.N), wBool(!o.Bad))
	case "xmlv", "xmlpretty":
		return wJoin("18", wCode(o.C), wInt(c06XMLn(o)), wBool(!o.Bad))
	case "render":
		return wJoin("19", wCode(o.C), wInt(o.N), wBool(o.Mode == 2))
	case "file", "filefs", "attach", "inline":
		disp := map[string]int{"attach": 1, "inline": 2}[o.K]
		ct := 7
		if o.Mode == 1 {
			ct = 2 // index.html
		}
		return wJoin("20", wBool(c06FileFound(o)), wInt(c06FileN(o)), wInt(disp), wInt(ct))
	case "hijack":
		return "21"
	}
	return "0"
}

// does the op carry a status code that reaches Response (a "status write")?
func c06CarriesStatus(o c06Op) bool {
	switch o.K {
	case "wh", "json", "jsonpretty", "blob", "nc", "stream", "xml", "jsonp", "jsonpv", "xmlv", "xmlpretty":
		return true
	case "redir":
		return o.C >= 300 && o.C <= 308
	case "render":
		return o.Mode == 2
	case "file", "filefs", "attach", "inline":
		return c06FileFound(o) // http.ServeContent's WriteHeader(200)
	}
	return false
}

// may the op make the headers go out, and with which status?  `pending` is the status the
// PROGRAM OF THIS REQUEST has preset so far (tracked by the harness from the program text, not read
// from Response.Status): 0 = none.
func c06ExpectedFirstStatus(o c06Op, pending int) (int, bool) {
	switch o.K {
	case "w", "fl", "rcfl", "fefl", "copy", "wstr", "copywt":
		// (a copy of an empty source need not send anything; IF it sends, then the pending status)
		if pending == 0 {
			return 200, true
		}
		return pending, true
	case "json", "jsonpretty":
		if o.Bad {
			return 0, false
		}
		if o.C == 0 {
			return 200, true // the preset 0 is "no status": Write turns it into 200
		}
		return o.C, true
	case "bf", "af", "unwrap", "hijack":
		return 0, false
	case "file", "filefs", "attach", "inline":
		if c06FileFound(o) {
			return 200, true
		}
		return 0, false
	}
	if c06CarriesStatus(o) {
		return o.C, true
	}
	return 0, false
}

// the hook / ordering clauses of the property as a scanner over the recorded events
// (same automaton as C06H.Scan.next in lean/EchoProofs/C06Hooks.lean, which is C06.Scan.next of
// lean/EchoProofs/C06.lean plus registrations while hooks run; no model involved)
func c06ScanTrace(tr []c06Ev) string {
	var bef, aft []int
	const (
		idle = iota
		running
		out
	)
	ph := idle
	var rest []int // running: before-hooks still to run; out: after-hooks still to run
	for i, e := range tr {
		bad := func(msg string) string { return fmt.Sprintf("event %d: %s", i, msg) }
		switch e.code {
		case c06RegB:
			// a hook may register hooks while hooks are running: the round in progress is not
			// affected (Go reads the slice once), later rounds / body writes see the new hook
			bef = append(bef, e.arg)
		case c06RegA:
			aft = append(aft, e.arg)
		case c06RunB:
			if ph == idle {
				ph, rest = running, append([]int(nil), bef...)
			}
			if ph != running {
				return bad(fmt.Sprintf("before-hook %d ran after the headers went out (or a second time)", e.arg))
			}
			if len(rest) == 0 || rest[0] != e.arg {
				return bad(fmt.Sprintf("before-hook %d ran out of turn / more than once", e.arg))
			}
			rest = rest[1:]
		case c06Hdr:
			if ph == idle {
				ph, rest = running, append([]int(nil), bef...)
			}
			if ph != running {
				return bad(fmt.Sprintf("underlying writer received a second WriteHeader(%d) after the headers went out", e.arg))
			}
			if len(rest) != 0 {
				return bad(fmt.Sprintf("headers went out before before-hook %d ran", rest[0]))
			}
			ph, rest = out, nil
		case c06Impl:
			return bad("the underlying writer had to send an implicit 200: echo wrote/flushed without committing")
		case c06Body:
			if ph != out || len(rest) != 0 {
				return bad("body write before the headers went out or while after-hooks were pending")
			}
			rest = append([]int(nil), aft...)
		case c06RunA:
			if ph != out || len(rest) == 0 || rest[0] != e.arg {
				return bad(fmt.Sprintf("after-hook %d ran without a preceding body write / out of turn", e.arg))
			}
			rest = rest[1:]
		case c06RFlush:
			if ph != out || len(rest) != 0 {
				return bad("flush reached the underlying writer before the headers were committed")
			}
		case c06Warn:
			if ph != out || len(rest) != 0 {
				return bad("'already committed' logged although the headers are not out (or between a body write and its after-hooks)")
			}
		}
	}
	if ph == running || (ph == out && len(rest) != 0) {
		if ph == running {
			return "before-hooks started but the headers never went out"
		}
		return fmt.Sprintf("after-hook %d did not run after the last body write", rest[0])
	}
	return ""
}

// c06Env: the Echo instance of a case with what the helpers need around it
type c06Env struct {
	e   *echo.Echo
	mfs fstest.MapFS
}

func c06NewEnv() *c06Env {
	env := &c06Env{e: echo.New(), mfs: fstest.MapFS{}}
	env.e.Filesystem = env.mfs
	return env
}

// c06NoSeekFS hands out files that are no io.ReadSeeker (only fs.File's three methods are promoted)
type c06NoSeekFS struct{ fs.FS }

func (f c06NoSeekFS) Open(name string) (fs.File, error) {
	file, err := f.FS.Open(name)
	if err != nil {
		return nil, err
	}
	return struct{ fs.File }{file}, nil
}

type c06Renderer struct {
	n    int
	fail bool
}

var errC06Render = errors.New("renderer failed")

func (t c06Renderer) Render(w io.Writer, name string, data interface{}, c echo.Context) error {
	w.Write(make([]byte, t.n))
	if t.fail {
		return errC06Render
	}
	return nil
}

var errC06Panic = errors.New("the operation panicked")

// c06Exec performs one operation of a handler program on the real echo.Context; a panic is
// recovered per step (like the Recover middleware would for the whole handler) and handed back
func c06Exec(env *c06Env, ctx echo.Context, given http.ResponseWriter, o c06Op, onBefore, onAfter func(h int), onReg func(code, h int)) (retN int, err error, panicked any) {
	defer func() {
		if p := recover(); p != nil {
			panicked, err = p, errC06Panic
		}
	}()
	r := ctx.Response()
	switch o.K {
	case "wh":
		r.WriteHeader(o.C)
	case "w":
		retN, err = r.Write(make([]byte, o.N))
	case "fl":
		r.Flush()
	case "bf", "af":
		h, sub, subH := o.H, o.Sub, o.SubH
		child := func() { // what the hook does beyond being seen: register a hook of its own
			switch sub {
			case "bf":
				onReg(c06RegB, subH)
				r.Before(func() { onBefore(subH) })
			case "af":
				onReg(c06RegA, subH)
				r.After(func() { onAfter(subH) })
			}
		}
		if o.K == "bf" {
			onReg(c06RegB, h)
			r.Before(func() { onBefore(h); child() })
		} else {
			onReg(c06RegA, h)
			r.After(func() { onAfter(h); child() })
		}
	case "json", "jsonpretty", "jsonpv", "xmlv", "xmlpretty":
		var v interface{} = make(chan int)
		if !o.Bad {
			n := o.N
			if o.K == "xmlv" || o.K == "xmlpretty" {
				n = c06XMLn(o)
			}
			v = strings.Repeat("a", n)
		}
		switch o.K {
		case "json":
			err = ctx.JSON(o.C, v)
		case "jsonpretty":
			err = ctx.JSONPretty(o.C, v, "  ")
		case "jsonpv":
			err = ctx.JSONP(o.C, strings.Repeat("f", o.H), v)
		case "xmlv":
			err = ctx.XML(o.C, v)
		case "xmlpretty":
			err = ctx.XMLPretty(o.C, v, "  ")
		}
	case "blob":
		b := make([]byte, o.N)
		switch o.CT {
		case 1:
			err = ctx.String(o.C, string(b))
		case 2:
			err = ctx.HTML(o.C, string(b))
		case 3:
			err = ctx.JSONBlob(o.C, b)
		default:
			err = ctx.Blob(o.C, "image/png", b)
		}
	case "nc":
		err = ctx.NoContent(o.C)
	case "redir":
		err = ctx.Redirect(o.C, "/elsewhere")
	case "stream":
		err = ctx.Stream(o.C, "application/octet-stream", &c06Reader{chunks: append([]int(nil), o.Chunks...), rerr: o.RErr})
	case "xml":
		err = ctx.XMLBlob(o.C, make([]byte, o.N))
	case "jsonp":
		err = ctx.JSONPBlob(o.C, strings.Repeat("f", o.H), make([]byte, o.N))
	case "rcfl":
		// what net/http itself and handlers written against Go >= 1.20 do
		err = http.NewResponseController(r).Flush()
	case "fefl":
		// the error-returning flush convention, if the writer offers it
		var rw http.ResponseWriter = r
		if fe, ok := rw.(interface{ FlushError() error }); ok {
			err = fe.FlushError()
		} else {
			r.Flush()
		}
	case "unwrap":
		// (given == nil: the caller does not know the writer; then at least Unwrap() == Writer)
		if r.Unwrap() != r.Writer || (given != nil && r.Unwrap() != given) {
			err = errC06Unwrap
		}
	case "wstr":
		// probes the Response for io.StringWriter
		retN, err = io.WriteString(r, strings.Repeat("x", o.N))
	case "copywt":
		// a source WITH WriteTo: io.Copy hands the Response to strings.Reader.WriteTo, which
		// probes it for io.StringWriter
		_, err = io.Copy(r, strings.NewReader(strings.Repeat("x", o.N)))
	case "copy":
		// a source without WriteTo: io.Copy looks for io.ReaderFrom on the destination
		_, err = io.Copy(r, &c06Reader{chunks: append([]int(nil), o.Chunks...), rerr: o.RErr})
	case "render":
		switch o.Mode {
		case 0:
			env.e.Renderer = nil
		case 1:
			env.e.Renderer = c06Renderer{n: o.N, fail: true}
		default:
			env.e.Renderer = c06Renderer{n: o.N}
		}
		err = ctx.Render(o.C, "t", nil)
	case "file", "filefs", "attach", "inline":
		for k := range env.mfs {
			delete(env.mfs, k)
		}
		data := make([]byte, c06FileN(o))
		name := "blob.png"
		switch o.Mode {
		case 0:
			env.mfs["blob.png"] = &fstest.MapFile{Data: data}
		case 1:
			env.mfs["dir/index.html"] = &fstest.MapFile{Data: data}
			name = "dir"
		case 2:
			env.mfs["dir/other.png"] = &fstest.MapFile{Data: data}
			name = "dir"
		default:
			env.mfs["blob.png"] = &fstest.MapFile{Data: data}
		}
		if o.Bad {
			name = "missing.png"
		}
		var fsys fs.FS = env.mfs
		if o.Mode == 3 {
			fsys = c06NoSeekFS{env.mfs}
		}
		env.e.Filesystem = fsys
		switch o.K {
		case "file":
			err = ctx.File(name)
		case "filefs":
			// Context.FileFS is a method of the concrete context (not of the interface); the
			// exported route handler echo.StaticFileHandler lands in the same fsFile
			if f, ok := ctx.(interface {
				FileFS(string, fs.FS) error
			}); ok && o.N%2 == 0 {
				err = f.FileFS(name, fsys)
			} else {
				err = echo.StaticFileHandler(name, fsys)(ctx)
			}
		case "attach":
			err = ctx.Attachment(name, "a\"b.png")
		case "inline":
			err = ctx.Inline(name, "a\"b.png")
		}
	case "hijack":
		_, _, err = r.Hijack()
	}
	return
}

var errC06Unwrap = errors.New("Unwrap does not hand out the wrapped writer")

func c06Target(c *c06Case) string {
	if c.Pretty {
		return "/?pretty"
	}
	return "/"
}

// c06RoundTrip runs the program behind a real net/http server: the status the client receives
// must be Response.Status and the body length Response.Size (net/http drops bodies of
// 204/304 responses: then Write reports 0 bytes written and Size must say so too).
func c06RoundTrip(c *c06Case) string {
	for _, o := range c.Ops {
		if o.C >= 100 && o.C <= 199 {
			// net/http sends 1xx as informational headers and a final status afterwards; the
			// comparison "client status == Response.Status" is meaningless there
			return ""
		}
		if c06CarriesStatus(o) && c06Invalid(o.C) {
			// net/http refuses the code with a panic: the connection is torn down
			return ""
		}
		if o.K == "hijack" {
			// on a real connection Hijack really takes the connection away from net/http
			return ""
		}
	}
	nest := c06NestOf(c)
	var committed bool
	var status int
	var size int64
	done := make(chan struct{})
	// after-hooks run after each body write: so once an after-hook is registered, the last run
	// of an after-hook has seen every byte written since (the real connection writer implements
	// io.ReaderFrom, which is where a copy fast path would bypass Response.Write)
	afterReg, afterRuns := false, 0
	var sizeAtReg, sizeAtLastRun int64
	// with Nest > 0 the program runs in an Echo mounted inside nest others; what the client gets
	// is compared with the OUTERMOST Response (the one around net/http's writer)
	pos := 0
	tw := c06NewTower(nest, c.Same && nest > 0, c06Target(c), func(tw *c06TowerT, level int) {
		r := tw.ctxs[0].Response()
		for c06RunsHere(c.Ops, pos, level, nest) {
			o := c.Ops[pos]
			pos++
			ot := c06TowerIndex(o, nest)
			c06Exec(tw.envs[ot], tw.ctxs[ot], nil, o, func(int) {},
				func(int) { afterRuns++; sizeAtLastRun = r.Size },
				func(code, _ int) {
					if code == c06RegA && !afterReg {
						afterReg, sizeAtReg = true, r.Size
					}
				})
		}
		if level == nest {
			committed, status, size = r.Committed, r.Status, r.Size
			close(done)
		}
	})
	for _, env := range tw.envs {
		env.e.Logger.SetOutput(io.Discard)
	}
	srv := httptest.NewUnstartedServer(tw.envs[0].e)
	srv.Config.ErrorLog = log.New(io.Discard, "", 0)
	srv.Start()
	defer srv.Close()
	// the server's own client/transport: Server.Close of a concurrently running case closes the
	// idle connections of http.DefaultTransport
	client := srv.Client()
	client.CheckRedirect = func(*http.Request, []*http.Request) error { return http.ErrUseLastResponse }
	resp, err := client.Get(srv.URL + c06Target(c))
	if err != nil {
		return fmt.Sprintf("real server: no response: %v", err)
	}
	defer resp.Body.Close()
	body, _ := io.ReadAll(resp.Body)
	select { // a bodiless response reaches the client before the handler has returned
	case <-done:
	case <-time.After(10 * time.Second):
		return "real server: the handler did not finish (panic after the response started?)"
	}
	want := 200 // a handler that never commits: net/http sends its own 200
	if committed {
		want = status
	}
	if resp.StatusCode != want {
		return fmt.Sprintf("real server: client received status %d, Response says Committed=%v Status=%d", resp.StatusCode, committed, status)
	}
	if int64(len(body)) != size {
		return fmt.Sprintf("real server: client received %d body bytes, Response.Size=%d (status %d)", len(body), size, resp.StatusCode)
	}
	if nest == 0 && afterReg && size > sizeAtReg && (afterRuns == 0 || sizeAtLastRun != size) {
		return fmt.Sprintf("real server: %d body bytes were written after an after-hook was registered (at Size=%d) but the last of %d after-hook runs saw Size=%d", size-sizeAtReg, sizeAtReg, afterRuns, sizeAtLastRun)
	}
	return ""
}

// what was recorded for one request of a case
type c06Req struct {
	w       *c06Writer
	trace   []c06Ev
	snaps   []c06Snap
	hookMsg string // what a hook saw at the moment it ran, if that was wrong
	minT    int    // smallest tower index a status / body operation of the request was addressed to
	// while the request runs: the Responses mounted so far (index = tower index), the next operation,
	// per Response the status preset by an uncommitted JSON / JSONPretty (0 = none: 200 goes out), the
	// Content-Disposition put into the header map by Attachment / Inline
	resp        []*echo.Response
	pos         int
	pend        []int
	pendingDisp int
}

func c06Programs(c *c06Case) [][]c06Op {
	return append(append([][]c06Op(nil), c.Prev...), c.Ops)
}

// the events of the tower a Response at tower index t can be held responsible for: its own hook
// and warn events, and everything the recording writer saw
func c06LayerTrace(tr []c06Ev, t int) []c06Ev {
	var out []c06Ev
	for _, e := range tr {
		switch e.code {
		case c06RegB, c06RegA, c06RunB, c06RunA:
			if e.l != t {
				continue
			}
		case c06Warn:
			// (l == -1: the levels share one logger.  A warning of ANOTHER judged Response fits in
			// anyway: whoever warns is committed, so everything below is, and no Response warns
			// between a body write and its after-hooks)
			if e.l != t && e.l != -1 {
				continue
			}
		}
		out = append(out, e)
	}
	return out
}

func c06NestOf(c *c06Case) int {
	if c.Nest < 0 {
		return 0
	}
	if c.Nest > 3 {
		return 3
	}
	return c.Nest
}

// tower index (0 = the Response around the recording writer, nest = the handler's own) of the
// Response an operation addresses
func c06TowerIndex(o c06Op, nest int) int {
	l := o.L
	if l < 0 {
		l = 0
	}
	if l > nest {
		l = nest
	}
	return nest - l
}

func c06IsHookOp(o c06Op) bool { return o.K == "bf" || o.K == "af" }

// c06Tower: nest+1 Echo instances, instance t+1 mounted in the route "/" of instance t — through
// echo.WrapHandler (even t) or a direct ServeHTTP(c.Response(), c.Request()) (odd t) — so that
// the Response of instance t is the http.ResponseWriter of instance t+1.  The handler of
// instance t first calls body(tw, t) — the part of the program the application at that level
// runs BEFORE it hands the request on (a middleware that writes, then calls next) — and then
// mounts instance t+1; the innermost one runs the rest.  Contexts: index = tower index.
type c06TowerT struct {
	envs []*c06Env
	ctxs []echo.Context
}

func c06NewTower(nest int, same bool, target string, body func(tw *c06TowerT, level int)) *c06TowerT {
	tw := &c06TowerT{envs: make([]*c06Env, nest+1), ctxs: make([]echo.Context, nest+1)}
	for t := range tw.envs {
		if same && t > 0 {
			tw.envs[t] = tw.envs[0]
		} else {
			tw.envs[t] = c06NewEnv()
		}
	}
	for t := range tw.envs {
		t := t
		path := "/"
		if same && t > 0 {
			path = fmt.Sprintf("/l%d", t)
		}
		tw.envs[t].e.GET(path, func(ctx echo.Context) error {
			tw.ctxs[t] = ctx
			body(tw, t)
			switch {
			case t == nest:
			case same:
				next := httptest.NewRequest(http.MethodGet, fmt.Sprintf("/l%d", t+1)+strings.TrimPrefix(target, "/"), nil)
				tw.envs[0].e.ServeHTTP(ctx.Response(), next)
			case t%2 == 0:
				return echo.WrapHandler(tw.envs[t+1].e)(ctx)
			default:
				tw.envs[t+1].e.ServeHTTP(ctx.Response(), ctx.Request())
			}
			return nil
		})
	}
	return tw
}

// the operations the application at tower level `level` performs before it hands the request on:
// those from position pos on that are addressed to its own Response or one further out; the
// innermost application performs all that is left
func c06RunsHere(ops []c06Op, pos, level, nest int) bool {
	return pos < len(ops) && (level == nest || c06TowerIndex(ops[pos], nest) <= level)
}

func c06Run(ci any) (res Result) {
	c := ci.(*c06Case)
	progs := c06Programs(c)
	nest := c06NestOf(c)
	reqs := make([]*c06Req, len(progs))
	strict := c06Strict(c)
	cur := 0
	oracle := ""
	tags := map[string]bool{}
	opsAfterCommit := 0
	carried := false // an earlier request left something behind that the reset has to clear
	var lg *c06Logger
	given := make([]http.ResponseWriter, nest+1) // the writer each Response of the tower was handed

	body := func(tw *c06TowerT, level int) {
		ri := cur
		rq, w, ops := reqs[ri], reqs[ri].w, progs[ri]
		fail := func(i int, msg string) {
			if oracle == "" {
				if len(progs) > 1 {
					oracle = fmt.Sprintf("request %d of %d, step %d (%s): %s", ri+1, len(progs), i, ops[i].K, msg)
				} else {
					oracle = fmt.Sprintf("step %d (%s): %s", i, ops[i].K, msg)
				}
			}
		}
		// the Response of this level has just been (re)set on top of the one further out
		rq.resp = append(rq.resp[:level], tw.ctxs[level].Response())
		if level > 0 {
			given[level] = rq.resp[level-1]
		}
		if r := rq.resp[level]; ri > 0 && (r.Committed || r.Size != 0) && oracle == "" {
			oracle = fmt.Sprintf("request %d of %d starts with Committed=%v Size=%d on the recycled context%s", ri+1, len(progs), r.Committed, r.Size, c06LayerName(level, nest))
		}
		resp := rq.resp // the Responses mounted so far
		// rq.pend / rq.pendingDisp: what THIS request's program has asked for so far, read off the program text alone
		// rq.minT: a Response is judged in full as long as no status / body operation went to a Response
		// further out (which it cannot know about); the outermost one always is
		pend := rq.pend
		type prevT struct {
			committed    bool
			status, size int
		}
		for c06RunsHere(ops, rq.pos, level, nest) {
			i, o := rq.pos, ops[rq.pos]
			rq.pos++
			ot := c06TowerIndex(o, nest)
			if !c06IsHookOp(o) && ot < rq.minT {
				rq.minT = ot
			}
			minT := rq.minT
			prev := make([]prevT, len(resp))
			for t, r := range resp {
				prev[t] = prevT{r.Committed, r.Status, int(r.Size)}
			}
			prevOut, prevSent, prevCalls, prevBody, prevWarns := w.out, w.sent, len(w.calls), w.body, lg.n
			prevFlushes, prevHijacks := w.flushes, w.hijacks
			if !prevOut {
				switch o.K {
				case "attach":
					rq.pendingDisp = 1
				case "inline":
					rq.pendingDisp = 2
				}
			}
			pendingDisp := rq.pendingDisp
			rl := resp[ot]
			retN, err, panicked := c06Exec(tw.envs[ot], tw.ctxs[ot], given[ot], o,
				// a hook records itself in the request DURING WHICH it runs (a hook that survived a
				// reset shows up in the later request's recording, where nothing registered it)
				func(h int) {
					cq := reqs[cur]
					cq.trace = append(cq.trace, c06Ev{c06RunB, h, ot})
					// (a Response that an operation went around cannot know that the headers are out)
					if (rl.Committed || (cq.w.out && ot <= cq.minT)) && cq.hookMsg == "" {
						cq.hookMsg = fmt.Sprintf("before-hook %d%s ran with Committed=%v, headers out=%v", h, c06LayerName(ot, nest), rl.Committed, cq.w.out)
					}
				},
				func(h int) {
					cq := reqs[cur]
					cq.trace = append(cq.trace, c06Ev{c06RunA, h, ot})
					if (!rl.Committed || !cq.w.out) && cq.hookMsg == "" {
						cq.hookMsg = fmt.Sprintf("after-hook %d%s ran with Committed=%v, headers out=%v", h, c06LayerName(ot, nest), rl.Committed, cq.w.out)
					}
				},
				func(code, h int) { rq.trace = append(rq.trace, c06Ev{code, h, ot}) })
			retErr := err != nil
			rq.snaps = append(rq.snaps, c06Snap{rl.Committed, rl.Status, int(rl.Size), len(w.calls), w.sent, w.body, w.flushes, lg.n, retN, retErr})

			// ---------- model-free oracle: the property's clauses on what was recorded ----------
			// a commit the writer must refuse: this step's first status (from the program text) is
			// outside 100..999, nothing is out yet, the writer is a refusing one
			refused, mustRefuse, refusedCode := false, false, 0
			want, may := c06ExpectedFirstStatus(o, pend[ot])
			if strict && !prevOut && may && c06Invalid(want) {
				mustRefuse, refusedCode = true, want
				if s, ok := panicked.(string); ok && strings.HasPrefix(s, "invalid WriteHeader code") {
					refused = true
					tags["commit-refused-by-writer"] = true
				}
			}
			if w.out && !prevOut && c06Invalid(w.sent) {
				tags["invalid-status-code-sent"] = true
			}
			if refused {
				// the panic of the underlying writer aborts the operation; the clauses below must
				// hold in the state it left: nothing out, Committed false
				if w.out || len(w.calls) != prevCalls {
					fail(i, "a refusing writer recorded a WriteHeader call it refused")
				}
			} else if panicked != nil {
				if c06NoFlush(c) && c06IsFlush(o.K) {
					// Response.Flush on a writer that cannot flush panics by design — but only
					// after it has committed: the clauses below must hold in the state it left
					tags["flush-panics-on-nonflusher"] = true
					if w.flushes != prevFlushes {
						fail(i, "a flush reached an underlying writer that has no Flush method")
					}
				} else {
					fail(i, fmt.Sprintf("panic: %v", panicked))
				}
			}
			if mustRefuse && !refused && !w.out && o.K != "copy" && o.K != "copywt" && panicked == nil {
				fail(i, fmt.Sprintf("status %d was neither sent nor refused by the writer", refusedCode))
			}
			if rq.hookMsg != "" {
				fail(i, rq.hookMsg)
			}
			if len(w.calls) > 1 {
				fail(i, fmt.Sprintf("the underlying writer received WriteHeader %d times: %v", len(w.calls), w.calls))
			}
			if prevOut {
				opsAfterCommit++
				if w.sent != prevSent || len(w.calls) != prevCalls {
					fail(i, fmt.Sprintf("a status write after the headers went out reached the underlying writer (calls %v)", w.calls))
				}
				if c06CarriesStatus(o) && prev[ot].committed {
					tags["status-write-after-commit:"+o.K] = true
					if lg.n <= prevWarns {
						fail(i, "ignored status write was not logged")
					}
				}
			} else if w.out {
				// the headers went out in this step: first status wins
				if !may {
					fail(i, fmt.Sprintf("headers went out (status %d) on an operation that writes nothing", w.sent))
				} else if w.sent != want {
					fail(i, fmt.Sprintf("first status set was %d but %d was sent", want, w.sent))
				}
				if w.sentDisp != pendingDisp {
					fail(i, fmt.Sprintf("Content-Disposition kind %d was in the header map when the headers went out, the program asked for kind %d (0 none, 1 attachment, 2 inline)", w.sentDisp, pendingDisp))
				}
				tags["commit-by:"+o.K] = true
			} else if refused {
				// the refused status write stays pending in the Response it was addressed to and in
				// every Response it travelled through on its way to the writer
				for t := 0; t <= ot; t++ {
					pend[t] = refusedCode
				}
			} else if o.K == "json" || o.K == "jsonpretty" {
				pend[ot] = o.C // preset; goes out with the next implicit commit through this Response
			}
			// the bookkeeping clauses, per Response of the tower
			for t, r := range resp {
				on := c06LayerName(t, nest)
				if t > minT {
					// an operation has gone to a Response further out, behind this one's back: it
					// still must not claim more than what happened
					if r.Committed && !w.out {
						fail(i, fmt.Sprintf("Committed=true%s but no headers are out", on))
					}
					if int(r.Size) > w.body {
						fail(i, fmt.Sprintf("Response.Size=%d%s but only %d body bytes were written", r.Size, on, w.body))
					}
					continue
				}
				if r.Committed != w.out {
					fail(i, fmt.Sprintf("Committed=%v%s but headers out=%v (sent status %d)", r.Committed, on, w.out, w.sent))
				}
				if w.out {
					if r.Status != w.sent {
						fail(i, fmt.Sprintf("Response.Status=%d%s but status %d was sent", r.Status, on, w.sent))
					}
					if int(r.Size) != w.body {
						fail(i, fmt.Sprintf("Response.Size=%d%s but %d body bytes were written", r.Size, on, w.body))
					}
					if len(w.calls) != 1 || w.calls[0] != w.sent {
						fail(i, fmt.Sprintf("headers out with status %d but WriteHeader calls received: %v", w.sent, w.calls))
					}
				} else if r.Size != 0 || w.body != 0 {
					fail(i, "body bytes counted/written although the headers are not out"+on)
				}
				if prevOut && prev[t].committed && r.Status != prev[t].status {
					fail(i, fmt.Sprintf("Response.Status changed %d -> %d after commit%s", prev[t].status, r.Status, on))
				}
				if int(r.Size)-prev[t].size != w.body-prevBody {
					fail(i, fmt.Sprintf("Size grew by %d%s but %d bytes were written", int(r.Size)-prev[t].size, on, w.body-prevBody))
				}
			}
			if o.K == "unwrap" && err != nil {
				fail(i, "Response.Unwrap() does not return the writer the Response was given")
			}
			if (o.K == "rcfl" || o.K == "fefl") && err != nil && !c06NoFlush(c) && !refused {
				fail(i, fmt.Sprintf("flushing through the optional interfaces failed although the underlying writer can flush: %v", err))
			}
			if o.K == "hijack" {
				tags["hijack"] = true
				for t, r := range resp {
					if r.Committed != prev[t].committed || r.Status != prev[t].status || int(r.Size) != prev[t].size {
						fail(i, "Hijack changed the response bookkeeping"+c06LayerName(t, nest))
					}
				}
				if w.sent != prevSent || len(w.calls) != prevCalls || w.body != prevBody || w.flushes != prevFlushes {
					fail(i, "Hijack wrote to the underlying writer")
				}
				if c.HJ {
					if w.hijacks != prevHijacks+1 || !errors.Is(err, errC06Hijack) {
						fail(i, fmt.Sprintf("Hijack did not reach the underlying http.Hijacker exactly once (calls %d -> %d, err %v)", prevHijacks, w.hijacks, err))
					}
				} else if !errors.Is(err, http.ErrNotSupported) {
					fail(i, fmt.Sprintf("Hijack on a writer without http.Hijacker returned %v, not http.ErrNotSupported", err))
				}
			}
			if (o.K == "w" || o.K == "wstr") && !refused {
				if retN != w.body-prevBody || (err != nil) != (retN < o.N) {
					fail(i, fmt.Sprintf("Write(%d bytes) returned (%d, err=%v) but the writer accepted %d", o.N, retN, err != nil, w.body-prevBody))
				}
			}
			if retErr && w.cap >= 0 && w.body == w.cap {
				tags["short-write"] = true
			}
		}
		if level == nest && ri+1 < len(progs) {
			for _, r := range resp {
				if !r.Committed && r.Status != 200 && r.Status != 0 {
					tags["earlier-request-left-preset-status"] = true
					carried = true
				}
				if r.Committed && (r.Status != 200 || r.Size > 0) {
					tags["earlier-request-committed"] = true
					carried = true
				}
			}
			for _, o := range ops {
				if o.K == "bf" || o.K == "af" {
					tags["earlier-request-left-hooks"] = true
					carried = true
				}
			}
		}
	}

	defer func() {
		if p := recover(); p != nil {
			res = Result{Ops: c06Ops(c), Obs: "panic", Oracle: fmt.Sprintf("panic: %v", p), Tags: []string{"panic"}}
		}
	}()
	same := c.Same && nest > 0
	tw := c06NewTower(nest, same, c06Target(c), body)
	lg = &c06Logger{Logger: tw.envs[0].e.Logger}
	tw.envs[0].e.Logger = lg
	if same {
		lg.layer = -1 // one logger for all levels: which Response warned is not known
	}
	for t := 1; t <= nest && !same; t++ {
		tw.envs[t].e.Logger = &c06Logger{Logger: tw.envs[t].e.Logger, layer: t, root: lg}
	}
	begin := func(i int) http.ResponseWriter {
		cur = i
		rq := &c06Req{minT: nest, pend: make([]int, nest+1)}
		rq.w = &c06Writer{h: http.Header{}, cap: c.Cap, trace: &rq.trace, strict: strict}
		if c.Cap < 0 {
			rq.w.cap = -1
		}
		reqs[i] = rq
		lg.trace, lg.n = &rq.trace, 0
		given[0] = c06Under(rq.w, !c.NF, c.RF, c.HJ, c.X)
		return given[0]
	}
	if c.Fresh {
		tags["fresh-context"] = true
		for i := range progs {
			under := begin(i)
			req := httptest.NewRequest(http.MethodGet, c06Target(c), nil)
			for t := 0; t <= nest; t++ {
				var wr http.ResponseWriter = under
				if t > 0 {
					wr = tw.ctxs[t-1].Response()
				}
				if i == 0 {
					tw.ctxs[t] = tw.envs[t].e.NewContext(req, wr)
				} else {
					tw.ctxs[t].Reset(req, wr)
				}
				body(tw, t)
			}
		}
	} else {
		for i := range progs {
			under := begin(i)
			tw.envs[0].e.ServeHTTP(under, httptest.NewRequest(http.MethodGet, c06Target(c), nil))
		}
	}
	for i, rq := range reqs {
		// the hook / ordering clauses for every Response nothing went around
		for t := 0; t <= rq.minT && t <= nest; t++ {
			if msg := c06ScanTrace(c06LayerTrace(rq.trace, t)); msg != "" && oracle == "" {
				oracle = "hooks/order" + c06LayerName(t, nest) + ": " + msg
				if len(progs) > 1 {
					oracle = fmt.Sprintf("request %d of %d: %s", i+1, len(progs), oracle)
				}
			}
		}
	}
	if c.RoundTrip && c.Cap < 0 && len(c.Prev) == 0 {
		tags["round-trip"] = true
		if msg := c06RoundTrip(c); msg != "" && oracle == "" {
			oracle = msg
		}
	}

	// observation in the model's format
	obs := []string{wInt(len(reqs))}
	for _, rq := range reqs {
		obs = append(obs, wInt(len(rq.snaps)))
		for _, s := range rq.snaps {
			obs = append(obs, wBool(s.committed), wCode(s.status), wInt(s.size), wInt(s.ncalls), wCode(s.sent),
				wInt(s.body), wInt(s.flushes), wInt(s.warns), wInt(s.retN), wBool(s.retErr))
		}
		obs = append(obs, wInt(rq.w.sentCT), wBool(rq.w.sentLoc), wInt(rq.w.sentDisp), wInt(len(rq.trace)))
		for _, ev := range rq.trace {
			obs = append(obs, wInt(ev.code), wInt(ev.arg))
		}
	}

	// tags
	nb, na := 0, 0
	firstTouch := ""
	for _, ops := range progs {
		ft := ""
		for _, o := range ops {
			switch o.K {
			case "bf":
				nb++
			case "af":
				na++
			default:
				if ft == "" {
					ft = o.K
				}
			}
			switch o.K {
			case "jsonpretty", "jsonpv", "xmlv", "xmlpretty", "render", "file", "filefs", "attach", "inline", "wstr", "copywt":
				tags["op:"+o.K] = true
			}
		}
		firstTouch = ft // of the last request
	}
	last := reqs[len(reqs)-1]
	if len(progs) > 1 {
		tags[fmt.Sprintf("requests-on-one-context:%d", len(progs))] = true
	}
	if c.RF {
		tags["underlying-writer-is-ReaderFrom"] = true
	}
	if c06NoFlush(c) {
		tags["underlying-writer-is-no-Flusher"] = true
	}
	if c.X {
		tags["underlying-writer-is-StringWriter+FlushError"] = true
	}
	if c.HJ {
		tags["underlying-writer-is-Hijacker"] = true
	}
	if c.Pretty {
		tags["query-pretty"] = true
	}
	if strict {
		tags["underlying-writer-refuses-invalid-codes"] = true
	}
	if firstTouch == "rcfl" || firstTouch == "fefl" {
		tags["flush-first-via-ResponseController/FlushError"] = true
	}
	if c06IsFlush(firstTouch) {
		tags["flush-first"] = true
	}
	if nb > 0 {
		tags["before-hooks"] = true
	}
	if na > 0 {
		tags["after-hooks"] = true
	}
	if opsAfterCommit > 0 {
		tags["ops-after-commit"] = true
	}
	if !last.w.out {
		tags["never-committed"] = true
	}
	if same {
		tags["tower-levels-are-routes-of-one-Echo"] = true
	}
	if nest > 0 {
		tags[fmt.Sprintf("response-on-top-of-%d-other-responses", nest)] = true
		if last.minT < nest {
			tags["operations-on-an-outer-response"] = true
		}
		for _, ops := range progs {
			for _, o := range ops {
				if c06IsHookOp(o) && c06TowerIndex(o, nest) < nest {
					tags["hooks-on-an-outer-response"] = true
				}
			}
		}
	}
	var tl []string
	for t := range tags {
		tl = append(tl, t)
	}
	nontrivial := opsAfterCommit > 0 && (nb+na > 0 || c06IsFlush(firstTouch) || tags["short-write"] || len(tl) >= 4)
	if carried && last.w.out {
		nontrivial = true
	}
	if nest > 0 {
		// a tower of Responses: the model of lean/EchoModel/C06Nest.lean (or no model comparison at
		// all when the case uses what that model does not have)
		line := c06NestLine(c)
		nobs := ""
		if line != "" {
			tl = append(tl, "compared-with-the-tower-model")
			var p []string
			for t := 0; t <= nest; t++ {
				r := tw.ctxs[t].Response()
				p = append(p, wBool(r.Committed), wCode(r.Status), wInt(int(r.Size)))
			}
			p = append(p, wInt(len(last.w.calls)), wInt(last.w.body), wInt(last.w.flushes), wInt(len(last.trace)))
			for _, ev := range last.trace {
				p = append(p, wInt(ev.code), wInt(ev.l), wInt(ev.arg))
			}
			nobs = strings.Join(p, " ")
		}
		return Result{Ops: line, Obs: nobs, Oracle: oracle, Tags: tl, Nontrivial: last.w.out}
	}
	if c06HasSubHooks(c) {
		// hooks that register hooks: the small model of lean/EchoModel/C06Hooks.lean (or no model
		// comparison at all when the case uses what that model does not have)
		for _, ops := range progs {
			for _, o := range ops {
				if o.Sub != "" {
					tl = append(tl, "hook-registers-hook:"+o.K+">"+o.Sub)
				}
			}
		}
		line := c06HookLine(c)
		hobs := ""
		if line != "" && len(last.snaps) > 0 {
			f := last.snaps[len(last.snaps)-1]
			p := []string{wBool(f.committed), wCode(f.status), wInt(f.size), wInt(f.ncalls), wInt(f.body), wInt(len(last.trace))}
			for _, ev := range last.trace {
				p = append(p, wInt(ev.code), wInt(ev.arg))
			}
			hobs = strings.Join(p, " ")
		}
		return Result{Ops: line, Obs: hobs, Oracle: oracle, Tags: tl, Nontrivial: true}
	}
	return Result{Ops: c06Ops(c), Obs: strings.Join(obs, " "), Oracle: oracle, Tags: tl, Nontrivial: nontrivial}
}

// " on the Response k levels out of the handler's" for messages about a tower
func c06LayerName(t, nest int) string {
	if nest == 0 {
		return ""
	}
	switch {
	case t == 0 && nest == 1:
		return " (OUTER Response, the one around the underlying writer)"
	case t == 0:
		return fmt.Sprintf(" (OUTERMOST Response of %d, the one around the underlying writer)", nest+1)
	case t == nest:
		return " (the handler's own, innermost Response)"
	}
	return fmt.Sprintf(" (Response %d levels above the underlying writer)", t)
}

// model line for the tower model ("N nlayers status0* nops (kind layer args)*"), or "" when the case
// is outside it (earlier requests, capacity, non-flusher, refusing writer, hooks registering hooks,
// helpers the tower model does not have)
func c06NestLine(c *c06Case) string {
	nest := c06NestOf(c)
	if len(c.Prev) > 0 || c.Cap >= 0 || c06NoFlush(c) || c06Strict(c) || c06HasSubHooks(c) || c.Same {
		return ""
	}
	p := 200
	if c.Fresh {
		p = 0
	}
	parts := []string{"N", wInt(nest + 1)}
	for t := 0; t <= nest; t++ {
		parts = append(parts, wInt(p))
	}
	parts = append(parts, wInt(len(c.Ops)))
	for _, o := range c.Ops {
		t := wInt(c06TowerIndex(o, nest))
		switch o.K {
		case "wh", "nc":
			parts = append(parts, wJoin("1", t, wCode(o.C)))
		case "w", "wstr":
			parts = append(parts, wJoin("2", t, wInt(o.N)))
		case "fl", "rcfl", "fefl":
			parts = append(parts, wJoin("3", t))
		case "bf":
			parts = append(parts, wJoin("4", t, wInt(o.H)))
		case "af":
			parts = append(parts, wJoin("5", t, wInt(o.H)))
		case "json", "jsonpretty":
			parts = append(parts, wJoin("6", t, wCode(o.C), wInt(o.N), wBool(!o.Bad)))
		case "blob":
			parts = append(parts, wJoin("7", t, wCode(o.C), wInt(o.N)))
		default:
			return ""
		}
	}
	return strings.Join(parts, " ")
}

func c06HasSubHooks(c *c06Case) bool {
	for _, ops := range c06Programs(c) {
		for _, o := range ops {
			if (o.K == "bf" || o.K == "af") && o.Sub != "" {
				return true
			}
		}
	}
	return false
}

// model line for the hooks model ("H status0 nops op*"), or "" when the case is outside it
func c06HookLine(c *c06Case) string {
	if len(c.Prev) > 0 || c.Cap >= 0 || c06NoFlush(c) || c06Strict(c) {
		return ""
	}
	p := 200
	if c.Fresh {
		p = 0
	}
	parts := []string{"H", wInt(p), wInt(len(c.Ops))}
	hook := func(o c06Op) string {
		switch o.Sub {
		case "bf":
			return wJoin(wInt(o.H), "1", wInt(o.SubH))
		case "af":
			return wJoin(wInt(o.H), "2", wInt(o.SubH))
		}
		return wJoin(wInt(o.H), "0")
	}
	for _, o := range c.Ops {
		switch o.K {
		case "wh", "nc":
			parts = append(parts, wJoin("1", wCode(o.C)))
		case "w", "wstr":
			parts = append(parts, wJoin("2", wInt(o.N)))
		case "fl", "rcfl", "fefl":
			parts = append(parts, "3")
		case "bf":
			parts = append(parts, wJoin("4", hook(o)))
		case "af":
			parts = append(parts, wJoin("5", hook(o)))
		case "json", "jsonpretty":
			parts = append(parts, wJoin("6", wCode(o.C), wInt(o.N), wBool(!o.Bad)))
		case "blob":
			parts = append(parts, wJoin("7", wCode(o.C), wInt(o.N)))
		default:
			return ""
		}
	}
	return strings.Join(parts, " ")
}

func c06Ops(c *c06Case) string {
	p := 200
	if c.Fresh {
		p = 0
	}
	cap := c.Cap
	if cap < 0 {
		cap = 1 << 30
	}
	progs := c06Programs(c)
	parts := []string{wInt(p), wInt(cap), wBool(!c06NoFlush(c)), wBool(c06Strict(c)), wInt(len(progs))}
	for _, ops := range progs {
		parts = append(parts, wInt(len(ops)))
		for _, o := range ops {
			parts = append(parts, c06ModelOp(o))
		}
	}
	return strings.Join(parts, " ")
}
