package main

// C06 — response bookkeeping equals what was actually sent.
//
// Real code: echo.Response (WriteHeader / Write / Flush / Before / After) and the echo.Context
// response helpers, driven by a handler program through e.ServeHTTP (or e.NewContext) on top
// of a recording http.ResponseWriter that follows net/http's rule.
// Model: lean/EchoModel/C06.lean (runSnaps).

import (
	"errors"
	"fmt"
	"io"
	"log"
	"math/rand"
	"net/http"
	"net/http/httptest"
	"strings"
	"time"

	"github.com/labstack/echo/v4"
)

type c06Op struct {
	K      string `json:"k"` // wh w fl bf af json blob nc redir stream xml jsonp rcfl fefl unwrap copy
	C      int    `json:"c,omitempty"`
	N      int    `json:"n,omitempty"`
	H      int    `json:"h,omitempty"`
	CT     int    `json:"ct,omitempty"`  // blob: 1 String, 2 HTML, 3 JSONBlob, 7 Blob(image/png)
	Bad    bool   `json:"bad,omitempty"` // json: value that cannot be serialised
	Chunks []int  `json:"chunks,omitempty"`
	RErr   bool   `json:"rerr,omitempty"` // stream: reader ends with an error instead of EOF
}

type c06Case struct {
	Fresh bool    `json:"fresh"` // true: e.NewContext (Status starts at 0); false: e.ServeHTTP
	Cap   int     `json:"cap"`   // body bytes the underlying writer accepts; <0 = unlimited
	Ops   []c06Op `json:"ops"`
	// the underlying writer also implements io.ReaderFrom, like net/http's connection writer
	// (httptest.ResponseRecorder does not); echo.Response itself has no ReadFrom, so io.Copy
	// into it must still go through Response.Write
	RF bool `json:"rf,omitempty"`
	// thorough tier: run the program a second time behind a real net/http server and compare
	// what the client receives with Response.Status / Response.Size
	RoundTrip bool `json:"round_trip,omitempty"`
}

// ---- events (codes as in C06.encEv) ----
const (
	c06RegB = 1 + iota
	c06RegA
	c06RunB
	c06RunA
	c06Hdr
	c06Impl
	c06Body
	c06RFlush
	c06Warn
)

type c06Ev struct{ code, arg int }

// ---- recording writer: net/http's rule ----
type c06Writer struct {
	h       http.Header
	calls   []int
	sent    int // 0 = headers not out
	sentCT  int
	sentLoc bool
	body    int
	flushes int
	cap     int
	trace   *[]c06Ev
}

// c06WriterRF is the recording writer with io.ReaderFrom: it drains the source into itself,
// one recorded body write per read, like net/http's (*response).ReadFrom does via io.Copy.
type c06WriterRF struct{ *c06Writer }

func (w c06WriterRF) ReadFrom(src io.Reader) (int64, error) {
	buf := make([]byte, 32*1024)
	var total int64
	for {
		n, rerr := src.Read(buf)
		if n > 0 {
			k, werr := w.c06Writer.Write(buf[:n])
			total += int64(k)
			if werr != nil {
				return total, werr
			}
		}
		if rerr == io.EOF {
			return total, nil
		}
		if rerr != nil {
			return total, rerr
		}
	}
}

var errC06Short = errors.New("underlying writer: capacity exhausted")
var errC06Reader = errors.New("stream source failed")

func c06CTid(v string) int {
	if i := strings.IndexByte(v, ';'); i >= 0 {
		v = v[:i]
	}
	switch strings.ToLower(strings.TrimSpace(v)) {
	case "":
		return 0
	case "text/plain":
		return 1
	case "text/html":
		return 2
	case "application/json":
		return 3
	case "application/javascript":
		return 4
	case "application/xml":
		return 5
	case "application/octet-stream":
		return 6
	case "image/png":
		return 7
	}
	return 99
}

func (w *c06Writer) send(code int) {
	w.sent = code
	w.sentCT = c06CTid(w.h.Get("Content-Type"))
	w.sentLoc = w.h.Get("Location") != ""
}
func (w *c06Writer) Header() http.Header { return w.h }
func (w *c06Writer) WriteHeader(code int) {
	w.calls = append(w.calls, code)
	*w.trace = append(*w.trace, c06Ev{c06Hdr, code})
	if w.sent == 0 {
		w.send(code)
	}
}
func (w *c06Writer) implicit() {
	if w.sent == 0 {
		w.send(200)
		*w.trace = append(*w.trace, c06Ev{c06Impl, 0})
	}
}
func (w *c06Writer) Write(b []byte) (int, error) {
	w.implicit()
	acc := len(b)
	if w.cap >= 0 && acc > w.cap-w.body {
		acc = w.cap - w.body
	}
	w.body += acc
	*w.trace = append(*w.trace, c06Ev{c06Body, acc})
	if acc < len(b) {
		return acc, errC06Short
	}
	return acc, nil
}
func (w *c06Writer) Flush() {
	w.implicit()
	w.flushes++
	*w.trace = append(*w.trace, c06Ev{c06RFlush, 0})
}

// ---- recording logger ----
type c06Logger struct {
	echo.Logger
	trace *[]c06Ev
	n     int
}

func (l *c06Logger) Warn(i ...interface{}) {
	l.n++
	*l.trace = append(*l.trace, c06Ev{c06Warn, 0})
}
func (l *c06Logger) Warnf(format string, args ...interface{}) {
	l.n++
	*l.trace = append(*l.trace, c06Ev{c06Warn, 0})
}

type c06Reader struct {
	chunks []int
	rerr   bool
}

func (r *c06Reader) Read(b []byte) (int, error) {
	if len(r.chunks) == 0 {
		if r.rerr {
			return 0, errC06Reader
		}
		return 0, io.EOF
	}
	n := r.chunks[0]
	r.chunks = r.chunks[1:]
	if n > len(b) {
		n = len(b)
	}
	for i := 0; i < n; i++ {
		b[i] = 'x'
	}
	return n, nil
}

type c06Snap struct {
	committed                                        bool
	status, size, ncalls, sent, body, flushes, warns int
	retN                                             int
	retErr                                           bool
}

func c06ModelOp(o c06Op) string {
	switch o.K {
	case "wh":
		return wJoin("1", wInt(o.C))
	case "w":
		return wJoin("2", wInt(o.N))
	case "fl":
		return "3"
	case "bf":
		return wJoin("4", wInt(o.H))
	case "af":
		return wJoin("5", wInt(o.H))
	case "json":
		return wJoin("6", wInt(o.C), wInt(o.N), wBool(!o.Bad))
	case "blob":
		return wJoin("7", wInt(o.C), wInt(o.CT), wInt(o.N))
	case "nc":
		return wJoin("8", wInt(o.C))
	case "redir":
		return wJoin("9", wInt(o.C))
	case "stream":
		p := []string{"10", wInt(o.C), wInt(len(o.Chunks))}
		for _, c := range o.Chunks {
			p = append(p, wInt(c))
		}
		p = append(p, wBool(o.RErr))
		return strings.Join(p, " ")
	case "xml":
		return wJoin("11", wInt(o.C), wInt(o.N))
	case "jsonp":
		return wJoin("12", wInt(o.C), wInt(o.H), wInt(o.N))
	case "rcfl":
		return "13"
	case "fefl":
		return "14"
	case "unwrap":
		return "15"
	case "copy":
		p := []string{"16", wInt(len(o.Chunks))}
		for _, c := range o.Chunks {
			p = append(p, wInt(c))
		}
		p = append(p, wBool(o.RErr))
		return strings.Join(p, " ")
	}
	return "0"
}

// does the op carry a status code that reaches Response (a "status write")?
func c06CarriesStatus(o c06Op) bool {
	switch o.K {
	case "wh", "json", "blob", "nc", "stream", "xml", "jsonp":
		return true
	case "redir":
		return o.C >= 300 && o.C <= 308
	}
	return false
}

// may the op make the headers go out, and with which status (pending = Response.Status before)?
func c06ExpectedFirstStatus(o c06Op, pending int) (int, bool) {
	switch o.K {
	case "w", "fl", "rcfl", "fefl", "copy":
		// (a copy of an empty source need not send anything; IF it sends, then the pending status)
		if pending == 0 {
			return 200, true
		}
		return pending, true
	case "json":
		if o.Bad {
			return 0, false
		}
		return o.C, true
	case "bf", "af", "unwrap":
		return 0, false
	}
	if c06CarriesStatus(o) {
		return o.C, true
	}
	return 0, false
}

// the hook / ordering clauses of the property as a scanner over the recorded events
// (same automaton as C06.Scan.next in lean/EchoProofs/C06.lean; no model involved)
func c06ScanTrace(tr []c06Ev) string {
	var bef, aft []int
	const (
		idle = iota
		running
		out
	)
	ph := idle
	var rest []int // running: before-hooks still to run; out: after-hooks still to run
	for i, e := range tr {
		bad := func(msg string) string { return fmt.Sprintf("event %d: %s", i, msg) }
		quiet := ph == idle || (ph == out && len(rest) == 0)
		switch e.code {
		case c06RegB:
			if !quiet {
				return bad("hook registered while hooks were running")
			}
			bef = append(bef, e.arg)
		case c06RegA:
			if !quiet {
				return bad("hook registered while hooks were running")
			}
			aft = append(aft, e.arg)
		case c06RunB:
			if ph == idle {
				ph, rest = running, append([]int(nil), bef...)
			}
			if ph != running {
				return bad(fmt.Sprintf("before-hook %d ran after the headers went out (or a second time)", e.arg))
			}
			if len(rest) == 0 || rest[0] != e.arg {
				return bad(fmt.Sprintf("before-hook %d ran out of turn / more than once", e.arg))
			}
			rest = rest[1:]
		case c06Hdr:
			if ph == idle {
				ph, rest = running, append([]int(nil), bef...)
			}
			if ph != running {
				return bad(fmt.Sprintf("underlying writer received a second WriteHeader(%d) after the headers went out", e.arg))
			}
			if len(rest) != 0 {
				return bad(fmt.Sprintf("headers went out before before-hook %d ran", rest[0]))
			}
			ph, rest = out, nil
		case c06Impl:
			return bad("the underlying writer had to send an implicit 200: echo wrote/flushed without committing")
		case c06Body:
			if ph != out || len(rest) != 0 {
				return bad("body write before the headers went out or while after-hooks were pending")
			}
			rest = append([]int(nil), aft...)
		case c06RunA:
			if ph != out || len(rest) == 0 || rest[0] != e.arg {
				return bad(fmt.Sprintf("after-hook %d ran without a preceding body write / out of turn", e.arg))
			}
			rest = rest[1:]
		case c06RFlush:
			if ph != out || len(rest) != 0 {
				return bad("flush reached the underlying writer before the headers were committed")
			}
		case c06Warn:
			if ph != out || len(rest) != 0 {
				return bad("'already committed' logged although the headers are not out (or between a body write and its after-hooks)")
			}
		}
	}
	if ph == running || (ph == out && len(rest) != 0) {
		if ph == running {
			return "before-hooks started but the headers never went out"
		}
		return fmt.Sprintf("after-hook %d did not run after the last body write", rest[0])
	}
	return ""
}

// c06Exec performs one operation of a handler program on the real echo.Context
func c06Exec(ctx echo.Context, o c06Op, onBefore, onAfter func(h int), onReg func(code, h int)) (retN int, err error) {
	r := ctx.Response()
	switch o.K {
	case "wh":
		r.WriteHeader(o.C)
	case "w":
		retN, err = r.Write(make([]byte, o.N))
	case "fl":
		r.Flush()
	case "bf":
		h := o.H
		onReg(c06RegB, h)
		r.Before(func() { onBefore(h) })
	case "af":
		h := o.H
		onReg(c06RegA, h)
		r.After(func() { onAfter(h) })
	case "json":
		if o.Bad {
			err = ctx.JSON(o.C, make(chan int))
		} else {
			err = ctx.JSON(o.C, strings.Repeat("a", o.N))
		}
	case "blob":
		b := make([]byte, o.N)
		switch o.CT {
		case 1:
			err = ctx.String(o.C, string(b))
		case 2:
			err = ctx.HTML(o.C, string(b))
		case 3:
			err = ctx.JSONBlob(o.C, b)
		default:
			err = ctx.Blob(o.C, "image/png", b)
		}
	case "nc":
		err = ctx.NoContent(o.C)
	case "redir":
		err = ctx.Redirect(o.C, "/elsewhere")
	case "stream":
		err = ctx.Stream(o.C, "application/octet-stream", &c06Reader{chunks: append([]int(nil), o.Chunks...), rerr: o.RErr})
	case "xml":
		err = ctx.XMLBlob(o.C, make([]byte, o.N))
	case "jsonp":
		err = ctx.JSONPBlob(o.C, strings.Repeat("f", o.H), make([]byte, o.N))
	case "rcfl":
		// what net/http itself and handlers written against Go >= 1.20 do
		err = http.NewResponseController(r).Flush()
	case "fefl":
		// the error-returning flush convention, if the writer offers it
		var rw http.ResponseWriter = r
		if fe, ok := rw.(interface{ FlushError() error }); ok {
			err = fe.FlushError()
		} else {
			r.Flush()
		}
	case "unwrap":
		if r.Unwrap() != r.Writer {
			err = errC06Unwrap
		}
	case "copy":
		// a source without WriteTo: io.Copy looks for io.ReaderFrom on the destination
		_, err = io.Copy(r, &c06Reader{chunks: append([]int(nil), o.Chunks...), rerr: o.RErr})
	}
	return
}

var errC06Unwrap = errors.New("Unwrap does not hand out the wrapped writer")

// c06RoundTrip runs the program behind a real net/http server: the status the client receives
// must be Response.Status and the body length Response.Size (net/http drops bodies of
// 204/304 responses: then Write reports 0 bytes written and Size must say so too).
func c06RoundTrip(c *c06Case) string {
	for _, o := range c.Ops {
		if o.C >= 100 && o.C <= 199 {
			// net/http sends 1xx as informational headers and a final status afterwards; the
			// comparison "client status == Response.Status" is meaningless there
			return ""
		}
	}
	e := echo.New()
	e.Logger.SetOutput(io.Discard)
	var committed bool
	var status int
	var size int64
	done := make(chan struct{})
	// after-hooks run after each body write: so once an after-hook is registered, the last run
	// of an after-hook has seen every byte written since (the real connection writer implements
	// io.ReaderFrom, which is where a copy fast path would bypass Response.Write)
	afterReg, afterRuns := false, 0
	var sizeAtReg, sizeAtLastRun int64
	e.GET("/", func(ctx echo.Context) error {
		r := ctx.Response()
		for _, o := range c.Ops {
			c06Exec(ctx, o, func(int) {},
				func(int) { afterRuns++; sizeAtLastRun = r.Size },
				func(code, _ int) {
					if code == c06RegA && !afterReg {
						afterReg, sizeAtReg = true, r.Size
					}
				})
		}
		committed, status, size = r.Committed, r.Status, r.Size
		close(done)
		return nil
	})
	srv := httptest.NewUnstartedServer(e)
	srv.Config.ErrorLog = log.New(io.Discard, "", 0)
	srv.Start()
	defer srv.Close()
	// the server's own client/transport: Server.Close of a concurrently running case closes the
	// idle connections of http.DefaultTransport
	client := srv.Client()
	client.CheckRedirect = func(*http.Request, []*http.Request) error { return http.ErrUseLastResponse }
	resp, err := client.Get(srv.URL + "/")
	if err != nil {
		return fmt.Sprintf("real server: no response: %v", err)
	}
	defer resp.Body.Close()
	body, _ := io.ReadAll(resp.Body)
	select { // a bodiless response reaches the client before the handler has returned
	case <-done:
	case <-time.After(10 * time.Second):
		return "real server: the handler did not finish (panic after the response started?)"
	}
	want := 200 // a handler that never commits: net/http sends its own 200
	if committed {
		want = status
	}
	if resp.StatusCode != want {
		return fmt.Sprintf("real server: client received status %d, Response says Committed=%v Status=%d", resp.StatusCode, committed, status)
	}
	if int64(len(body)) != size {
		return fmt.Sprintf("real server: client received %d body bytes, Response.Size=%d (status %d)", len(body), size, resp.StatusCode)
	}
	if afterReg && size > sizeAtReg && (afterRuns == 0 || sizeAtLastRun != size) {
		return fmt.Sprintf("real server: %d body bytes were written after an after-hook was registered (at Size=%d) but the last of %d after-hook runs saw Size=%d", size-sizeAtReg, sizeAtReg, afterRuns, sizeAtLastRun)
	}
	return ""
}

func c06Run(ci any) (res Result) {
	c := ci.(*c06Case)
	var trace []c06Ev
	w := &c06Writer{h: http.Header{}, cap: c.Cap, trace: &trace}
	if c.Cap < 0 {
		w.cap = -1
	}
	var under http.ResponseWriter = w
	if c.RF {
		under = c06WriterRF{w}
	}
	e := echo.New()
	lg := &c06Logger{Logger: e.Logger, trace: &trace}
	e.Logger = lg

	var snaps []c06Snap
	oracle := ""
	fail := func(i int, msg string) {
		if oracle == "" {
			oracle = fmt.Sprintf("step %d (%s): %s", i, c.Ops[i].K, msg)
		}
	}
	tags := map[string]bool{}
	opsAfterCommit := 0
	hookMsg := "" // what a hook saw at the moment it ran

	handler := func(ctx echo.Context) error {
		r := ctx.Response()
		for i, o := range c.Ops {
			prevCommitted, prevStatus, prevSize := r.Committed, r.Status, r.Size
			prevSent, prevCalls, prevBody, prevWarns := w.sent, len(w.calls), w.body, lg.n
			retN, retErr := 0, false
			var err error
			retN, err = c06Exec(ctx, o,
				func(h int) {
					trace = append(trace, c06Ev{c06RunB, h})
					if (r.Committed || w.sent != 0) && hookMsg == "" {
						hookMsg = fmt.Sprintf("before-hook %d ran with Committed=%v, headers out=%v", h, r.Committed, w.sent != 0)
					}
				},
				func(h int) {
					trace = append(trace, c06Ev{c06RunA, h})
					if (!r.Committed || w.sent == 0) && hookMsg == "" {
						hookMsg = fmt.Sprintf("after-hook %d ran with Committed=%v, headers out=%v", h, r.Committed, w.sent != 0)
					}
				},
				func(code, h int) { trace = append(trace, c06Ev{code, h}) })
			retErr = err != nil
			snaps = append(snaps, c06Snap{r.Committed, r.Status, int(r.Size), len(w.calls), w.sent, w.body, w.flushes, lg.n, retN, retErr})

			// ---------- model-free oracle: the property's clauses on what was recorded ----------
			if hookMsg != "" {
				fail(i, hookMsg)
			}
			if len(w.calls) > 1 {
				fail(i, fmt.Sprintf("the underlying writer received WriteHeader %d times: %v", len(w.calls), w.calls))
			}
			if r.Committed != (w.sent != 0) {
				fail(i, fmt.Sprintf("Committed=%v but headers out=%v (sent status %d)", r.Committed, w.sent != 0, w.sent))
			}
			if w.sent != 0 {
				if r.Status != w.sent {
					fail(i, fmt.Sprintf("Response.Status=%d but status %d was sent", r.Status, w.sent))
				}
				if int(r.Size) != w.body {
					fail(i, fmt.Sprintf("Response.Size=%d but %d body bytes were written", r.Size, w.body))
				}
				if len(w.calls) != 1 || w.calls[0] != w.sent {
					fail(i, fmt.Sprintf("headers out with status %d but WriteHeader calls received: %v", w.sent, w.calls))
				}
			} else if r.Size != 0 || w.body != 0 {
				fail(i, "body bytes counted/written although the headers are not out")
			}
			if prevSent != 0 {
				opsAfterCommit++
				if w.sent != prevSent || len(w.calls) != prevCalls {
					fail(i, fmt.Sprintf("a status write after the headers went out reached the underlying writer (calls %v)", w.calls))
				}
				if prevCommitted && r.Status != prevStatus {
					fail(i, fmt.Sprintf("Response.Status changed %d -> %d after commit", prevStatus, r.Status))
				}
				if c06CarriesStatus(o) {
					tags["status-write-after-commit:"+o.K] = true
					if lg.n <= prevWarns {
						fail(i, "ignored status write was not logged")
					}
				}
			} else if w.sent != 0 {
				// the headers went out in this step: first status wins
				want, may := c06ExpectedFirstStatus(o, prevStatus)
				if !may {
					fail(i, fmt.Sprintf("headers went out (status %d) on an operation that writes nothing", w.sent))
				} else if w.sent != want {
					fail(i, fmt.Sprintf("first status set was %d but %d was sent", want, w.sent))
				}
				tags["commit-by:"+o.K] = true
			}
			if int(r.Size)-int(prevSize) != w.body-prevBody {
				fail(i, fmt.Sprintf("Size grew by %d but %d bytes were written", int(r.Size)-int(prevSize), w.body-prevBody))
			}
			if o.K == "unwrap" && err != nil {
				fail(i, "Response.Unwrap() does not return the wrapped writer")
			}
			if (o.K == "rcfl" || o.K == "fefl") && err != nil {
				fail(i, fmt.Sprintf("flushing through the optional interfaces failed although the underlying writer can flush: %v", err))
			}
			if o.K == "w" {
				if retN != w.body-prevBody || (err != nil) != (retN < o.N) {
					fail(i, fmt.Sprintf("Write(%d bytes) returned (%d, err=%v) but the writer accepted %d", o.N, retN, err != nil, w.body-prevBody))
				}
			}
			if retErr && w.cap >= 0 && w.body == w.cap {
				tags["short-write"] = true
			}
		}
		return nil
	}

	defer func() {
		if p := recover(); p != nil {
			res = Result{Ops: c06Ops(c), Obs: "panic", Oracle: fmt.Sprintf("panic: %v", p), Tags: []string{"panic"}}
		}
	}()
	req := httptest.NewRequest(http.MethodGet, "/", nil)
	if c.Fresh {
		tags["fresh-context"] = true
		handler(e.NewContext(req, under))
	} else {
		e.GET("/", handler)
		e.ServeHTTP(under, req)
	}
	if msg := c06ScanTrace(trace); msg != "" && oracle == "" {
		oracle = "hooks/order: " + msg
	}
	if c.RoundTrip && c.Cap < 0 {
		tags["round-trip"] = true
		if msg := c06RoundTrip(c); msg != "" && oracle == "" {
			oracle = msg
		}
	}

	// observation in the model's format
	obs := []string{wInt(len(snaps))}
	for _, s := range snaps {
		obs = append(obs, wBool(s.committed), wInt(s.status), wInt(s.size), wInt(s.ncalls), wInt(s.sent),
			wInt(s.body), wInt(s.flushes), wInt(s.warns), wInt(s.retN), wBool(s.retErr))
	}
	obs = append(obs, wInt(w.sentCT), wBool(w.sentLoc), wInt(len(trace)))
	for _, ev := range trace {
		obs = append(obs, wInt(ev.code), wInt(ev.arg))
	}

	// tags
	nb, na := 0, 0
	firstTouch := ""
	for _, o := range c.Ops {
		switch o.K {
		case "bf":
			nb++
		case "af":
			na++
		default:
			if firstTouch == "" {
				firstTouch = o.K
			}
		}
	}
	if c.RF {
		tags["underlying-writer-is-ReaderFrom"] = true
	}
	if firstTouch == "rcfl" || firstTouch == "fefl" {
		tags["flush-first-via-ResponseController/FlushError"] = true
	}
	if firstTouch == "fl" || firstTouch == "rcfl" || firstTouch == "fefl" {
		tags["flush-first"] = true
	}
	if nb > 0 {
		tags["before-hooks"] = true
	}
	if na > 0 {
		tags["after-hooks"] = true
	}
	if opsAfterCommit > 0 {
		tags["ops-after-commit"] = true
	}
	if w.sent == 0 {
		tags["never-committed"] = true
	}
	var tl []string
	for t := range tags {
		tl = append(tl, t)
	}
	return Result{Ops: c06Ops(c), Obs: strings.Join(obs, " "), Oracle: oracle, Tags: tl,
		Nontrivial: opsAfterCommit > 0 && (nb+na > 0 || firstTouch == "fl" || firstTouch == "rcfl" || firstTouch == "fefl" || tags["short-write"] || len(tl) >= 4)}
}

func c06Ops(c *c06Case) string {
	p := 200
	if c.Fresh {
		p = 0
	}
	cap := c.Cap
	if cap < 0 {
		cap = 1 << 30
	}
	parts := []string{wInt(p), wInt(cap), wInt(len(c.Ops))}
	for _, o := range c.Ops {
		parts = append(parts, c06ModelOp(o))
	}
	return strings.Join(parts, " ")
}

// ---------- generator ----------

var c06Codes = []int{100, 101, 102, 103, 199, 200, 201, 202, 204, 206, 299, 300, 301, 302, 304, 307, 308, 309, 400, 401, 404, 418, 499, 500, 502, 503, 599}

// Status codes: 200-599 plus the informational range 1xx.  echo.Response treats a 1xx code like
// any other (WriteHeader(103) sets Status and commits); that is what the model says and what the
// recording writer ("first WriteHeader wins") shows.  On a real connection net/http sends 1xx
// headers as informational and lets a final status follow, so programs containing 1xx codes are
// kept away from the real-server round trip (see c06RoundTrip).
func c06Code(r *rand.Rand) int {
	if r.Intn(4) == 0 {
		return 200 + r.Intn(400)
	}
	return c06Codes[r.Intn(len(c06Codes))]
}

func c06Size(r *rand.Rand) int {
	switch r.Intn(6) {
	case 0:
		return 0
	case 1:
		return 1
	case 2:
		return 1 + r.Intn(4096)
	}
	return r.Intn(24)
}

func c06GenOp(r *rand.Rand) c06Op {
	switch r.Intn(20) {
	case 0, 1:
		return c06Op{K: "wh", C: c06Code(r)}
	case 2, 3:
		return c06Op{K: "w", N: c06Size(r)}
	case 4, 5:
		return c06Op{K: "fl"}
	case 6:
		return c06Op{K: "bf", H: 1 + r.Intn(4)}
	case 7:
		return c06Op{K: "af", H: 1 + r.Intn(4)}
	case 8, 9:
		return c06Op{K: "json", C: c06Code(r), N: c06Size(r), Bad: r.Intn(4) == 0}
	case 10:
		return c06Op{K: "blob", C: c06Code(r), CT: []int{1, 2, 3, 7}[r.Intn(4)], N: c06Size(r)}
	case 11:
		return c06Op{K: "nc", C: c06Code(r)}
	case 12:
		c := c06Code(r)
		if r.Intn(2) == 0 {
			c = []int{299, 300, 301, 302, 303, 307, 308, 309}[r.Intn(8)]
		}
		return c06Op{K: "redir", C: c}
	case 13:
		o := c06Op{K: "stream", C: c06Code(r), RErr: r.Intn(5) == 0}
		for k := r.Intn(4); k > 0; k-- {
			o.Chunks = append(o.Chunks, c06Size(r))
		}
		return o
	case 14:
		return c06Op{K: "xml", C: c06Code(r), N: c06Size(r)}
	case 15:
		return c06Op{K: "jsonp", C: c06Code(r), H: r.Intn(6), N: c06Size(r)}
	case 16:
		return c06Op{K: "rcfl"}
	case 17:
		return c06Op{K: "fefl"}
	case 18:
		if r.Intn(3) == 0 {
			return c06Op{K: "unwrap"}
		}
		return c06Op{K: "rcfl"}
	}
	o := c06Op{K: "copy", RErr: r.Intn(5) == 0}
	for k := r.Intn(4); k > 0; k-- {
		o.Chunks = append(o.Chunks, c06Size(r))
	}
	return o
}

// total bytes a program would write with an unlimited writer (to aim capacities at boundaries)
func c06Total(ops []c06Op) int {
	c := &c06Case{Cap: -1, Ops: ops}
	t := 0
	for _, o := range c.Ops {
		switch o.K {
		case "w", "blob":
			t += o.N
		case "json":
			if !o.Bad {
				t += o.N + 3
			}
		case "stream", "copy":
			for _, k := range o.Chunks {
				t += k
			}
		case "xml":
			t += 39 + o.N
		case "jsonp":
			t += o.H + 1 + o.N + 2
		}
	}
	return t
}

func c06Adversarial(r *rand.Rand) []c06Op {
	c1, c2 := c06Code(r), c06Code(r)
	h := 1 + r.Intn(3)
	tpl := [][]c06Op{
		{{K: "fl"}, {K: "wh", C: c1}},
		// the first flush comes through http.ResponseController / the FlushError convention
		{{K: "rcfl"}, {K: "wh", C: c1}},
		{{K: "bf", H: h}, {K: "rcfl"}, {K: "nc", C: c1}, {K: "w", N: 2}},
		{{K: "bf", H: h}, {K: "fefl"}, {K: "blob", C: c1, CT: 1, N: 3}},
		{{K: "json", C: c1, Bad: true}, {K: "rcfl"}, {K: "wh", C: c2}},
		{{K: "unwrap"}, {K: "fefl"}, {K: "unwrap"}, {K: "json", C: c1, N: 1}},
		// bodies produced by io.Copy from a source without WriteTo, with after-hooks watching
		{{K: "af", H: h}, {K: "stream", C: c1, Chunks: []int{3, 0, 2}}},
		{{K: "af", H: h}, {K: "copy", Chunks: []int{4, 1}}, {K: "af", H: h + 1}, {K: "copy", Chunks: []int{2}}},
		{{K: "bf", H: h}, {K: "af", H: h}, {K: "copy", Chunks: []int{0, 0}}, {K: "wh", C: c1}, {K: "copy", Chunks: []int{5}, RErr: true}},
		{{K: "af", H: h}, {K: "w", N: 1}, {K: "stream", C: c2, Chunks: []int{2, 2}, RErr: true}},
		{{K: "bf", H: h}, {K: "wh", C: 103}, {K: "wh", C: c1}, {K: "w", N: 2}},
		{{K: "wh", C: 100}, {K: "blob", C: c1, CT: 1, N: 3}},
		{{K: "bf", H: h}, {K: "nc", C: 102}, {K: "json", C: c1, N: 1}},
		{{K: "wh", C: 199}, {K: "fl"}, {K: "wh", C: c1}},
		{{K: "fl"}, {K: "blob", C: c1, CT: 1, N: 3}},
		{{K: "bf", H: h}, {K: "fl"}, {K: "w", N: 2}},
		{{K: "bf", H: h}, {K: "fl"}, {K: "fl"}, {K: "wh", C: c1}},
		{{K: "blob", C: c1, CT: 1, N: 2}, {K: "json", C: c2, N: 2}},
		{{K: "nc", C: c1}, {K: "json", C: c2, N: 0, Bad: true}},
		{{K: "json", C: c1, Bad: true}, {K: "w", N: 1}},
		{{K: "json", C: c1, Bad: true}, {K: "fl"}},
		{{K: "json", C: c1, Bad: true}, {K: "json", C: c2, N: 1}},
		{{K: "wh", C: c1}, {K: "wh", C: c2}, {K: "w", N: 1}},
		{{K: "w", N: 0}, {K: "wh", C: c1}},
		{{K: "af", H: h}, {K: "jsonp", C: c1, H: 2, N: 3}, {K: "af", H: h + 1}, {K: "xml", C: c2, N: 1}},
		{{K: "bf", H: h}, {K: "bf", H: h}, {K: "redir", C: 308}, {K: "bf", H: h + 1}, {K: "redir", C: 301}},
		{{K: "redir", C: 299}, {K: "redir", C: 309}, {K: "redir", C: 300}},
		{{K: "stream", C: c1, Chunks: []int{0, 2, 0, 3}}, {K: "stream", C: c2, Chunks: []int{1}, RErr: true}},
		{{K: "bf", H: h}, {K: "af", H: h}, {K: "json", C: c1, N: 1}, {K: "fl"}, {K: "json", C: c2, N: 1}},
	}
	ops := append([]c06Op(nil), tpl[r.Intn(len(tpl))]...)
	// surround with a little noise
	for k := r.Intn(3); k > 0; k-- {
		ops = append(ops, c06GenOp(r))
	}
	if r.Intn(4) == 0 {
		ops = append([]c06Op{{K: []string{"bf", "af"}[r.Intn(2)], H: 4}}, ops...)
	}
	return ops
}

func c06Alphabet() []c06Op {
	return []c06Op{
		{K: "wh", C: 404}, {K: "rcfl"}, {K: "wh", C: 103}, {K: "w", N: 3}, {K: "w", N: 0}, {K: "fl"}, {K: "bf", H: 1}, {K: "af", H: 2},
		{K: "json", C: 500, N: 2}, {K: "json", C: 418, Bad: true}, {K: "blob", C: 202, CT: 1, N: 2}, {K: "nc", C: 204},
		{K: "redir", C: 302}, {K: "stream", C: 206, Chunks: []int{2, 1}}, {K: "copy", Chunks: []int{1, 2}},
	}
}

func c06Gen(r *rand.Rand, tier string) []any {
	var out []any
	add := func(ops []c06Op) {
		c := &c06Case{Cap: -1, Ops: ops, Fresh: r.Intn(5) == 0, RF: r.Intn(2) == 0}
		if r.Intn(4) == 0 {
			t := c06Total(ops)
			switch r.Intn(4) {
			case 0:
				c.Cap = 0
			case 1:
				c.Cap = t
			case 2:
				if t > 0 {
					c.Cap = t - 1
				} else {
					c.Cap = 0
				}
			default:
				c.Cap = r.Intn(t + 2)
			}
		}
		out = append(out, c)
	}
	// exhaustive over a small alphabet up to a length
	alpha := c06Alphabet()
	maxLen := 3
	nRandom, nAdv, maxOps := 3000, 1500, 12
	if tier == "thorough" {
		maxLen = 4
		nRandom, nAdv, maxOps = 200000, 50000, 24
	}
	var rec func(prefix []c06Op, l int)
	rec = func(prefix []c06Op, l int) {
		if len(prefix) > 0 {
			out = append(out, &c06Case{Cap: -1, Ops: append([]c06Op(nil), prefix...), RF: len(out)%2 == 0})
		}
		if l == 0 {
			return
		}
		for _, o := range alpha {
			rec(append(prefix, o), l-1)
		}
	}
	rec(nil, maxLen)
	if tier == "thorough" {
		// every program of exactly 5 operations over a 10-op core alphabet
		core := []c06Op{
			{K: "wh", C: 404}, {K: "rcfl"}, {K: "w", N: 3}, {K: "fl"}, {K: "bf", H: 1}, {K: "af", H: 2},
			{K: "json", C: 500, N: 2}, {K: "json", C: 418, Bad: true}, {K: "blob", C: 202, CT: 1, N: 2}, {K: "copy", Chunks: []int{1, 2}},
		}
		var rec5 func(prefix []c06Op)
		rec5 = func(prefix []c06Op) {
			if len(prefix) == 5 {
				out = append(out, &c06Case{Cap: -1, Ops: append([]c06Op(nil), prefix...), RF: len(out)%2 == 0})
				return
			}
			for _, o := range core {
				rec5(append(prefix, o))
			}
		}
		rec5(nil)
	}
	for i := 0; i < nRandom; i++ {
		n := 1 + r.Intn(maxOps)
		var ops []c06Op
		for j := 0; j < n; j++ {
			ops = append(ops, c06GenOp(r))
		}
		add(ops)
	}
	for i := 0; i < nAdv; i++ {
		add(c06Adversarial(r))
	}
	if tier == "thorough" {
		for i := 0; i < 4000; i++ {
			var ops []c06Op
			if i%2 == 0 {
				ops = c06Adversarial(r)
			} else {
				for j := 1 + r.Intn(8); j > 0; j-- {
					ops = append(ops, c06GenOp(r))
				}
			}
			for k := range ops {
				if ops[k].C >= 100 && ops[k].C <= 199 {
					ops[k].C += 100 // no informational codes on a real connection
				}
			}
			out = append(out, &c06Case{Cap: -1, Ops: ops, RoundTrip: true})
		}
	}
	return out
}

func c06Shrink(ci any) []any {
	c := ci.(*c06Case)
	var out []any
	cp := func() *c06Case {
		d := *c
		d.Ops = append([]c06Op(nil), c.Ops...)
		return &d
	}
	for i := range c.Ops {
		if len(c.Ops) > 1 {
			d := cp()
			d.Ops = append(d.Ops[:i], d.Ops[i+1:]...)
			out = append(out, d)
		}
	}
	if c.Fresh {
		d := cp()
		d.Fresh = false
		out = append(out, d)
	}
	if c.Cap >= 0 {
		d := cp()
		d.Cap = -1
		out = append(out, d)
	}
	if c.RoundTrip {
		d := cp()
		d.RoundTrip = false
		out = append(out, d)
	}
	if c.RF {
		d := cp()
		d.RF = false
		out = append(out, d)
	}
	for i, o := range c.Ops {
		if o.N > 1 {
			d := cp()
			d.Ops[i].N = 1
			out = append(out, d)
		}
		if len(o.Chunks) > 0 {
			d := cp()
			d.Ops[i].Chunks = append([]int(nil), o.Chunks[1:]...)
			out = append(out, d)
		}
		if o.RErr {
			d := cp()
			d.Ops[i].RErr = false
			out = append(out, d)
		}
		if o.K == "jsonp" && o.H > 0 {
			d := cp()
			d.Ops[i].H = 0
			out = append(out, d)
		}
	}
	return out
}

func c06Mutate(r *rand.Rand, ci any) []any {
	c := ci.(*c06Case)
	var out []any
	for k := 0; k < 40; k++ {
		d := *c
		d.Ops = append([]c06Op(nil), c.Ops...)
		pos := r.Intn(len(d.Ops) + 1)
		o := c06GenOp(r)
		d.Ops = append(d.Ops[:pos], append([]c06Op{o}, d.Ops[pos:]...)...)
		out = append(out, &d)
	}
	return out
}

func init() {
	register(&Prop{
		ID:             "C06",
		Rule:           "handler programs over {WriteHeader, Write, Flush, Before, After, JSON (serialisable or not), String/HTML/JSONBlob/Blob, NoContent, Redirect (valid and invalid codes), Stream, XMLBlob, JSONPBlob, flush through http.ResponseController, flush through the FlushError convention (interface assertion, else Flush), Unwrap, io.Copy into the Response from a source without WriteTo}: exhaustive over a 15-op alphabet up to length 3 (thorough: 4, plus every program of length 5 over a 10-op core alphabet), random programs of 1-12 ops (thorough: 1-24), adversarial templates (flush first, helper after commit, unserialisable JSON then write, redirect code bounds, hooks around multi-write helpers); status codes 200-599 and 1xx (100-103, 199; echo.Response commits with them like with any other code); a quarter of the cases with a writer capacity at 0 / total-1 / total / random so writes come back short; half of the cases on an underlying writer that also implements io.ReaderFrom (like net/http's connection writer; httptest.ResponseRecorder does not); a fifth through Echo.NewContext (Status starts at 0) instead of ServeHTTP; thorough: 4000 programs additionally behind a real httptest.Server (client status/body length vs Response.Status/Size; no 1xx codes there, net/http treats them as informational); Response fields and the recording writer are sampled after EVERY step; non-trivial = at least one operation after the headers went out AND (a hook registered, or flush as first operation, or a short write, or >=4 distinct tags); distinct = distinct model op lines",
		New:            func() any { return &c06Case{} },
		Gen:            c06Gen,
		Run:            c06Run,
		Shrink:         c06Shrink,
		Mutate:         c06Mutate,
		Correspondence: "C06.runSnaps / C06.step (lean/EchoModel/C06.lean) vs echo.Response + echo.Context helpers over a recording http.ResponseWriter",
	})
}
